#!/usr/bin/env python3
"""Regenerates MANIFEST.json from py/manifest_data.py (keeps it valid and in one place)."""
import json, os, sys
sys.path.insert(0, os.path.dirname(os.path.abspath(__file__)))
from manifest_data import CHECKS, NOT_APPLICABLE, ENGINES, NOTES, HOOK_COMMITS
HOME = os.path.dirname(os.path.dirname(os.path.abspath(__file__)))
import re
_targets = []
for c in CHECKS:
    _targets.append(f"Basyx.Props.{c['id']}")
    mf = os.path.join(HOME, "lean", "Mains", c["id"] + ".lean")
    if os.path.exists(mf):
        _targets += re.findall(r"^import\s+(\S+)", open(mf).read(), re.M)
SETUP = "cd lean && lake build " + " ".join(sorted(set(_targets)))
m = {
 "version": 1,
 "setup_cmd": SETUP,
 "hooks": {
  "guard": "BASYX_PYTHON_SDK_VERIF",
  "enable": "no source hooks are needed: the harness imports basyx from /repo/sdk (PYTHONPATH) and instruments from outside; ./check exports BASYX_PYTHON_SDK_VERIF=1 for completeness",
  "baseline_off_cmd": "cd /repo && /venv/bin/python -m pytest -ra -q -p no:cacheprovider --timeout=900 --continue-on-collection-errors",
  "source_commits": HOOK_COMMITS,
  "add_only": True
 },
 "engines": ENGINES,
 "checks": [],
 "notes": NOTES,
 "not_applicable": NOT_APPLICABLE,
}
for c in CHECKS:
    pid = c["id"]
    m["checks"].append({
        "property_id": pid,
        "quick_cmd": f"./check {pid} --tier quick",
        "thorough_cmd": f"./check {pid} --tier thorough",
        "evidence_file": f"evidence/{pid}.json",
        "replay_cmd_template": f"./check {pid} --replay {{path}}",
        "engine": "lean4-proof+correspondence",
        "level_claimed": {"category": "proof", "text": c["text"], "design_ref": c.get("design_ref", f"DESIGN.md §6 {pid}")},
        "level_note": c["note"],
        "technique": c["technique"],
    })
json.dump(m, open(os.path.join(HOME, "MANIFEST.json"), "w"), indent=1)
print("MANIFEST.json written:", len(m["checks"]), "checks,", len(NOT_APPLICABLE), "not_applicable")

# merged known-findings file (source of truth: known_findings/<id>.json)
import glob
merged = {"_comment": "Merged copy of known_findings/<id>.json (written by py/gen_manifest.py, never at check run time). "
          "status open = genuine defect recorded, not repaired (suppresses exactly the failing case with this signature); "
          "status fixed = repaired by the named 'fix:' commit in /repo (suppresses nothing).", "findings": []}
for f in sorted(glob.glob(os.path.join(HOME, "known_findings", "C*.json"))):
    pid = os.path.basename(f)[:-5]
    for e in json.load(open(f)).get("findings", []):
        merged["findings"].append(dict(e, property=pid))
json.dump(merged, open(os.path.join(HOME, "known_findings.json"), "w"), indent=1)
