"""T-gen: how the writers decide WHICH class an object is (C03, C04) - the part of the adapters that decides whether an instance of
an application-defined subclass of a metamodel class is written like an instance of that class.

Extracted by `ast` from the source text:
  * JSON `AASToJsonEncoder._abstract_classes_to_json`: how `data['modelType']` is computed. Recognised shapes:
      mroFirstHit   ref_type = next(iter(t for t in inspect.getmro(type(obj)) if t in model.KEY_TYPES_CLASSES)); ... = ref_type.__name__
      ownName       ... = obj.__class__.__name__ | type(obj).__name__
      exactOrRaise  the same, behind `if type(obj) not in model.KEY_TYPES_CLASSES: raise`
  * the sorting of a store's objects into the three top-level lists, JSON `_create_dict` and XML `object_store_to_xml_element`:
      isinstance    for obj in data: if isinstance(obj, model.A): la.append(obj) elif ...   -> rows (class, list variable)
      typeTable     a dict literal keyed by classes, looked up with type(obj) / obj.__class__   -> rows (class, value)
  Anything else is reported as unrecognised (a broken tie), never guessed.
"""
from __future__ import annotations

import ast
import os
import re
from typing import Any, Dict, List, Optional, Tuple

JSON = "sdk/basyx/aas/adapter/json/json_serialization.py"
XML = "sdk/basyx/aas/adapter/xml/xml_serialization.py"


def _src(n: ast.AST) -> str:
    return ast.unparse(n)


def _find_fn(tree: ast.AST, name: str) -> Optional[ast.FunctionDef]:
    for n in ast.walk(tree):
        if isinstance(n, ast.FunctionDef) and n.name == name:
            return n
    return None


def model_type_by(fn: ast.FunctionDef) -> Tuple[Optional[str], Optional[str]]:
    """-> (shape, problem)"""
    assigns = [n for n in ast.walk(fn) if isinstance(n, ast.Assign) and len(n.targets) == 1 and isinstance(n.targets[0], ast.Subscript)
               and isinstance(n.targets[0].slice, ast.Constant) and n.targets[0].slice.value == "modelType"]
    if len(assigns) != 1:
        return None, f"_abstract_classes_to_json: {len(assigns)} assignments to data['modelType']"
    val = _src(assigns[0].value)
    body = _src(fn)
    if re.fullmatch(r"(\w+)\.__name__", val) and val not in ("obj.__name__",):
        var = val.split(".")[0]
        m = re.search(rf"{var} = next\(iter\(\(?(\w+) for \1 in inspect\.getmro\(type\(obj\)\) if \1 in model\.KEY_TYPES_CLASSES\)?\)\)", body)
        if m:
            return "mroFirstHit", None
    if val in ("obj.__class__.__name__", "type(obj).__name__"):
        if re.search(r"if type\(obj\) not in model\.KEY_TYPES_CLASSES:\s*\n\s*raise", body) or \
                re.search(r"if obj\.__class__ not in model\.KEY_TYPES_CLASSES:\s*\n\s*raise", body):
            return "exactOrRaise", None
        return "ownName", None
    return None, f"_abstract_classes_to_json: data['modelType'] = {val}"


def store_dispatch(fn: ast.FunctionDef, label: str) -> Tuple[Optional[str], List[Tuple[str, str]], Optional[str]]:
    """-> (shape, rows (class, list variable / value), problem)"""
    loops = [n for n in fn.body if isinstance(n, ast.For) and _src(n.iter) == "data"]
    if len(loops) != 1:
        return None, [], f"{label}: {len(loops)} loops over the store"
    loop = loops[0]
    var = _src(loop.target)
    rows: List[Tuple[str, str]] = []
    body = [s for s in loop.body if not (isinstance(s, ast.Expr) and isinstance(s.value, ast.Constant))]
    if len(body) == 1 and isinstance(body[0], ast.If):
        node: Any = body[0]
        while True:
            m = re.fullmatch(rf"isinstance\({var}, model\.(\w+)\)", _src(node.test))
            if not m or len(node.body) != 1:
                return None, [], f"{label}: branch `{_src(node.test)}`"
            m2 = re.fullmatch(rf"(\w+)\.append\({var}\)", _src(node.body[0]))
            if not m2:
                return None, [], f"{label}: branch body `{_src(node.body[0])}`"
            rows.append((m.group(1), m2.group(1)))
            if not node.orelse:
                break
            if len(node.orelse) == 1 and isinstance(node.orelse[0], ast.If):
                node = node.orelse[0]
                continue
            return None, [], f"{label}: else branch `{_src(node.orelse[0])[:60]}`"
        return "isinstance", rows, None
    # a table keyed by classes, looked up with the object's own class
    txt = _src(loop)
    m = re.search(rf"(\w+)\.get\((?:type\({var}\)|{var}\.__class__)\)|(\w+)\[(?:type\({var}\)|{var}\.__class__)\]", txt)
    if m:
        tname = m.group(1) or m.group(2)
        for n in ast.walk(fn):
            tgt = None
            if isinstance(n, ast.Assign) and len(n.targets) == 1:
                tgt, val = n.targets[0], n.value
            elif isinstance(n, ast.AnnAssign) and n.value is not None:
                tgt, val = n.target, n.value
            if tgt is not None and _src(tgt) == tname and isinstance(val, ast.Dict):
                for k, v in zip(val.keys, val.values):
                    rows.append((_src(k).replace("model.", ""), _src(v).strip("'\"")))
                return "typeTable", rows, None
    return None, [], f"{label}: loop body `{_src(body[0])[:80] if body else ''}`"


def build(repo: str) -> Dict[str, Any]:
    out: Dict[str, Any] = {"unrecognised": []}
    jt = ast.parse(open(os.path.join(repo, JSON), encoding="utf-8").read())
    xt = ast.parse(open(os.path.join(repo, XML), encoding="utf-8").read())
    fn = _find_fn(jt, "_abstract_classes_to_json")
    shape, prob = model_type_by(fn) if fn else (None, "no _abstract_classes_to_json")
    out["modelTypeBy"] = shape or "unrecognised"
    if prob:
        out["unrecognised"].append(f"{JSON}: {prob}")
    for key, tree, name, rel in (("jsonStore", jt, "_create_dict", JSON), ("xmlStore", xt, "object_store_to_xml_element", XML)):
        fn = _find_fn(tree, name)
        shape, rows, prob = store_dispatch(fn, name) if fn else (None, [], f"no {name}")
        out[key] = {"by": shape or "unrecognised", "rows": [list(r) for r in rows]}
        if prob:
            out["unrecognised"].append(f"{rel}: {prob}")
    # the order in which the XML writer emits the children of <levelType>: the loop over the dict of adapter/_generic.py
    fn = _find_fn(xt, "data_specification_iec61360_to_xml")
    loops = [n for n in ast.walk(fn) if isinstance(n, ast.For) and "IEC61360_LEVEL_TYPES" in _src(n.iter)] if fn else []
    if len(loops) == 1 and _src(loops[0].iter) == "_generic.IEC61360_LEVEL_TYPES.items()" and len(loops[0].body) == 1 \
            and re.fullmatch(r"\w+\.append\(_generate_element\(NS_AAS \+ (\w+), text=boolean_to_xml\((\w+) in obj\.level_types\)\)\)", _src(loops[0].body[0])):
        out["xmlLevelTypeLoop"] = "dictItems"
    else:
        out["xmlLevelTypeLoop"] = "unrecognised"
        out["unrecognised"].append(f"{XML}: data_specification_iec61360_to_xml: the loop that emits the levelType children")
    # (round 8) does the JSON writer leave `ensure_ascii` at json's default (True: the text is pure ASCII, so it is the same document
    # in every ASCII-compatible encoding a caller's text stream may have)?  Every mention outside docstrings counts: a keyword
    # argument, a string constant (kwargs.setdefault("ensure_ascii", …)), an attribute or a name.
    docstrings = {id(n.body[0].value) for n in ast.walk(jt) if isinstance(n, (ast.FunctionDef, ast.ClassDef, ast.Module)) and n.body
                  and isinstance(n.body[0], ast.Expr) and isinstance(n.body[0].value, ast.Constant)}
    mentions = []
    for n in ast.walk(jt):
        if isinstance(n, ast.keyword) and n.arg == "ensure_ascii":
            mentions.append(f"line {n.value.lineno}: ensure_ascii={_src(n.value)}")
        elif isinstance(n, ast.Constant) and n.value == "ensure_ascii" and id(n) not in docstrings:
            mentions.append(f"line {n.lineno}: 'ensure_ascii'")
        elif isinstance(n, ast.Attribute) and n.attr == "ensure_ascii":
            mentions.append(f"line {n.lineno}: .ensure_ascii")
        elif isinstance(n, ast.Name) and n.id == "ensure_ascii":
            mentions.append(f"line {n.lineno}: ensure_ascii")
    out["jsonEnsureAsciiOverrides"] = sorted(set(mentions))
    return out


def emit_lean(d: Dict[str, Any]) -> str:
    q = lambda s: '"' + s + '"'  # noqa: E731
    rows = lambda rs: "[" + ", ".join(f"({q(a)}, {q(b)})" for a, b in rs) + "]"  # noqa: E731
    return "\n".join([
        "/-! GENERATED by py/translate/dispatch_tables.py from the writers' source - do not edit.",
        "    How the writers decide which metamodel class an object is. -/",
        "namespace Basyx.Gen.Dispatch", "",
        "/-- how `AASToJsonEncoder._abstract_classes_to_json` computes `modelType`: mroFirstHit | ownName | exactOrRaise | unrecognised -/",
        f"def modelTypeBy : String := {q(d['modelTypeBy'])}", "",
        "/-- `_create_dict` (JSON): how a store's objects are sorted into the top-level lists, and the (class, list) rows in source order -/",
        f"def jsonStoreBy : String := {q(d['jsonStore']['by'])}",
        f"def jsonStoreRows : List (String × String) := {rows(d['jsonStore']['rows'])}", "",
        "/-- `object_store_to_xml_element` (XML): the same -/",
        f"def xmlStoreBy : String := {q(d['xmlStore']['by'])}",
        f"def xmlStoreRows : List (String × String) := {rows(d['xmlStore']['rows'])}", "",
        "/-- how `data_specification_iec61360_to_xml` emits the children of `levelType`: dictItems = one child per entry of",
        "    `_generic.IEC61360_LEVEL_TYPES`, in the dict's order -/",
        f"def xmlLevelTypeLoop : String := {q(d['xmlLevelTypeLoop'])}", "",
        "/-- every place where json_serialization.py touches `ensure_ascii` (none: json's default True applies - the written text is ASCII) -/",
        "def jsonEnsureAsciiOverrides : List String := [" + ", ".join(q(m.replace('"', "'")) for m in d.get('jsonEnsureAsciiOverrides', [])) + "]", "",
        "end Basyx.Gen.Dispatch", ""])
