"""Translator (T-gen): extracts, by `ast` only, the member tables of the JSON adapter from /repo's working tree.

  writer  : AASToJsonEncoder._*_to_json            -> (class, member, attribute, guard, stripped?)
  reader  : AASFromJsonDecoder._construct_* / _amend_abstract_attributes
                                                   -> (class, member, required?, stripped?, default)
  enums   : adapter/_generic.py                    -> forward tables  member-name -> wire string
  classes : model/*.py class graph                 -> which mix-in blocks apply to which class

and merges writer + reader rows by (class, member) together with the SPEC domain of the attribute (vf.meta) into
`lean/Basyx/Gen/JsonTable.lean` (+ a JSON copy for the Python harness).  A statement outside the known shapes is
reported as an *unrecognised* construct (broken tie), never guessed.
"""
from __future__ import annotations

import ast
import json
import os
import re
from typing import Any, Dict, List, Optional, Tuple

from vf import meta

CAMEL = re.compile(r"(?<!^)(?=[A-Z])")


class Unrecognised(Exception):
    pass


def parse(path: str) -> ast.Module:
    return ast.parse(open(path, encoding="utf-8").read(), filename=path)


def src(node: ast.AST) -> str:
    return ast.unparse(node)


# ------------------------------------------------------------------------------------------ class graph

def class_graph(repo: str) -> Dict[str, List[str]]:
    bases: Dict[str, List[str]] = {}
    for f in ("base.py", "aas.py", "submodel.py", "concept.py"):
        for node in parse(os.path.join(repo, "sdk/basyx/aas/model", f)).body:
            if isinstance(node, ast.ClassDef):
                bs = []
                for b in node.bases:
                    if isinstance(b, ast.Subscript):
                        b = b.value
                    bs.append(b.attr if isinstance(b, ast.Attribute) else getattr(b, "id", "?"))
                bases[node.name] = bs
    return bases


def ancestors(graph: Dict[str, List[str]], c: str) -> set:
    out, todo = set(), [c]
    while todo:
        x = todo.pop()
        if x in out:
            continue
        out.add(x)
        todo += graph.get(x, [])
    return out


# ------------------------------------------------------------------------------------------ enums

def enum_tables(repo: str) -> Dict[str, Dict[str, str]]:
    tables: Dict[str, Dict[str, str]] = {}
    mod = parse(os.path.join(repo, "sdk/basyx/aas/adapter/_generic.py"))
    for node in mod.body:
        if isinstance(node, ast.AnnAssign) and isinstance(node.value, ast.Dict) and isinstance(node.target, ast.Name):
            t = {}
            for k, v in zip(node.value.keys, node.value.values):
                if isinstance(k, ast.Attribute) and isinstance(v, ast.Constant):
                    t[k.attr] = v.value
            if t:
                tables[node.target.id] = t
    return tables


def xsd_names(repo: str) -> Dict[str, str]:
    """XSD_TYPE_NAMES keyed by the Python class's __name__ (module-level aliases such as `Integer = int` resolved)."""
    mod = parse(os.path.join(repo, "sdk/basyx/aas/model/datatypes.py"))
    alias = {}
    for node in mod.body:
        if isinstance(node, ast.Assign) and len(node.targets) == 1 and isinstance(node.targets[0], ast.Name) \
                and isinstance(node.value, (ast.Name, ast.Attribute)):
            alias[node.targets[0].id] = src(node.value).split(".")[-1]
    for node in ast.walk(mod):
        if isinstance(node, ast.AnnAssign) and getattr(node.target, "id", "") == "XSD_TYPE_NAMES":
            for d in ast.walk(node.value):
                if isinstance(d, ast.Dict) and d.keys and isinstance(d.keys[0], ast.Name):
                    return {alias.get(k.id, k.id): "xs:" + v.value for k, v in zip(d.keys, d.values)}
    raise Unrecognised("XSD_TYPE_NAMES")


# ------------------------------------------------------------------------------------------ writer

def guard_of(test: ast.expr, var: str) -> Tuple[str, bool, Optional[str], List[str]]:
    """-> (guard, stripped, attribute tested, extra flags)."""
    stripped = False
    flags: List[str] = []
    parts = test.values if isinstance(test, ast.BoolOp) and isinstance(test.op, ast.And) else [test]
    guard, attr = None, None
    for p in parts:
        s = src(p)
        if s == "not cls.stripped":
            stripped = True
        elif re.fullmatch(rf"not isinstance\({var}\.parent, model\.SubmodelElementList\)", s):
            flags.append("notListChild")
        elif re.fullmatch(rf"{var}\.(\w+)", s):
            guard, attr = "truthy", s.split(".")[1]
        elif m := re.fullmatch(rf"{var}\.(\w+) is not None", s):
            guard, attr = "notNone", m.group(1)
        elif m := re.fullmatch(rf"len\({var}\.(\w+)\) > 0", s):
            guard, attr = "truthy", m.group(1)
        elif m := re.fullmatch(rf"{var}\.(\w+) != set\(\)", s):
            guard, attr = "truthy", m.group(1)
        elif m := re.fullmatch(rf"{var}\.(\w+) is model\.\w+\.(\w+)", s):
            guard, attr = "isTok:" + m.group(2), m.group(1)
        elif m := re.fullmatch(rf"isinstance\({var}, model\.(\w+)\)", s):
            flags.append("isinstance:" + m.group(1))
        else:
            raise Unrecognised(f"writer guard `{s}`")
    return guard or "always", stripped, attr, flags


def attr_of(expr: ast.expr, var: str) -> Optional[str]:
    for n in ast.walk(expr):
        if isinstance(n, ast.Attribute) and isinstance(n.value, ast.Name) and n.value.id == var:
            return n.attr
    return None


class WriterRows:
    def __init__(self):
        self.rows: List[dict] = []
        self.unrecognised: List[str] = []

    def add(self, method, member, expr, var, guards):
        """guards: stack of (guard, stripped, attr, flags)"""
        attr = attr_of(expr, var) if expr is not None else None
        guard, stripped, flags = "always", False, []
        mixin = None
        nested_under = None
        for g, s, a, fl in guards:
            stripped = stripped or s
            for f in fl:
                if f.startswith("isinstance:"):
                    mixin = f.split(":")[1]
                else:
                    flags.append(f)
            if g != "always":
                if guard != "always":
                    if a != attr:          # nested guard on another attribute (revision under version)
                        nested_under = self_attr
                        continue
                guard, self_attr = g, a
        if nested_under is not None and guard != "always":
            # the innermost guard is on this row's own attribute; the outer one on another attribute
            pass
        # innermost guard on own attribute wins; remember the outer attribute
        own = [(g, a) for g, s, a, fl in guards if g != "always"]
        if own:
            mine = [(g, a) for g, a in own if a == attr]
            others = [(g, a) for g, a in own if a != attr]
            if mine:
                guard = mine[-1][0]
            elif others:
                guard = others[-1][0]
                if attr is None:
                    attr = others[-1][1]
            nested_under = others[-1][1] if (mine and others) else None
        self.rows.append({"method": method, "member": member, "attr": attr, "guard": guard, "encStrip": stripped,
                          "mixin": mixin, "flags": flags, "nestedUnder": nested_under, "expr": src(expr) if expr is not None else ""})


def walk_writer_body(W: WriterRows, method: str, body: List[ast.stmt], var: str, datavar: str, guards: list):
    for st in body:
        if isinstance(st, ast.Expr) and isinstance(st.value, ast.Constant):
            continue                                                            # docstring
        if isinstance(st, ast.Return):
            continue
        if isinstance(st, ast.If):
            g = guard_of(st.test, var)
            walk_writer_body(W, method, st.body, var, datavar, guards + [g])
            if st.orelse:
                raise Unrecognised(f"{method}: else branch")
            continue
        if isinstance(st, (ast.Assign, ast.AnnAssign)):
            targets = st.targets if isinstance(st, ast.Assign) else [st.target]
            t = targets[0]
            if isinstance(t, ast.Subscript) and isinstance(t.value, ast.Name) and t.value.id == datavar:
                key = t.slice
                if isinstance(key, ast.Constant):
                    W.add(method, key.value, st.value, var, guards)
                    continue
                if isinstance(key, ast.Name):       # data[tag] = ... inside the operation loop: handled by caller
                    W.add(method, "$" + key.id, st.value, var, guards)
                    continue
            if isinstance(t, ast.Name) and t.id == datavar:
                if isinstance(st.value, ast.Dict):               # data_spec = {...}
                    for k, v in zip(st.value.keys, st.value.values):
                        W.add(method, k.value, v, var, guards)
                    continue
                s = src(st.value)
                if s == f"cls._abstract_classes_to_json({var})":
                    W.rows.append({"method": method, "include": "_abstract_classes_to_json"})
                    continue
                if s == "{}":
                    continue
            raise Unrecognised(f"{method}: assignment `{src(st)[:80]}`")
        if isinstance(st, ast.Expr) and isinstance(st.value, ast.Call):
            s = src(st.value)
            f = st.value.func
            if isinstance(f, ast.Attribute) and isinstance(f.value, ast.Name) and f.value.id == datavar and f.attr == "update":
                a = st.value.args[0]
                if isinstance(a, ast.Dict):
                    for k, v in zip(a.keys, a.values):
                        W.add(method, k.value, v, var, guards)
                    continue
                if src(a) == f"cls._namespace_to_json({var})":
                    continue
            raise Unrecognised(f"{method}: call `{s[:80]}`")
        if isinstance(st, ast.Try):
            # the modelType computation in _abstract_classes_to_json
            if "KEY_TYPES_CLASSES" in src(st):
                continue
            raise Unrecognised(f"{method}: try")
        if isinstance(st, ast.For):
            # for tag, nss in (('inputVariables', obj.input_variable), ...): if nss: data[tag] = [...]
            if isinstance(st.iter, ast.Tuple) and isinstance(st.target, ast.Tuple) and len(st.target.elts) == 2:
                tagv, valv = st.target.elts[0].id, st.target.elts[1].id
                inner = st.body
                if len(inner) == 1 and isinstance(inner[0], ast.If) and src(inner[0].test) == valv:
                    for tup in st.iter.elts:
                        member = tup.elts[0].value
                        W.add(method, member, tup.elts[1], var, guards + [("truthy", False, attr_of(tup.elts[1], var), [])])
                    continue
            raise Unrecognised(f"{method}: for loop")
        raise Unrecognised(f"{method}: statement `{src(st)[:80]}`")


def writer_tables(repo: str):
    mod = parse(os.path.join(repo, "sdk/basyx/aas/adapter/json/json_serialization.py"))
    enc = next(n for n in mod.body if isinstance(n, ast.ClassDef) and n.name == "AASToJsonEncoder")
    methods = {n.name: n for n in enc.body if isinstance(n, ast.FunctionDef)}
    # dispatch: ordered (class, method)
    dispatch: List[Tuple[str, str]] = []
    for n in ast.walk(methods["default"]):
        if isinstance(n, ast.Dict) and n.keys and isinstance(n.keys[0], ast.Attribute):
            for k, v in zip(n.keys, n.values):
                dispatch.append((k.attr, v.attr))
            break
    W = WriterRows()
    per_method: Dict[str, List[dict]] = {}
    special: Dict[str, Any] = {}
    for name, fn in methods.items():
        if not name.endswith("_to_json"):
            continue
        args = [a.arg for a in fn.args.args]
        var = args[1] if len(args) > 1 else "obj"
        ret = [s for s in fn.body if isinstance(s, ast.Return)]
        # literal-shape helpers
        if len([s for s in fn.body if not (isinstance(s, ast.Expr) and isinstance(s.value, ast.Constant))]) == 1 and ret:
            r = ret[0].value
            if isinstance(r, ast.ListComp) and isinstance(r.elt, ast.Dict):
                special[name] = {"shape": "listOfDict", "members": [k.value for k in r.elt.keys], "src": src(r)}
                continue
            if isinstance(r, ast.Dict):
                special[name] = {"shape": "dict", "members": [k.value for k in r.keys],
                                 "values": [src(v) for v in r.values], "src": src(r)}
                continue
        W.rows = []
        datavar = "data_spec" if name == "_data_specification_iec61360_to_json" else "data"
        try:
            walk_writer_body(W, name, fn.body, var, datavar, [])
        except Unrecognised as e:
            W.unrecognised.append(str(e))
        per_method[name] = W.rows
    return dispatch, per_method, special, W.unrecognised


# ------------------------------------------------------------------------------------------ reader

def reader_rows(repo: str):
    mod = parse(os.path.join(repo, "sdk/basyx/aas/adapter/json/json_deserialization.py"))
    dec = next(n for n in mod.body if isinstance(n, ast.ClassDef) and n.name == "AASFromJsonDecoder")
    methods = {n.name: n for n in dec.body if isinstance(n, ast.FunctionDef)}
    parsers: Dict[str, str] = {}
    for n in ast.walk(methods["object_hook"]):
        if isinstance(n, ast.Dict) and n.keys and isinstance(n.keys[0], ast.Constant) and isinstance(n.values[0], ast.Attribute):
            for k, v in zip(n.keys, n.values):
                parsers[k.value] = v.attr
    catch = []
    for n in ast.walk(methods["object_hook"]):
        if isinstance(n, ast.ExceptHandler) and n.type is not None:
            catch = [src(e) for e in (n.type.elts if isinstance(n.type, ast.Tuple) else [n.type])]
    rows: Dict[str, List[dict]] = {}
    unrec: List[str] = []

    def visit(method: str, node: ast.AST, conds: List[str], loopvars: Dict[str, List[str]], out: List[dict], mixin=None):
        """collect _get_ts(<dictvar>, <member>, T) with the membership / stripped conditions in force"""
        if isinstance(node, ast.If):
            t = src(node.test)
            mx = mixin
            for m in re.finditer(r"isinstance\(obj, model\.(\w+)\)", t):
                mx = m.group(1)
            for ch in node.body:
                visit(method, ch, conds + [t], loopvars, out, mx)
            for ch in node.orelse:
                visit(method, ch, conds + ["not(" + t + ")"], loopvars, out, mx)
            return
        if isinstance(node, ast.IfExp):
            t = src(node.test)
            visit(method, node.body, conds + [t], loopvars, out, mixin)
            visit(method, node.orelse, conds + ["not(" + t + ")"], loopvars, out, mixin)
            visit(method, node.test, conds, loopvars, out, mixin)
            return
        if isinstance(node, ast.For) and isinstance(node.iter, ast.Tuple) and isinstance(node.target, ast.Tuple):
            lv = dict(loopvars)
            lv[node.target.elts[0].id] = [t.elts[0].value for t in node.iter.elts]
            for ch in node.body:
                visit(method, ch, conds, lv, out, mixin)
            return
        if isinstance(node, ast.Call) and src(node.func) == "_get_ts" and len(node.args) == 3:
            dv, key, typ = node.args
            members = [key.value] if isinstance(key, ast.Constant) else loopvars.get(getattr(key, "id", ""), None)
            if members is None:
                unrec.append(f"{method}: _get_ts key `{src(key)}`")
                members = []
            for mname in members:
                alts = [f"'{mname}' in {src(dv)}"] + ([f"{key.id} in {src(dv)}"] if isinstance(key, ast.Name) else [])
                optional = any(a in c for c in conds for a in alts)
                stripped = any("not cls.stripped" in c for c in conds)
                out.append({"method": method, "dictvar": src(dv), "member": mname, "type": src(typ), "required": not optional,
                            "decStrip": stripped, "mixin": mixin})
        for ch in ast.iter_child_nodes(node):
            visit(method, ch, conds, loopvars, out, mixin)

    defaults: Dict[Tuple[str, str], str] = {}
    for name, fn in methods.items():
        if not (name.startswith("_construct_") or name in ("_amend_abstract_attributes", "_get_kind")):
            continue
        out: List[dict] = []
        for st in fn.body:
            visit(name, st, [], {}, out)
        rows[name] = out
        # defaults of conditional expressions:  X if 'm' in dct else <default>
        for n in ast.walk(fn):
            if isinstance(n, ast.IfExp):
                m = re.fullmatch(r"'(\w+)' in dct", src(n.test))
                if m:
                    defaults[(name, m.group(1))] = src(n.orelse)
    return parsers, rows, defaults, catch, unrec


# ------------------------------------------------------------------------------------------ merge

HELPER_WRITER = {  # writer helper methods that are not in the dispatch dict
    "_value_list_to_json": "ValueList", "_operation_variable_to_json": "OperationVariable",
}
READER_CLASS = {  # reader helper methods (no modelType) -> class
    "_construct_key": "Key", "_construct_specific_asset_id": "SpecificAssetId",
    "_construct_external_reference": "ExternalReference", "_construct_model_reference": "ModelReference",
    "_construct_administrative_information": "AdministrativeInformation",
    "_construct_operation_variable": "OperationVariable", "_construct_lang_string_set": "LangString",
    "_construct_value_list": "ValueList", "_construct_value_reference_pair": "ValueReferencePair",
    "_construct_qualifier": "Qualifier", "_construct_resource": "Resource", "_construct_asset_information": "AssetInformation",
    "_construct_extension": "Extension",
}

# spec: metamodel attribute kind -> (Kind, optional, noFalsy)
SME_POLY = meta.SUBMODEL_ELEMENT_CLASSES
REF_POLY = ["ExternalReference", "ModelReference"]


def can_be_empty(spec_kind: str) -> bool:
    """SPEC: may the attribute's lexical token be the empty string?"""
    k = spec_kind[1:] if spec_kind[0] == "o" else spec_kind
    if k.startswith("typed="):          # fixed type (xs:dateTime, xs:duration): the literal is never empty
        return False
    head = k.split(":")[0]
    return head in ("str0", "typed", "bytes")


def kind_of(spec_kind: str, enums: Dict[str, Dict[str, str]]):
    """-> (lean kind, optional, noFalsy, enumVals, default-when-absent)"""
    opt = spec_kind[0] == "o"
    k = spec_kind[1:] if opt else spec_kind
    head, _, arg = k.partition(":")
    head = head.split("=")[0]
    ev: List[str] = []
    if head in ("str",):
        return ("leaf", opt, True, ev, "none")
    if head == "str0":
        return ("leaf", opt, False, ev, "none")
    if head in ("bool", "typed", "bytes"):
        return ("leaf", opt, False, ev, "none")
    if head == "enumset":          # rendered as a dict of booleans; wire normal form = list of the true names
        return (["list", "leaf"], opt, False, ev, "emptyList")
    if head == "xtype":          # the announced names of the XSD value types (regenerated XSD_TYPE_NAMES)
        return ("leaf", opt, True, sorted(XSD_NAMES.values()), "none")
    if head == "cls":
        return ("leaf", opt, True, ev, "none")
    if head == "enum":
        table = {"KeyTypes": "KEY_TYPES", "ModellingKind": "MODELLING_KIND", "QualifierKind": "QUALIFIER_KIND",
                 "AssetKind": "ASSET_KIND", "EntityType": "ENTITY_TYPES", "Direction": "DIRECTION",
                 "StateOfEvent": "STATE_OF_EVENT", "DataTypeIEC61360": "IEC61360_DATA_TYPES"}[arg]
        return ("leaf", opt, True, sorted(enums[table].values()), "none")
    if head == "lss":
        return (["list", ["node", "LangString"]], opt, True, ev, "none")
    if head == "node":
        if arg == "Reference":
            return (["poly", REF_POLY], opt, True, ev, "none")
        return (["node", arg], opt, True, ev, "none")
    if head in ("list", "list1", "set", "set1"):
        inner = kind_of(arg, enums)[0]
        return (["list", inner], opt, head in ("list1", "set1"), ev, "none" if opt else "emptyList")
    if head in ("elems", "elems_ordered"):
        return (["list", ["poly", SME_POLY]], opt, False, ev, "emptyList")
    raise Unrecognised(f"spec kind {spec_kind}")


XSD_NAMES: Dict[str, str] = {}


def build(repo: str) -> Dict[str, Any]:
    XSD_NAMES.clear()
    XSD_NAMES.update(xsd_names(repo))
    enums = enum_tables(repo)
    graph = class_graph(repo)
    dispatch, per_method, special, unrec_w = writer_tables(repo)
    parsers, rrows, rdefaults, catch, unrec_r = reader_rows(repo)
    unrec = unrec_w + unrec_r
    abstract = per_method.get("_abstract_classes_to_json", [])
    tagged_mixin = "Referable"                     # modelType is written inside the Referable block
    classes: Dict[str, dict] = {}

    def spec_kind(cls: str, attr: str) -> Optional[str]:
        return dict(meta.META.get(cls, [])).get(attr)

    def applies(cls: str, mixin: Optional[str]) -> bool:
        return mixin is None or mixin in ancestors(graph, cls)

    cls_of_method = {m: c for c, m in dispatch}
    cls_of_method.update(HELPER_WRITER)
    writer_by_class: Dict[str, List[dict]] = {}
    for method, rows in per_method.items():
        if method == "_abstract_classes_to_json":
            continue
        targets = [c for c, m in dispatch if m == method] or ([HELPER_WRITER[method]] if method in HELPER_WRITER else [])
        for cls in targets:
            if cls == "Reference":
                sub = REF_POLY
            elif cls == "LangStringSet":
                continue
            else:
                sub = [cls]
            for c in sub:
                out = []
                for r in rows:
                    if "include" in r:
                        out += [dict(a) for a in abstract if applies(c, a.get("mixin"))]
                    else:
                        out.append(dict(r))
                writer_by_class[c] = out
    # literal-shape helpers
    if "_lang_string_set_to_json" in special:
        writer_by_class["LangString"] = [{"member": m, "attr": a, "guard": "always", "encStrip": False, "flags": [], "expr": ""}
                                         for m, a in zip(special["_lang_string_set_to_json"]["members"], ["language", "text"])]
    if "_value_list_to_json" in special:
        writer_by_class["ValueList"] = [{"member": special["_value_list_to_json"]["members"][0], "attr": "__items__", "guard": "always",
                                         "encStrip": False, "flags": [], "expr": ""}]
    if "_operation_variable_to_json" in special:
        writer_by_class["OperationVariable"] = [{"member": special["_operation_variable_to_json"]["members"][0], "attr": "__self__",
                                                 "guard": "always", "encStrip": False, "flags": [], "expr": ""}]
    # embedded data specification: dict literal inside the abstract block
    for a in abstract:
        if a.get("member") == "embeddedDataSpecifications":
            ms = re.findall(r"'(\w+)': spec\.(\w+)", a["expr"])
            writer_by_class["EmbeddedDataSpecification"] = [
                {"member": m, "attr": at, "guard": "always", "encStrip": False, "flags": [], "expr": ""} for m, at in ms]

    # reader rows per class
    reader_by_class: Dict[str, List[dict]] = {}
    amend = rrows.get("_amend_abstract_attributes", [])
    rcls = {v: k for k, v in parsers.items()}
    rcls = {m: ("DataSpecificationIEC61360" if c == "DataSpecificationIec61360" else c) for m, c in rcls.items()}
    rcls.update(READER_CLASS)
    for method, rows in rrows.items():
        if method in ("_amend_abstract_attributes", "_get_kind", "_construct_reference"):
            continue
        cls = rcls.get(method)
        if cls is None:
            unrec.append(f"reader method {method} has no class")
            continue
        own = [r for r in rows if r["dictvar"] in ("dct",)]
        uses_amend = "_amend_abstract_attributes" in ast.unparse(
            next(n for n in ast.walk(parse(os.path.join(repo, "sdk/basyx/aas/adapter/json/json_deserialization.py")))
                 if isinstance(n, ast.FunctionDef) and n.name == method))
        if uses_amend:
            own = own + [dict(a) for a in amend if a["dictvar"] == "dct" and applies(cls, a.get("mixin"))]
        if "_get_kind" in ast.unparse(next(n for n in ast.walk(parse(os.path.join(
                repo, "sdk/basyx/aas/adapter/json/json_deserialization.py"))) if isinstance(n, ast.FunctionDef) and n.name == method)):
            own = own + [dict(r) for r in rrows.get("_get_kind", [])]
        reader_by_class[cls] = own
        # nested literal dict readers
        for r in rows:
            if r["dictvar"] == "desc":
                reader_by_class.setdefault("LangString", []).append(dict(r, dictvar="dct"))
    for a in amend:
        if a["dictvar"] == "dspec":
            # the enclosing `not cls.stripped` belongs to the parent's embeddedDataSpecifications row
            reader_by_class.setdefault("EmbeddedDataSpecification", []).append(dict(a, dictvar="dct", mixin=None, decStrip=False))

    table = []
    problems: List[str] = []
    all_classes = list(meta.META.keys()) + ["LangString", "ValueList", "OperationVariable"]
    helper_spec = {
        "LangString": [("language", "str"), ("text", "str")],
        "ValueList": [("__items__", "set1:node:ValueReferencePair")],
        "OperationVariable": [("__self__", "node:SubmodelElement")],
    }
    for cls in all_classes:
        wrows = writer_by_class.get(cls)
        if wrows is None:
            problems.append(f"no writer for class {cls}")
            continue
        rr = {r["member"]: r for r in reader_by_class.get(cls, [])}
        spec = dict(meta.META.get(cls) or helper_spec[cls])
        tag = None
        rows_out = []
        seen_attrs = set()
        for w in wrows:
            member = w["member"]
            if member == "modelType":
                tag = "DataSpecificationIec61360" if cls == "DataSpecificationIEC61360" else cls
                continue
            if cls in REF_POLY and member == "type":
                tag = cls
                continue
            attr = w["attr"]
            if member == "keys":
                attr = "key"
            sk = spec.get(attr)
            if sk is None:
                problems.append(f"{cls}.{member}: writer row for unknown attribute {attr}")
                continue
            seen_attrs.add(attr)
            if cls == "OperationVariable":
                kind, opt, nofalsy, ev, dflt = (["poly", SME_POLY], False, True, [], "none")
            else:
                kind, opt, nofalsy, ev, dflt = kind_of(sk, enums)
            if cls == "DataSpecificationIEC61360" and attr == "value_list":
                kind = ["node", "ValueList"]
            if "_operation_variable_to_json" in w.get("expr", "") or (cls == "Operation" and attr.endswith("_variable")):
                kind = ["list", ["node", "OperationVariable"]]
            r = rr.get(member)
            dec_default = None
            if r is not None:
                for (meth, mem), d in rdefaults.items():
                    if mem == member and (rcls.get(meth) == cls or (meth == "_get_kind" and r.get("method") == "_get_kind")):
                        dec_default = d
            if dec_default and re.fullmatch(r"model\.\w+\.(\w+)", dec_default):
                nm = re.fullmatch(r"model\.\w+\.(\w+)", dec_default).group(1)
                etab = next((t for t in enums.values() if nm in t), None)
                dflt = "tok:" + (etab[nm] if etab else nm)
            if (cls, attr) in meta.SPEC_DEFAULTS and dflt == "none":
                dflt = "tok:" + meta.SPEC_DEFAULTS[(cls, attr)]
            guard = w["guard"]
            if guard.startswith("isTok:"):
                nm = guard.split(":")[1]
                etab = next((t for t in enums.values() if nm in t), None)
                guard = "isTok:" + (etab[nm] if etab else nm)
            rows_out.append({
                "member": member, "attr": attr, "guard": guard, "encStrip": bool(w["encStrip"]),
                "decReads": r is not None, "decRequired": bool(r and r["required"]), "decStrip": bool(r and r["decStrip"]),
                "kind": kind, "optional": opt, "noFalsy": nofalsy, "enumVals": ev, "dflt": dflt,
                "canBeEmpty": can_be_empty(sk) if cls != "OperationVariable" else False, "emptyText": "exact",
                "flags": w.get("flags", []), "nestedUnder": w.get("nestedUnder"),
            })
        for attr in spec:
            if attr not in seen_attrs:
                problems.append(f"{cls}.{attr}: metamodel attribute never written")
        extra = sorted(set(rr) - {w["member"] for w in wrows} - {"modelType", "type"})
        table.append({"cls": cls, "tag": tag, "rows": rows_out, "readerOnlyMembers": extra})
    # recover points of the failsafe reader (C09)
    rmod = parse(os.path.join(repo, "sdk/basyx/aas/adapter/json/json_deserialization.py"))
    handler_catch: Dict[str, List[str]] = {}
    for fn in ast.walk(rmod):
        if isinstance(fn, ast.FunctionDef) and fn.name in ("_construct_lang_string_set", "_construct_value_list", "_construct_operation"):
            for n in ast.walk(fn):
                if isinstance(n, ast.ExceptHandler) and n.type is not None:
                    handler_catch[fn.name] = [src(e) for e in (n.type.elts if isinstance(n.type, ast.Tuple) else [n.type])]
    rec = []
    for ct in table:
        rr = []
        for r in ct["rows"]:
            k = r["kind"]
            item, caught = False, []
            if isinstance(k, list) and k[0] == "list" and isinstance(k[1], list):
                if k[1][0] == "poly" and set(k[1][1]) == set(SME_POLY):
                    item = True                                            # object_hook boundary + _expect_type skip
                elif k[1] == ["node", "LangString"] and "_construct_lang_string_set" in handler_catch:
                    item, caught = True, handler_catch["_construct_lang_string_set"]
                elif k[1] == ["node", "ValueReferencePair"] and ct["cls"] == "ValueList" and "_construct_value_list" in handler_catch:
                    item, caught = True, handler_catch["_construct_value_list"]
                elif k[1] == ["node", "OperationVariable"] and "_construct_operation" in handler_catch:
                    item, caught = True, handler_catch["_construct_operation"]
            rr.append({"member": r["member"], "recover": False, "itemRecover": item, "itemCaught": caught})
        rec.append({"cls": ct["cls"], "rows": rr})
    return {"table": table, "enums": enums, "xsdNames": xsd_names(repo), "unrecognised": unrec, "problems": problems,
            "catch": catch, "dispatch": dispatch, "parsers": parsers, "recPoints": rec}


# ------------------------------------------------------------------------------------------ Lean emission

def lstr(s: str) -> str:
    return json.dumps(s, ensure_ascii=False)


def lean_kind(k) -> str:
    if k == "leaf":
        return ".leaf"
    if k[0] == "node":
        return f"(.node {lstr(k[1])})"
    if k[0] == "poly":
        return "(.poly [" + ", ".join(lstr(c) for c in k[1]) + "])"
    if k[0] == "list":
        return f"(.list {lean_kind(k[1])})"
    raise ValueError(k)


def lean_guard(g: str) -> str:
    if g.startswith("isTok:"):
        return f"(.isTok {lstr(g[6:])})"
    return "." + g


def lean_dflt(d: str) -> str:
    if d == "none":
        return ".none"
    if d == "emptyList":
        return "(.list [])"
    if d.startswith("tok:"):
        return f"(.tok {lstr(d[4:])} false)"
    raise ValueError(d)


def b(x: bool) -> str:
    return "true" if x else "false"


def emit_lean(data: Dict[str, Any], name: str = "jsonTable", namespace: str = "Basyx.Gen.Json") -> str:
    out = ["/- GENERATED by py/translate/json_tables.py from /repo's working tree on every run — do not edit. -/",
           "import Basyx.Model.Codec", f"namespace {namespace}", "open Basyx.Codec", ""]
    for ct in data["table"]:
        out.append(f"def rows_{ct['cls']} : List Row := [")
        lines = []
        for r in ct["rows"]:
            lines.append(
                f"  {{ member := {lstr(r['member'])}, attr := {lstr(r['attr'])}, guard := {lean_guard(r['guard'])}, "
                f"encStrip := {b(r['encStrip'])}, decReads := {b(r['decReads'])}, decRequired := {b(r['decRequired'])}, "
                f"decStrip := {b(r['decStrip'])}, kind := {lean_kind(r['kind'])}, optional := {b(r['optional'])}, "
                f"noFalsy := {b(r['noFalsy'])}, enumVals := [{', '.join(lstr(e) for e in r['enumVals'])}], dflt := {lean_dflt(r['dflt'])}, "
                f"emptyText := .{r.get('emptyText', 'exact')}, canBeEmpty := {b(r.get('canBeEmpty', False))} }}")
        out.append(",\n".join(lines) + "]")
        out.append("")
    out.append(f"def {name} : Table := [")
    out.append(",\n".join(
        f"  {{ cls := {lstr(ct['cls'])}, tag := {('some ' + lstr(ct['tag'])) if ct['tag'] else 'none'}, rows := rows_{ct['cls']} }}"
        for ct in data["table"]) + "]")
    out.append("")
    out.append("/-- forward enum tables of adapter/_generic.py: (member name, wire string) -/")
    out.append("def enumTables : List (String × List (String × String)) := [")
    out.append(",\n".join(
        f"  ({lstr(n)}, [" + ", ".join(f"({lstr(k)}, {lstr(v)})" for k, v in t.items()) + "])" for n, t in sorted(data["enums"].items())) + "]")
    out.append("")
    out.append("/-- XSD_TYPE_NAMES of model/datatypes.py: (class name, announced name) -/")
    out.append("def xsdNames : List (String × String) := [" + ", ".join(f"({lstr(k)}, {lstr(v)})" for k, v in data["xsdNames"].items()) + "]")
    out.append("")
    out.append("/-- exception kinds caught at the object boundary in failsafe mode -/")
    out.append("def objectHookCatch : List String := [" + ", ".join(lstr(c) for c in data["catch"]) + "]")
    out.append("")
    out.append("/-- classes that are object_hook boundaries (written with a modelType) -/")
    out.append("def hookClasses : List String := [" + ", ".join(lstr(ct["cls"]) for ct in data["table"]
                                                                  if ct["tag"] and ct["cls"] not in REF_POLY and namespace.endswith("Json")) + "]")
    out.append("")
    out.append("/-- recover points of the failsafe reader: (class, [(member, recover, itemRecover, item catch tuple)]) -/")
    out.append("def recPoints : List (String × List (String × Bool × Bool × List String)) := [")
    out.append(",\n".join(
        f"  ({lstr(rc['cls'])}, [" + ", ".join(
            f"({lstr(r['member'])}, {b(r['recover'])}, {b(r['itemRecover'])}, [{', '.join(lstr(c) for c in r['itemCaught'])}])"
            for r in rc["rows"] if r["recover"] or r["itemRecover"]) + "])" for rc in data.get("recPoints", [])) + "]")
    out.append("")
    out.append("/-- SPEC side (py/vf/meta.py DETACHABLE): per class the members that hold detachable parts -/")
    spec = []
    for ct in data["table"]:
        det = set(meta.DETACHABLE.get(ct["cls"], []))
        ms = [r["member"] for r in ct["rows"] if r["attr"] in det]
        spec.append(f"  ({lstr(ct['cls'])}, [" + ", ".join(lstr(m) for m in ms) + "])")
    out.append("def specDetachable : List (String × List String) := [\n" + ",\n".join(spec) + "]")
    out.append("")
    out.append("/-- source constructs the translator did not recognise (must be empty) -/")
    out.append("def unrecognised : List String := [" + ", ".join(lstr(c) for c in data["unrecognised"]) + "]")
    out.append(f"end {namespace}")
    return "\n".join(out) + "\n"
