"""Translator (T-gen) for the XML adapter: member tables of xml_serialization.py (writer) and xml_deserialization.py
(reader), extracted by `ast` from /repo's working tree and merged with the SPEC domains (vf.meta) into
lean/Basyx/Gen/XmlTable.lean (+ JSON copy).  Unknown statement shapes are reported as unrecognised (broken tie)."""
from __future__ import annotations

import ast
import os
import re
from typing import Any, Dict, List, Optional, Tuple

from vf import meta
from . import json_tables as J
from .json_tables import Unrecognised, src, parse, guard_of, attr_of

NS = re.compile(r"NS_AAS\s*\+\s*['\"](\w+)['\"]")


def ns_name(node: ast.AST) -> Optional[str]:
    m = NS.fullmatch(src(node).strip())
    return m.group(1) if m else None


def lower_first(s: str) -> str:
    return s[0].lower() + s[1:]


# ------------------------------------------------------------------------------------------ writer

class W:
    def __init__(self, repo: str):
        self.mod = parse(os.path.join(repo, "sdk/basyx/aas/adapter/xml/xml_serialization.py"))
        self.funcs = {n.name: n for n in self.mod.body if isinstance(n, ast.FunctionDef)}
        self.default_tag: Dict[str, str] = {}
        for name, fn in self.funcs.items():
            args = fn.args.args
            defaults = fn.args.defaults
            for a, d in zip(args[len(args) - len(defaults):], defaults):
                if a.arg == "tag" and ns_name(d):
                    self.default_tag[name] = ns_name(d)
        self.unrec: List[str] = []

    def call_member(self, call: ast.Call) -> Tuple[Optional[str], str, Optional[ast.expr]]:
        """(member tag, callee name, value expression) of an element-producing call"""
        fname = src(call.func)
        tag = None
        for kw in call.keywords:
            if kw.arg in ("tag", "name") and ns_name(kw.value):
                tag = ns_name(kw.value)
        for a in call.args:
            if ns_name(a):
                tag = tag or ns_name(a)
        if tag is None:
            tag = self.default_tag.get(fname)
        val = None
        for kw in call.keywords:
            if kw.arg == "text":
                val = kw.value
        if val is None:
            rest = [a for a in call.args if not ns_name(a)]
            if rest:
                val = rest[0]
        return tag, fname, val

    def rows_of(self, fname: str) -> List[dict]:
        fn = self.funcs[fname]
        var = "obj" if any(a.arg == "obj" for a in fn.args.args) else fn.args.args[0].arg
        rows: List[dict] = []
        state = {"main": None, "wrappers": {}}

        def add(member, callee, attr, guards, item=None, notes=None, leaf=False):
            guard, strip, gattr, flags, mixin = "always", False, None, [], None
            own = []
            for g, s, a, fl in guards:
                for f in fl:
                    if f.startswith("isinstance:"):
                        mixin = f.split(":")[1]
                    else:
                        flags.append(f)
                if g != "always":
                    own.append((g, a))
            if own:
                mine = [x for x in own if x[1] == attr] or own
                guard = mine[-1][0]
                if attr is None:
                    attr = mine[-1][1]
            rows.append({"member": member, "callee": callee, "attr": attr, "guard": guard, "mixin": mixin, "flags": flags,
                         "item": item, "notes": notes or [], "leaf": leaf})

        def walk(body, guards, loopvars):
            for st in body:
                if isinstance(st, ast.Expr) and isinstance(st.value, ast.Constant):
                    continue
                if isinstance(st, ast.Return) and isinstance(st.value, ast.Call) and src(st.value.func) == "abstract_classes_to_xml":
                    rows.append({"include": "abstract"})
                    continue
                if isinstance(st, (ast.Return, ast.Raise)):
                    continue
                if isinstance(st, ast.If):
                    t = src(st.test)
                    # if/else both emitting the same member (HasKind.kind) -> always
                    if st.orelse and "ModellingKind.TEMPLATE" in t:
                        add("kind", "_generate_element", "kind", guards, leaf=True)
                        continue
                    if re.fullmatch(r"isinstance\(\w+, model\.(Extension|DataSpecificationIEC61360)\)", t) and \
                            not re.fullmatch(rf"isinstance\({var}, model\.Extension\)", t):
                        walk(st.body, guards, loopvars)
                        continue
                    if t in loopvars:                      # `if nss:` inside the operation loop
                        walk(st.body, guards + [("truthy", False, None, [])], loopvars)
                        continue
                    try:
                        g = guard_of(st.test, var)
                    except Unrecognised as e:
                        self.unrec.append(f"{fname}: {e}")
                        continue
                    walk(st.body, guards + [g], loopvars)
                    if st.orelse and not all(isinstance(x, ast.Raise) for x in st.orelse):
                        self.unrec.append(f"{fname}: else branch of `{t}`")
                    continue
                if isinstance(st, ast.Assign) and len(st.targets) == 1 and isinstance(st.targets[0], ast.Name):
                    name = st.targets[0].id
                    v = st.value
                    if isinstance(v, ast.Call):
                        f = src(v.func)
                        if f == "abstract_classes_to_xml":
                            state["main"] = name
                            rows.append({"include": "abstract"})
                            continue
                        if f in ("_generate_element", "etree.Element"):
                            tagnode = v.args[0] if v.args else next((k.value for k in v.keywords if k.arg == "name"), None)
                            t = ns_name(tagnode) if tagnode is not None else None
                            if src(tagnode) == "tag" and state["main"] is None:
                                state["main"] = name
                                continue
                            if t is None and isinstance(tagnode, ast.Name) and tagnode.id in loopvars:
                                state["wrappers"][name] = {"tag": "$" + tagnode.id, "guards": guards}
                                continue
                            if t is not None:
                                state["wrappers"][name] = {"tag": t, "guards": guards, "items": [], "attr": None, "text": None}
                                continue
                        if f.endswith("_to_xml") and state["main"] is None:
                            # annotated_relationship_element_to_xml: main = relationship_element_to_xml(obj, tag)
                            state["main"] = name
                            rows.append({"include": f})
                            continue
                    if isinstance(v, ast.Dict) or "LANG_STRING_SET_TAGS" in src(st):
                        continue
                    self.unrec.append(f"{fname}: assignment `{src(st)[:70]}`")
                    continue
                if isinstance(st, ast.AnnAssign):
                    continue
                if isinstance(st, ast.Assign) and isinstance(st.targets[0], ast.Attribute) and st.targets[0].attr == "text":
                    wname = st.targets[0].value.id
                    if wname in state["wrappers"]:
                        state["wrappers"][wname]["text"] = (st.value, guards)
                        continue
                if isinstance(st, ast.For):
                    it = st.iter
                    if isinstance(it, ast.Tuple) and isinstance(st.target, ast.Tuple):      # operation variables
                        tagv, valv = st.target.elts[0].id, st.target.elts[1].id
                        for tup in it.elts:
                            member = ns_name(tup.elts[0])
                            attr = attr_of(tup.elts[1], var)
                            add(member, "operation_variable_to_xml", attr, guards + [("truthy", False, attr, [])], item="operationVariable")
                        continue
                    if "IEC61360_LEVEL_TYPES" in src(it):
                        # the wrapper created just before is the levelType element
                        continue
                    attr = attr_of(it, var)
                    if src(it) == var or src(it) == f"{var}.items()":
                        attr = "__items__"
                    # items appended to a wrapper
                    for inner in ast.walk(st):
                        if isinstance(inner, ast.Call) and isinstance(inner.func, ast.Attribute) and inner.func.attr == "append":
                            wname = src(inner.func.value)
                            arg = inner.args[0]
                            if wname in state["wrappers"] and isinstance(arg, ast.Call):
                                tag, callee, _ = self.call_member(arg)
                                state["wrappers"][wname]["items"].append((callee, tag))
                                state["wrappers"][wname]["attr"] = attr
                            elif wname in state["wrappers"] and isinstance(arg, ast.Name):
                                # lang strings: et_ls built in the loop body
                                state["wrappers"][wname]["items"].append(("langstring", None))
                                state["wrappers"][wname]["attr"] = attr
                    continue
                if isinstance(st, ast.Expr) and isinstance(st.value, ast.Call) and isinstance(st.value.func, ast.Attribute) \
                        and st.value.func.attr == "append":
                    target = src(st.value.func.value)
                    arg = st.value.args[0]
                    if target == state["main"]:
                        if isinstance(arg, ast.Call):
                            tag, callee, val = self.call_member(arg)
                            if tag is None:
                                self.unrec.append(f"{fname}: append without tag `{src(arg)[:60]}`")
                                continue
                            attr = attr_of(arg, var)
                            add(tag, callee, attr, guards, leaf=callee in ("_generate_element", "_value_to_xml"))
                            continue
                        if isinstance(arg, ast.Name) and arg.id in state["wrappers"]:
                            w = state["wrappers"][arg.id]
                            if w.get("text") is not None:               # blob: etree.Element + conditional .text
                                val, tg = w["text"]
                                add(w["tag"], "_generate_element", attr_of(val, var), w["guards"], leaf=True,
                                    notes=["textGuard:" + (tg[-1][0] if tg else "always")])
                                continue
                            if w["tag"] == "levelType" or (not w.get("items") and "levelType" in w["tag"]):
                                add(w["tag"], "levelType", "level_types", w["guards"] or guards, item=None)
                                continue
                            add(w["tag"], "wrapper", w.get("attr"), w["guards"] or guards, item=w.get("items"))
                            continue
                    elif target in state["wrappers"]:
                        # nested wrappers (value list, operation variable): record as item
                        if isinstance(arg, ast.Call):
                            tag, callee, _ = self.call_member(arg)
                            state["wrappers"][target].setdefault("items", []).append((callee, tag))
                            if state["wrappers"][target].get("attr") is None:
                                state["wrappers"][target]["attr"] = attr_of(arg, var) or ("__self__" if src(arg.args[0]) == var else None)
                        elif isinstance(arg, ast.Name) and arg.id in state["wrappers"]:
                            inner = state["wrappers"][arg.id]
                            state["wrappers"][target].setdefault("items", []).append(("wrapper:" + inner["tag"], inner["tag"]))
                            state["wrappers"][target]["attr"] = inner.get("attr")
                            state["wrappers"][target]["inner"] = inner
                        continue
                    self.unrec.append(f"{fname}: append to unknown `{target}`")
                    continue
                self.unrec.append(f"{fname}: statement `{src(st)[:70]}`")

        walk(fn.body, [], set(["nss"]))
        return rows


# ------------------------------------------------------------------------------------------ reader

READ_FUNCS = {
    "_child_text_mandatory": ("req", "asError"), "_child_text_mandatory_mapped": ("req", "asError"),
    "_child_construct_mandatory": ("req", None), "_get_child_mandatory": ("req", None),
}
FIND_WRAPPERS = {
    "_get_text_or_none": "asNone", "_get_text_or_empty_string_or_none": "exact", "_get_text_mapped_or_none": "asNone",
    "_failsafe_construct": None,
}
INLINE = {"_construct_key_tuple", "_construct_relationship_element_internal", "_expect_reference_type", "_get_kind"}


class R:
    def __init__(self, repo: str):
        self.mod = parse(os.path.join(repo, "sdk/basyx/aas/adapter/xml/xml_deserialization.py"))
        dec = next(n for n in self.mod.body if isinstance(n, ast.ClassDef) and n.name == "AASFromXmlDecoder")
        self.methods = {n.name: n for n in dec.body if isinstance(n, ast.FunctionDef)}
        self.funcs = {n.name: n for n in self.mod.body if isinstance(n, ast.FunctionDef)}
        self.unrec: List[str] = []
        self.catch: List[str] = []
        fc = self.funcs.get("_failsafe_construct")
        if fc:
            for n in ast.walk(fc):
                if isinstance(n, ast.ExceptHandler) and n.type is not None:
                    self.catch = [src(e) for e in (n.type.elts if isinstance(n.type, ast.Tuple) else [n.type])]

    def body_of(self, name):
        return self.methods.get(name) or self.funcs.get(name)

    def reads(self, name: str, elem: str = "element", depth=0) -> List[dict]:
        fn = self.body_of(name)
        out: List[dict] = []
        if fn is None or depth > 3:
            return out
        parent: Dict[int, ast.AST] = {}
        for n in ast.walk(fn):
            for ch in ast.iter_child_nodes(n):
                parent[id(ch)] = n

        def conds(n) -> Tuple[bool, Optional[str]]:
            stripped, mixin = False, None
            p = parent.get(id(n))
            while p is not None:
                if isinstance(p, ast.If):
                    t = src(p.test)
                    if "not cls.stripped" in t:
                        stripped = True
                    m = re.search(r"isinstance\(obj, model\.(\w+)\)", t)
                    if m and mixin is None:
                        mixin = m.group(1)
                p = parent.get(id(p))
            return stripped, mixin

        loop_tags: Dict[str, List[str]] = {}
        for n in ast.walk(fn):
            if isinstance(n, ast.For) and isinstance(n.iter, ast.Tuple) and isinstance(n.target, ast.Tuple):
                loop_tags[n.target.elts[0].id] = [ns_name(t.elts[0]) for t in n.iter.elts]
        for n in ast.walk(fn):
            if not isinstance(n, ast.Call):
                continue
            f = src(n.func)
            fshort = f.split(".")[-1]
            if fshort in READ_FUNCS and n.args and src(n.args[0]) == elem and len(n.args) > 1:
                m = ns_name(n.args[1]) or (re.fullmatch(r"namespace \+ ['\"](\w+)['\"]", src(n.args[1])) or [None, None])[1]
                if m:
                    st, mx = conds(n)
                    out.append({"member": m, "required": True, "emptyText": READ_FUNCS[fshort][1] or "exact", "decStrip": st, "mixin": mx,
                                "ctor": src(n.args[2]) if len(n.args) > 2 and fshort == "_child_construct_mandatory" else None})
                continue
            if f == f"{elem}.find" and n.args:
                m = ns_name(n.args[0])
                members = [m] if m else loop_tags.get(src(n.args[0]), [])
                p = parent.get(id(n))
                mode, ctor = "exact", None
                if isinstance(p, ast.Call):
                    pf = src(p.func).split(".")[-1]
                    if pf in FIND_WRAPPERS:
                        mode = FIND_WRAPPERS[pf] or "exact"
                        if pf == "_failsafe_construct" and len(p.args) > 1:
                            ctor = src(p.args[1])
                    else:
                        self.unrec.append(f"{name}: find() inside `{pf}`")
                st, mx = conds(n)
                for mm in members:
                    out.append({"member": mm, "required": False, "emptyText": mode, "decStrip": st, "mixin": mx, "ctor": ctor})
                continue
            if n.args and src(n.args[0]) == elem and fshort != name and fshort not in READ_FUNCS and fshort not in FIND_WRAPPERS \
                    and (fshort in INLINE or (fshort.startswith("_") and fshort != "_amend_abstract_attributes"
                                              and fshort in self.methods)):
                st, mx = conds(n)
                for r in self.reads(fshort, "element", depth + 1):
                    if "include" in r:
                        out.append(r)
                    else:
                        out.append(dict(r, decStrip=r["decStrip"] or st, mixin=r["mixin"] or mx))
                continue
            if fshort == "_amend_abstract_attributes":
                out.append({"include": "amend"})
        # `x = element.find(NS_AAS + "m")` … `_failsafe_construct(x, ctor, cls.failsafe)`
        varmember: Dict[str, str] = {}
        for n in ast.walk(fn):
            if isinstance(n, ast.Assign) and isinstance(n.value, ast.Call) and src(n.value.func) == f"{elem}.find" and \
                    isinstance(n.targets[0], ast.Name) and n.value.args and ns_name(n.value.args[0]):
                varmember[n.targets[0].id] = ns_name(n.value.args[0])
        for n in ast.walk(fn):
            if isinstance(n, ast.Call) and src(n.func) == "_failsafe_construct" and n.args and isinstance(n.args[0], ast.Name) \
                    and n.args[0].id in varmember and len(n.args) > 1:
                for r_ in out:
                    if r_.get("member") == varmember[n.args[0].id] and not r_.get("ctor"):
                        r_["ctor"] = src(n.args[1])
        return out

    def item_recover(self, name: str) -> set:
        """members whose items are constructed through _child_construct_multiple / _failsafe_construct_multiple"""
        fn = self.body_of(name)
        out = set()
        if fn is None:
            return out
        varmember: Dict[str, str] = {}
        loop_tags: List[str] = []
        for n in ast.walk(fn):
            if isinstance(n, ast.Assign) and isinstance(n.value, ast.Call) and isinstance(n.targets[0], ast.Name) and n.value.args:
                f = src(n.value.func)
                if f == "element.find":
                    m = ns_name(n.value.args[0])
                    if m:
                        varmember[n.targets[0].id] = m
                    elif isinstance(n.value.args[0], ast.Name):
                        varmember[n.targets[0].id] = "$loop"
                if f == "_get_child_mandatory" and len(n.value.args) > 1:
                    m = ns_name(n.value.args[1]) or (re.fullmatch(r"namespace \+ ['\"](\w+)['\"]", src(n.value.args[1])) or [None, None])[1]
                    if m:
                        varmember[n.targets[0].id] = m
            if isinstance(n, ast.For) and isinstance(n.iter, ast.Tuple) and isinstance(n.target, ast.Tuple):
                loop_tags = [ns_name(t.elts[0]) for t in n.iter.elts]
        for n in ast.walk(fn):
            if isinstance(n, ast.Call) and src(n.func) in ("_child_construct_multiple", "_failsafe_construct_multiple") and n.args:
                v = src(n.args[0])
                if varmember.get(v) == "$loop":
                    out.update(t for t in loop_tags if t)
                elif v in varmember:
                    out.add(varmember[v])
                else:
                    m2 = re.fullmatch(r"_get_child_mandatory\(element, NS_AAS \+ ['\"](\w+)['\"]\)", v)
                    if m2:
                        out.add(m2.group(1))
        return out

    def item_tags(self, name: str) -> Dict[str, str]:
        """wrapper variable handling: member -> expected item tag, from `_child_construct_multiple(<var>, NS_AAS+"item", …)`"""
        fn = self.body_of(name)
        tags: Dict[str, str] = {}
        if fn is None:
            return tags
        varmember: Dict[str, str] = {}
        for n in ast.walk(fn):
            if isinstance(n, ast.Assign) and isinstance(n.value, ast.Call) and src(n.value.func) == "element.find" and \
                    isinstance(n.targets[0], ast.Name) and n.value.args and ns_name(n.value.args[0]):
                varmember[n.targets[0].id] = ns_name(n.value.args[0])
            if isinstance(n, ast.Assign) and isinstance(n.value, ast.Call) and src(n.value.func) == "_get_child_mandatory" and \
                    isinstance(n.targets[0], ast.Name):
                m = ns_name(n.value.args[1]) or (re.fullmatch(r"namespace \+ ['\"](\w+)['\"]", src(n.value.args[1])) or [None, None])[1]
                if m:
                    varmember[n.targets[0].id] = m
        for n in ast.walk(fn):
            if isinstance(n, ast.Call) and src(n.func) == "_child_construct_multiple" and len(n.args) > 1:
                v = src(n.args[0])
                t = ns_name(n.args[1]) or (re.fullmatch(r"namespace \+ ['\"](\w+)['\"]", src(n.args[1])) or [None, None])[1]
                if v in varmember and t:
                    tags[varmember[v]] = t
                m2 = re.fullmatch(r"_get_child_mandatory\(element, NS_AAS \+ ['\"](\w+)['\"]\)", v)
                if m2 and t:
                    tags[m2.group(1)] = t
        return tags


# ------------------------------------------------------------------------------------------ merge

WRITER_FUNC = {  # class -> writer function
    "Key": "key_to_xml", "ExternalReference": "reference_to_xml", "ModelReference": "reference_to_xml",
    "AdministrativeInformation": "administrative_information_to_xml", "EmbeddedDataSpecification": "embedded_data_specification_to_xml",
    "DataSpecificationIEC61360": "data_specification_iec61360_to_xml", "ValueReferencePair": "value_reference_pair_to_xml",
    "Qualifier": "qualifier_to_xml", "Extension": "extension_to_xml", "SpecificAssetId": "specific_asset_id_to_xml",
    "Resource": "resource_to_xml", "AssetInformation": "asset_information_to_xml",
    "AssetAdministrationShell": "asset_administration_shell_to_xml", "Submodel": "submodel_to_xml",
    "ConceptDescription": "concept_description_to_xml", "Property": "property_to_xml",
    "MultiLanguageProperty": "multi_language_property_to_xml", "Range": "range_to_xml", "Blob": "blob_to_xml", "File": "file_to_xml",
    "ReferenceElement": "reference_element_to_xml", "SubmodelElementCollection": "submodel_element_collection_to_xml",
    "SubmodelElementList": "submodel_element_list_to_xml", "RelationshipElement": "relationship_element_to_xml",
    "AnnotatedRelationshipElement": "annotated_relationship_element_to_xml", "Operation": "operation_to_xml",
    "Capability": "capability_to_xml", "Entity": "entity_to_xml", "BasicEventElement": "basic_event_element_to_xml",
    "ValueList": "value_list_to_xml", "OperationVariable": "operation_variable_to_xml",
}
READER_FUNC = {c: "construct_" + re.sub(r"(?<!^)(?=[A-Z])", "_", c).lower() for c in WRITER_FUNC}
READER_FUNC.update({"DataSpecificationIEC61360": "construct_data_specification_iec61360", "OperationVariable": "_construct_operation_variable"})
LSS_CLASSES = {"MultiLanguageNameType": "construct_multi_language_name_type", "MultiLanguageTextType": "construct_multi_language_text_type",
               "DefinitionTypeIEC61360": "construct_definition_type_iec61360",
               "PreferredNameTypeIEC61360": "construct_preferred_name_type_iec61360",
               "ShortNameTypeIEC61360": "construct_short_name_type_iec61360"}


def build(repo: str) -> Dict[str, Any]:
    J.XSD_NAMES.clear()
    J.XSD_NAMES.update(J.xsd_names(repo))
    enums = J.enum_tables(repo)
    graph = J.class_graph(repo)
    w = W(repo)
    r = R(repo)
    problems: List[str] = []

    def applies(cls, mixin):
        return mixin is None or mixin in J.ancestors(graph, cls)

    abstract_rows = w.rows_of("abstract_classes_to_xml")
    amend_rows = r.reads("_amend_abstract_attributes")
    amend_items = r.item_tags("_amend_abstract_attributes")
    amend_irec = r.item_recover("_amend_abstract_attributes")
    # lang string item tags: writer dict, reader per construct function
    lss_writer: Dict[str, str] = {}
    for n in ast.walk(w.funcs["lang_string_set_to_xml"]):
        if isinstance(n, ast.Dict) and n.keys and isinstance(n.keys[0], ast.Attribute):
            for k, v in zip(n.keys, n.values):
                lss_writer[k.attr] = v.value
    lss_reader: Dict[str, str] = {}
    for c, m in LSS_CLASSES.items():
        fn = r.methods.get(m)
        if fn:
            mm = re.search(r"NS_AAS \+ ['\"](\w+)['\"]", src(fn))
            if mm:
                lss_reader[c] = mm.group(1)
    # polymorphic dispatch of the reader (tag -> constructor)
    dispatch: Dict[str, str] = {}
    for m in ("construct_submodel_element", "construct_data_element", "construct_data_specification_content"):
        fn = r.methods.get(m)
        for n in ast.walk(fn):
            if isinstance(n, ast.Dict) and n.keys and isinstance(n.keys[0], ast.Constant) and isinstance(n.values[0], ast.Attribute):
                for k, v in zip(n.keys, n.values):
                    dispatch[k.value] = v.attr
    ctor_cls = {v: k for k, v in READER_FUNC.items()}

    table = []
    classes = [c for c in meta.META] + ["ValueList", "OperationVariable"] + ["LangString" + c for c in LSS_CLASSES]
    helper_spec = {"ValueList": [("__items__", "set1:node:ValueReferencePair")], "OperationVariable": [("__self__", "node:SubmodelElement")]}
    for cls in classes:
        if cls.startswith("LangString"):
            lc = cls[len("LangString"):]
            ok = lss_writer.get(lc) == lss_reader.get(lc)
            if not ok:
                problems.append(f"lang string item tag of {lc}: writer {lss_writer.get(lc)} reader {lss_reader.get(lc)}")
            rows = []
            for mem in ("language", "text"):
                rows.append({"member": mem, "attr": mem, "guard": "always", "encStrip": False, "decReads": ok, "decRequired": True,
                             "decStrip": False, "kind": "leaf", "optional": False, "noFalsy": True, "enumVals": [], "dflt": "none",
                             "emptyText": "asError", "canBeEmpty": False, "flags": []})
            table.append({"cls": cls, "tag": lss_writer.get(lc), "rows": rows, "readerOnlyMembers": []})
            continue
        wf = WRITER_FUNC[cls]
        wrows_raw = w.rows_of(wf)
        wrows: List[dict] = []
        for x in wrows_raw:
            if x.get("include") == "abstract":
                wrows += [dict(a) for a in abstract_rows if "include" not in a and applies(cls, a.get("mixin"))]
            elif "include" in x:
                for y in w.rows_of(x["include"]):
                    if y.get("include") == "abstract":
                        wrows += [dict(a) for a in abstract_rows if "include" not in a and applies(cls, a.get("mixin"))]
                    elif "include" not in y:
                        wrows.append(dict(y))
            else:
                wrows.append(dict(x))
        rfn = READER_FUNC[cls]
        rraw = r.reads(rfn)
        rrows: Dict[str, dict] = {}
        for x in rraw:
            if x.get("include") == "amend":
                for a in amend_rows:
                    if "include" not in a and applies(cls, a.get("mixin")):
                        rrows.setdefault(a["member"], a)
            else:
                rrows.setdefault(x["member"], x)
        items_r = dict(amend_items)
        items_r.update(r.item_tags(rfn))
        irec = set(amend_irec) | r.item_recover(rfn)
        if cls in ("ExternalReference", "ModelReference"):
            irec |= r.item_recover("_construct_key_tuple")
        if cls in ("ExternalReference", "ModelReference"):
            items_r.update(r.item_tags("_construct_key_tuple"))
        spec = dict(meta.META.get(cls) or helper_spec[cls])
        tag = w.default_tag.get(wf)
        if cls in ("ExternalReference", "ModelReference"):
            tag = cls
        rows_out, seen = [], set()
        for x in wrows:
            member = x["member"]
            if cls in ("ExternalReference", "ModelReference") and member == "type":
                continue
            attr = x["attr"]
            if member == "keys":
                attr = "key"
            if cls == "ValueList":
                attr = "__items__"
            if cls == "OperationVariable":
                attr = "__self__"
            sk = spec.get(attr)
            if sk is None:
                problems.append(f"{cls}.{member}: writer row for unknown attribute {attr}")
                continue
            seen.add(attr)
            if cls == "OperationVariable":
                kind, opt, nofalsy, ev, dflt = (["poly", J.SME_POLY], False, True, [], "none")
            else:
                kind, opt, nofalsy, ev, dflt = J.kind_of(sk, enums)
            if cls == "DataSpecificationIEC61360" and attr == "value_list":
                kind = ["node", "ValueList"]
            if cls == "Operation" and attr.endswith("_variable"):
                kind = ["list", ["node", "OperationVariable"]]
            if sk.lstrip("o").startswith("lss:"):
                kind = ["list", ["poly", ["LangString" + sk.split(":")[1]]]]
            rr = rrows.get(member)
            dec_reads = rr is not None
            # list item tags must agree (strict reader rejects unexpected children)
            if isinstance(kind, list) and kind[0] == "list" and x.get("item") and isinstance(x["item"], list):
                wtags = {t for (_, t) in x["item"] if t}
                rtag = items_r.get(member)
                if rtag and wtags and rtag not in wtags:
                    problems.append(f"{cls}.{member}: writer item tag {sorted(wtags)} but reader expects {rtag}")
                    dec_reads = False
            guard = x["guard"]
            if guard.startswith("isTok:"):
                nm = guard.split(":")[1]
                etab = next((t for t in enums.values() if nm in t), None)
                guard = "isTok:" + (etab[nm] if etab else nm)
            empty = (rr or {}).get("emptyText", "exact") if kind == "leaf" else "exact"
            for note in x.get("notes", []):
                if note.startswith("textGuard:") and note != "textGuard:always":
                    pass        # element always written, text conditional: the row's guard stays `always`
            if (cls, attr) in meta.SPEC_DEFAULTS and dflt == "none":
                dflt = "tok:" + meta.SPEC_DEFAULTS[(cls, attr)]
            rows_out.append({
                # there is no stripped XML writer; the notional one strips what the stripped reader ignores
                "member": member, "attr": attr, "guard": guard, "encStrip": bool(rr and rr["decStrip"]),
                "decReads": dec_reads, "decRequired": bool(rr and rr["required"]), "decStrip": bool(rr and rr["decStrip"]),
                "kind": kind, "optional": opt, "noFalsy": nofalsy, "enumVals": ev, "dflt": dflt,
                "emptyText": empty, "canBeEmpty": J.can_be_empty(sk) if cls != "OperationVariable" else False,
                "flags": x.get("flags", []), "item": x.get("item"),
                "recover": bool(rr and not rr["required"] and rr.get("ctor") and kind != "leaf"),
                "itemRecover": member in irec,
            })
        for attr in spec:
            if attr not in seen:
                problems.append(f"{cls}.{attr}: metamodel attribute never written")
                # keep the row (writer never emits, reader never reads) so that values still align and WF fails on it
                kind, opt, nofalsy, ev, dflt = J.kind_of(spec[attr], enums)
                rows_out.append({"member": "?" + attr, "attr": attr, "guard": "always", "encStrip": False, "decReads": False,
                                 "decRequired": False, "decStrip": False, "kind": kind, "optional": opt, "noFalsy": nofalsy,
                                 "enumVals": ev, "dflt": dflt, "emptyText": "exact", "canBeEmpty": False, "flags": ["neverWritten"]})
        extra = sorted(set(rrows) - {x["member"] for x in wrows} - {"type"})
        table.append({"cls": cls, "tag": tag, "rows": rows_out, "readerOnlyMembers": extra})
    # reader dispatch (tag -> class)
    rdispatch = {t: ctor_cls.get(m, m) for t, m in dispatch.items()}
    # single-object API: first-match isinstance chain of object_to_xml_element, and read_aas_xml_element's table
    wdispatch: List[Tuple[str, str]] = []
    fn = w.funcs["object_to_xml_element"]
    for n in ast.walk(fn):
        if isinstance(n, ast.If):
            m = re.fullmatch(r"isinstance\(obj, model\.(\w+)\)", src(n.test))
            if m and n.body and isinstance(n.body[0], ast.Assign):
                wdispatch.append((m.group(1), src(n.body[0].value)))
    seen_t = set()
    wdispatch_first = [(t, f) for t, f in wdispatch if not (t in seen_t or seen_t.add(t))]
    constructables: Dict[str, str] = {}
    rfn = next(n for n in r.mod.body if isinstance(n, ast.FunctionDef) and n.name == "read_aas_xml_element")
    for n in ast.walk(rfn):
        if isinstance(n, ast.If):
            m = re.fullmatch(r"construct == XMLConstructables\.(\w+)", src(n.test))
            if m and n.body and isinstance(n.body[0], ast.Assign):
                constructables[m.group(1)] = src(n.body[0].value).replace("decoder_.", "")
    enum_members = []
    for n in r.mod.body:
        if isinstance(n, ast.ClassDef) and n.name == "XMLConstructables":
            enum_members = [t.targets[0].id for t in n.body if isinstance(t, ast.Assign)]
    anc = {c: sorted(J.ancestors(graph, c)) for c in WRITER_FUNC if c in graph}
    rec = [{"cls": ct["cls"], "rows": [{"member": x["member"], "recover": x.get("recover", False), "itemRecover": x.get("itemRecover", False),
                                       "itemCaught": []} for x in ct["rows"]]} for ct in table]
    return {"table": table, "enums": enums, "xsdNames": J.xsd_names(repo), "unrecognised": w.unrec + r.unrec, "problems": problems,
            "recPoints": rec,
            "catch": r.catch, "readerDispatch": rdispatch, "lssWriter": lss_writer, "lssReader": lss_reader,
            "writerDispatch": wdispatch_first, "constructables": constructables, "constructableMembers": enum_members,
            "ancestors": anc, "writerFunc": {c: f for c, f in WRITER_FUNC.items() if c in graph},
            "readerFunc": {c: f for c, f in READER_FUNC.items() if c in graph}}


def xsd_group_of(cls: str) -> str:
    special = {"DataSpecificationIEC61360": "dataSpecificationIec61360", "ExternalReference": "reference", "ModelReference": "reference",
               "LangStringMultiLanguageNameType": "langStringNameType", "LangStringMultiLanguageTextType": "langStringTextType",
               "LangStringDefinitionTypeIEC61360": "langStringDefinitionTypeIec61360",
               "LangStringPreferredNameTypeIEC61360": "langStringPreferredNameTypeIec61360",
               "LangStringShortNameTypeIEC61360": "langStringShortNameTypeIec61360"}
    return special.get(cls, cls[0].lower() + cls[1:])


def emit_lean(data: Dict[str, Any]) -> str:
    txt = J.emit_lean(data, name="xmlTable", namespace="Basyx.Gen.Xml")
    extra = ["/-- tag -> class dispatch of the XML reader (construct_submodel_element / construct_data_element / …) -/",
             "def readerDispatch : List (String × String) := [" + ", ".join(f"({J.lstr(t)}, {J.lstr(c)})" for t, c in sorted(data["readerDispatch"].items())) + "]",
             "", "/-- SPEC mapping: class -> name of its xs:group in the official XSD -/",
             "def groupOf : List (String × String) := [" + ", ".join(
                 f"({J.lstr(ct['cls'])}, {J.lstr(xsd_group_of(ct['cls']))})" for ct in data["table"]) + "]",
             "", "/-- object_to_xml_element: first-match isinstance chain (type, serialiser) -/",
             "def writerDispatch : List (String × String) := [" + ", ".join(f"({J.lstr(t)}, {J.lstr(f)})" for t, f in data["writerDispatch"]) + "]",
             "", "/-- read_aas_xml_element: XMLConstructables member -> constructor -/",
             "def constructables : List (String × String) := [" + ", ".join(f"({J.lstr(t)}, {J.lstr(f)})" for t, f in sorted(data["constructables"].items())) + "]",
             "def constructableMembers : List String := [" + ", ".join(J.lstr(t) for t in data["constructableMembers"]) + "]",
             "", "/-- class graph of model/*.py: class -> itself and all its ancestors -/",
             "def ancestors : List (String × List String) := [" + ", ".join(
                 f"({J.lstr(c)}, [" + ", ".join(J.lstr(a) for a in anc) + "])" for c, anc in sorted(data["ancestors"].items())) + "]",
             "", "/-- the serialiser / constructor that belongs to each concrete class -/",
             "def writerFunc : List (String × String) := [" + ", ".join(f"({J.lstr(c)}, {J.lstr(f)})" for c, f in sorted(data["writerFunc"].items())) + "]",
             "def readerFunc : List (String × String) := [" + ", ".join(f"({J.lstr(c)}, {J.lstr(f)})" for c, f in sorted(data["readerFunc"].items())) + "]",
             "", "/-- table problems found while merging writer and reader (informational; each also shows as a failing row) -/",
             "def problems : List String := [" + ", ".join(J.lstr(p) for p in data["problems"]) + "]", ""]
    return txt.replace("end Basyx.Gen.Xml", "\n".join(extra) + "end Basyx.Gen.Xml")
