"""Translator for C20: (a) the phases of the compliance check functions with the exception classes their `try` blocks catch,
(b) the coverage table of examples/data/_helper.py::AASDataChecker (which attribute of which class is compared, and how).
Both by `ast`; emitted as lean/Basyx/Gen/Compliance.lean (+ JSON copy)."""
from __future__ import annotations

import ast
import json
import os
import re
from typing import Any, Dict, List, Optional, Tuple

from vf import meta

CALLS = {   # external calls of interest -> (label, SPEC raisable on arbitrary input, status taken from the log afterwards?)
    "open": ("open", ["IOError"], False),
    # RecursionError: a well-formed file nested deeper than the interpreter follows (json's decoder and jsonschema's validator recurse)
    "json.load": ("json.load", ["JSONDecodeError", "UnicodeDecodeError", "RecursionError"], False),
    "jsonschema.validate": ("jsonschema.validate", ["ValidationError", "RecursionError"], False),
    "json_deserialization.read_aas_json_file": ("read_aas_json_file", ["JSONDecodeError", "UnicodeDecodeError"], True),
    # OSError: reading from a FILE, lxml reports bytes that are invalid in the document's encoding as an I/O error
    "etree.parse": ("etree.parse", ["XMLSyntaxError", "OSError"], False),
    "xml_deserialization.read_aas_xml_file": ("read_aas_xml_file", ["OSError"], True),
    "aasx.AASXReader": ("AASXReader", ["FileNotFoundError", "ValueError"], True),
    "reader.read_into": ("read_into", ["ValueError", "KeyError", "XMLSyntaxError"], True),
    "reader.reader.get_related_parts_by_type": ("get_related_parts", ["ValueError", "KeyError", "XMLSyntaxError"], False),
    "checker.check_object_store": ("check_object_store", ["KeyError", "AssertionError", "NotImplementedError"], False),
}
FUNCS = ["check_schema", "_check_schema", "check_deserialization", "check_json_files_equivalence", "check_xml_files_equivalence",
         "check_aasx_files_equivalence"]


def src(n):
    return ast.unparse(n)


def phases_of(path: str) -> Dict[str, List[dict]]:
    mod = ast.parse(open(path, encoding="utf-8").read())
    out: Dict[str, List[dict]] = {}
    for fn in mod.body:
        if not isinstance(fn, ast.FunctionDef) or fn.name not in FUNCS:
            continue
        parent: Dict[int, ast.AST] = {}
        for n in ast.walk(fn):
            for ch in ast.iter_child_nodes(n):
                parent[id(ch)] = n
        # linear order of statements: (lineno) -> current step name = last add_step before
        steps = []
        for n in ast.walk(fn):
            if isinstance(n, ast.Call) and src(n.func).endswith("add_step") and n.args:
                steps.append((n.lineno, src(n.args[0])))
        steps.sort()
        phases = []
        for n in ast.walk(fn):
            if isinstance(n, ast.Call):
                f = src(n.func)
                if f not in CALLS:
                    continue
                argsrc = " ".join(src(a) for a in n.args)
                if "SCHEMA_FILE" in argsrc or re.search(r"\bjson_file\b", argsrc):
                    continue                      # reads the schema file shipped with the tool, not the input
                label, raisable, from_log = CALLS[f]
                caught: List[str] = []
                p = parent.get(id(n))
                child = n
                while p is not None:
                    if isinstance(p, ast.Try) and any(child is s or _contains(s, child) for s in p.body):
                        for h in p.handlers:
                            if h.type is None:
                                caught.append("Exception")
                            else:
                                for t in (h.type.elts if isinstance(h.type, ast.Tuple) else [h.type]):
                                    caught.append(src(t).split(".")[-1])
                    child = p
                    p = parent.get(id(p))
                step = ""
                for ln, nm in steps:
                    if ln <= n.lineno:
                        step = nm
                phases.append({"line": n.lineno, "step": step, "call": label, "raisable": raisable, "caught": sorted(set(caught)),
                               "failsReport": from_log})
        phases.sort(key=lambda p: p["line"])
        out[fn.name] = phases
    return out


def _contains(stmt, node) -> bool:
    return any(x is node for x in ast.walk(stmt))


# ------------------------------------------------------------------------------------------ checker coverage

COMPARE_CALLS = ("_check_submodel_element", "check_specific_asset_id", "_check_reference_equal", "_check_qualifier_equal",
                 "_check_extension_equal", "check_resource_equal", "check_data_specification_content_equal",
                 "check_asset_information_equal", "_check_data_specification_iec61360_equal", "_check_value_list_equal")
CLASS_METHOD = {   # which checker method is responsible for which class
    "Qualifier": "_check_qualifier_equal", "Extension": "_check_extension_equal", "SpecificAssetId": "check_specific_asset_id",
    "Resource": "check_resource_equal", "AssetInformation": "check_asset_information_equal",
    "DataSpecificationIEC61360": "_check_data_specification_iec61360_equal",
    "AssetAdministrationShell": "check_asset_administration_shell_equal", "Submodel": "check_submodel_equal",
    "ConceptDescription": "check_concept_description_equal", "Property": "check_property_equal",
    "MultiLanguageProperty": "check_multi_language_property_equal", "Range": "check_range_equal", "Blob": "check_blob_equal",
    "File": "check_file_equal", "ReferenceElement": "check_reference_element_equal",
    "SubmodelElementCollection": "check_submodel_element_collection_equal", "SubmodelElementList": "check_submodel_element_list_equal",
    "RelationshipElement": "check_relationship_element_equal", "AnnotatedRelationshipElement": "check_annotated_relationship_element_equal",
    "Operation": "check_operation_equal", "Capability": "check_capability_equal", "Entity": "check_entity_equal",
    "BasicEventElement": "check_basic_event_element_equal",
}


def checker_cover(repo: str) -> Tuple[Dict[str, Dict[str, str]], List[str]]:
    path = os.path.join(repo, "sdk/basyx/aas/examples/data/_helper.py")
    mod = ast.parse(open(path, encoding="utf-8").read())
    cls = next(n for n in mod.body if isinstance(n, ast.ClassDef) and n.name == "AASDataChecker")
    methods = {n.name: n for n in cls.body if isinstance(n, ast.FunctionDef)}
    problems: List[str] = []

    def analyse(name: str, seen=()) -> Dict[str, str]:
        fn = methods.get(name)
        if fn is None or name in seen:
            return {}
        args = [a.arg for a in fn.args.args]
        if len(args) < 3:
            return {}
        obj, exp = args[1], args[2]
        cover: Dict[str, str] = {}

        def put(attr, how):
            rank = {"notCompared": 0, "selfCompare": 1, "existsOnly": 2, "eq": 3, "recurse": 3}
            if rank[how] >= rank.get(cover.get(attr, "notCompared"), 0):
                cover[attr] = how

        for n in ast.walk(fn):
            if isinstance(n, ast.Call) and isinstance(n.func, ast.Attribute) and isinstance(n.func.value, ast.Name) and n.func.value.id == "self":
                m = n.func.attr
                a = n.args
                if m == "check_attribute_equal" and len(a) >= 3 and src(a[0]) == obj and isinstance(a[1], ast.Constant):
                    attr = a[1].value
                    put(attr, "eq" if src(a[2]) == f"{exp}.{attr}" else "selfCompare" if src(a[2]).startswith(obj + ".") else "eq")
                elif len(a) >= 2 and src(a[0]) == obj and src(a[1]) == exp and m in methods:
                    for k, v in analyse(m, seen + (name,)).items():
                        put(k, v)
                elif len(a) >= 2 and m in methods and re.fullmatch(rf"{obj}\.(\w+)", src(a[0])) and re.fullmatch(rf"{exp}\.(\w+)", src(a[1])):
                    attr = src(a[0]).split(".")[1]
                    body = src(methods[m])
                    if "_find_specific_asset_id(" in body or ("_find_reference(" in body and "_check_submodel_element" not in body):
                        put(attr, "eq")           # members matched by `==` of the whole member
                    elif m in COMPARE_CALLS or m.endswith("_equal"):
                        put(attr, "recurse")
        # loops over the expected object's collection attribute
        for n in ast.walk(fn):
            if isinstance(n, ast.For):
                it = src(n.iter)
                attr = None
                m1 = re.fullmatch(rf"{exp}\.(\w+)", it)
                m2 = re.fullmatch(rf"zip\({obj}\.(\w+), {exp}\.(\w+)\)", it)
                if m1:
                    attr = m1.group(1)
                elif m2:
                    attr = m2.group(1)
                if attr is None and isinstance(n.iter, ast.Tuple):
                    # operation: for input_nss, expected_nss, attr_name in ((object_.input_variable, …, 'input_variable'), …)
                    body_src = src(n)
                    for tup in n.iter.elts:
                        if isinstance(tup, ast.Tuple) and isinstance(tup.elts[-1], ast.Constant):
                            put(tup.elts[-1].value, "recurse" if "_check_submodel_element" in body_src else "existsOnly")
                    continue
                if attr is None:
                    continue
                body_src = "\n".join(src(s) for s in n.body)
                if "_find_reference" in body_src or "_find_specific_asset_id" in body_src:
                    put(attr, "eq")               # members matched by `==` of the whole member: set equality
                elif any(c in body_src for c in COMPARE_CALLS) or "_equal(" in body_src:
                    put(attr, "recurse")
                elif "_find_element_by_attribute" in body_src:
                    put(attr, "eq")
                else:
                    put(attr, "existsOnly")
        return cover

    table: Dict[str, Dict[str, str]] = {}
    for c, m in CLASS_METHOD.items():
        if m not in methods:
            problems.append(f"checker method {m} for class {c} not found")
            continue
        table[c] = analyse(m)
    # helper classes compared inside their parents
    table["EmbeddedDataSpecification"] = {"data_specification": "eq", "data_specification_content": "recurse"} \
        if "_check_has_data_specification_equal" in methods and "check_data_specification_content_equal" in src(methods["_check_has_data_specification_equal"]) else {}
    # AdministrativeInformation: compared with `==` (its __eq__ covers version, revision, creator, template_id) and, in addition,
    # its embedded data specifications recursively
    if "_check_has_data_specification_equal(object_.administration" in src(methods.get("_check_identifiable_equal", ast.parse("0"))):
        eqsrc = ""
        bmod = ast.parse(open(os.path.join(repo, "sdk/basyx/aas/model/base.py"), encoding="utf-8").read())
        for c in bmod.body:
            if isinstance(c, ast.ClassDef) and c.name == "AdministrativeInformation":
                for f in c.body:
                    if isinstance(f, ast.FunctionDef) and f.name == "__eq__":
                        eqsrc = src(f)
        table["AdministrativeInformation"] = {a: "eq" for a in ("version", "revision", "creator", "template_id")
                                              if re.search(rf"self\._?{a} == other\._?{a}", eqsrc)}
        table["AdministrativeInformation"]["embedded_data_specifications"] = "recurse"
    table["ValueReferencePair"] = {"value": "eq", "value_id": "eq"} if "_check_value_list_equal" in methods and \
        "'value', 'value_id'" in src(methods["_check_value_list_equal"]) else {}
    return table, problems


def build(repo: str) -> Dict[str, Any]:
    d = os.path.join(repo, "compliance_tool/aas_compliance_tool")
    scripts: Dict[str, List[dict]] = {}
    for fmt in ("json", "xml", "aasx"):
        for fn, ph in phases_of(os.path.join(d, f"compliance_check_{fmt}.py")).items():
            scripts[f"{fmt}.{fn}"] = ph
    cover, problems = checker_cover(repo)
    # only classes the checker actually descends into need a row: identifiables, submodel elements, and whatever is reached
    # through an attribute compared recursively (members compared with `==` are covered by the parent's `eq`)
    reach = set(meta.IDENTIFIABLE_CLASSES + meta.SUBMODEL_ELEMENT_CLASSES)
    todo = list(reach)
    while todo:
        c = todo.pop()
        for attr, kind in meta.META.get(c, []):
            if cover.get(c, {}).get(attr) == "recurse":
                m = re.search(r"node:(\w+)", kind)
                if m and m.group(1) in cover and m.group(1) not in reach:
                    reach.add(m.group(1)); todo.append(m.group(1))
    cover = {c: v for c, v in cover.items() if c in reach}
    # wrapper nodes of the value model (no attributes of their own): the comparison passes through them
    cover["ValueList"] = {"__items__": "recurse"}
    cover["OperationVariable"] = {"__self__": "recurse"}
    return {"scripts": scripts, "cover": cover, "problems": problems}


def lstr(s):
    return json.dumps(s, ensure_ascii=False)


def emit_lean(data: Dict[str, Any], json_table: Dict[str, Any]) -> str:
    o = ["/- GENERATED by py/translate/compliance_tables.py from compliance_tool/aas_compliance_tool/*.py and", "   sdk/basyx/aas/examples/data/_helper.py — do not edit. -/",
         "import Basyx.Model.Compliance", "namespace Basyx.Gen.Compliance", "open Basyx.Compliance", "",
         "/-- check function ↦ its phases (report step, external call, SPEC raisable, caught exception classes) -/",
         "def scripts : List (String × List Phase) := ["]
    rows = []
    for name, phs in sorted(data["scripts"].items()):
        ps = ", ".join(f"⟨{lstr(p['step'])}, {lstr(p['call'])}, [{', '.join(lstr(x) for x in p['raisable'])}], "
                       f"[{', '.join(lstr(x) for x in p['caught'])}], {'true' if p['failsReport'] else 'false'}⟩" for p in phs)
        rows.append(f"  ({lstr(name)}, [{ps}])")
    o.append(",\n".join(rows) + "]")
    o.append("")
    o.append("/-- AASDataChecker coverage, aligned with the field order of the JSON member table (Gen/JsonTable) -/")
    o.append("def cover : List Cover := [")
    rows = []
    for ct in json_table["table"]:
        c = ct["cls"]
        if c not in data["cover"]:
            continue
        cov = data["cover"][c]
        attrs = ", ".join(f"({lstr(r['attr'])}, .{cov.get(r['attr'], 'notCompared')})" for r in ct["rows"])
        rows.append(f"  ⟨{lstr(c)}, [{attrs}]⟩")
    o.append(",\n".join(rows) + "]")
    o.append("")
    o.append("def problems : List String := [" + ", ".join(lstr(p) for p in data["problems"]) + "]")
    o.append("end Basyx.Gen.Compliance")
    return "\n".join(o) + "\n"
