"""T-gen for the mode selection of the adapters (C09, C18): which decoder / encoder class the file-level functions pick for
(failsafe, stripped), and which mode flags each of these classes has.

Extracted from the source text by `ast` (nothing is imported):
  * `_select_decoder(failsafe, stripped, decoder)` of json_deserialization.py and xml_deserialization.py and
    `_select_encoder(stripped, encoder)` of json_serialization.py are EVALUATED symbolically for every combination of their
    boolean parameters with the class parameter None.  Understood statement shapes: `if <cond>: ... [else: ...]`, `return <Name>`,
    `return <Name> if <cond> else <Name>` (nested), conditions `x`, `not x`, `x is None`, `x is not None`, `and` / `or` of those.
    Anything else is reported as an unrecognised construct (a broken tie), never guessed.
  * of every class of the three modules: its bases and the class-level assignments `failsafe = <bool>` / `stripped = <bool>`;
    the method resolution order is computed here by C3 linearisation (as Python does), the flag lookup along it is done in Lean.
  * HTTPApiDecoder.json_list / .xml (http.py): the (stripped) -> decoder class choice made for request bodies.
"""
from __future__ import annotations

import ast
import os
from typing import Any, Dict, List, Optional, Tuple

FILES = {"json-dec": "sdk/basyx/aas/adapter/json/json_deserialization.py",
         "xml-dec": "sdk/basyx/aas/adapter/xml/xml_deserialization.py",
         "json-enc": "sdk/basyx/aas/adapter/json/json_serialization.py"}


class Unrecognised(Exception):
    pass


def _cond(e: ast.expr, env: Dict[str, Any]) -> bool:
    if isinstance(e, ast.Name) and e.id in env:
        return bool(env[e.id])
    if isinstance(e, ast.UnaryOp) and isinstance(e.op, ast.Not):
        return not _cond(e.operand, env)
    if isinstance(e, ast.BoolOp):
        vals = [_cond(v, env) for v in e.values]
        return all(vals) if isinstance(e.op, ast.And) else any(vals)
    if isinstance(e, ast.Compare) and len(e.ops) == 1 and isinstance(e.left, ast.Name) and e.left.id in env \
            and isinstance(e.comparators[0], ast.Constant) and e.comparators[0].value is None:
        if isinstance(e.ops[0], ast.Is):
            return env[e.left.id] is None
        if isinstance(e.ops[0], ast.IsNot):
            return env[e.left.id] is not None
    raise Unrecognised("condition `" + ast.unparse(e) + "`")


def _value(e: ast.expr, env: Dict[str, Any]) -> str:
    if isinstance(e, ast.Name):
        if e.id in env:
            if env[e.id] is None:
                raise Unrecognised("returns a parameter that is None")
            return str(env[e.id])
        return e.id
    if isinstance(e, ast.IfExp):
        return _value(e.body if _cond(e.test, env) else e.orelse, env)
    raise Unrecognised("returned expression `" + ast.unparse(e) + "`")


def _run(body: List[ast.stmt], env: Dict[str, Any]) -> Optional[str]:
    for st in body:
        if isinstance(st, ast.Expr) and isinstance(st.value, ast.Constant):
            continue                                    # docstring
        if isinstance(st, ast.Return) and st.value is not None:
            return _value(st.value, env)
        if isinstance(st, ast.If):
            r = _run(st.body if _cond(st.test, env) else st.orelse, env)
            if r is not None:
                return r
            continue
        if isinstance(st, ast.Pass):
            continue
        raise Unrecognised("statement `" + ast.unparse(st).splitlines()[0] + "`")
    return None


def _c3(name: str, bases: Dict[str, List[str]]) -> List[str]:
    def lin(c: str) -> List[str]:
        bs = [b for b in bases.get(c, []) if b in bases]
        seqs = [lin(b) for b in bs] + [list(bs)]
        out = [c]
        while any(seqs):
            for s in seqs:
                if s and not any(s[0] in t[1:] for t in seqs):
                    h = s[0]
                    break
            else:
                raise Unrecognised(f"no consistent method resolution order for {c}")
            out.append(h)
            seqs = [[x for x in t if x != h] for t in seqs]
        return out
    return lin(name)


def build(repo: str) -> Dict[str, Any]:
    out: Dict[str, Any] = {"classes": [], "select": [], "unrecognised": []}
    for tag, rel in FILES.items():
        path = os.path.join(repo, rel)
        tree = ast.parse(open(path, encoding="utf-8").read())
        bases: Dict[str, List[str]] = {}
        flags: Dict[str, Dict[str, bool]] = {}
        for n in tree.body:
            if isinstance(n, ast.ClassDef):
                bases[n.name] = [b.id for b in n.bases if isinstance(b, ast.Name)]
                fl: Dict[str, bool] = {}
                for st in n.body:
                    tgt = None
                    if isinstance(st, ast.Assign) and len(st.targets) == 1 and isinstance(st.targets[0], ast.Name):
                        tgt, val = st.targets[0].id, st.value
                    elif isinstance(st, ast.AnnAssign) and isinstance(st.target, ast.Name) and st.value is not None:
                        tgt, val = st.target.id, st.value
                    if tgt in ("failsafe", "stripped"):
                        if isinstance(val, ast.Constant) and isinstance(val.value, bool):
                            fl[tgt] = val.value
                        else:
                            out["unrecognised"].append(f"{rel}: class {n.name}: `{tgt} = {ast.unparse(val)}` is no boolean literal")
                flags[n.name] = fl
        wanted = [c for c in bases if "Decoder" in c or "Encoder" in c]
        for c in wanted:
            try:
                mro = _c3(c, bases)
            except Unrecognised as e:
                out["unrecognised"].append(f"{rel}: {e}")
                mro = [c]
            out["classes"].append({"module": tag, "name": c, "mro": mro, "failsafe": flags[c].get("failsafe"), "stripped": flags[c].get("stripped")})
        fn_name = "_select_encoder" if tag == "json-enc" else "_select_decoder"
        fn = next((n for n in tree.body if isinstance(n, ast.FunctionDef) and n.name == fn_name), None)
        if fn is None:
            out["unrecognised"].append(f"{rel}: no function {fn_name}")
            continue
        params = [a.arg for a in fn.args.args]
        want = ["stripped", "encoder"] if tag == "json-enc" else ["failsafe", "stripped", "decoder"]
        if params != want:
            out["unrecognised"].append(f"{rel}: {fn_name}{tuple(params)}: parameters changed")
            continue
        for fs in ([None] if tag == "json-enc" else [False, True]):
            for sp in (False, True):
                env: Dict[str, Any] = {"stripped": sp, want[-1]: None}
                if fs is not None:
                    env["failsafe"] = fs
                try:
                    r = _run(fn.body, env)
                    if r is None:
                        raise Unrecognised("falls off the end without returning")
                    out["select"].append({"module": tag, "failsafe": fs, "stripped": sp, "cls": r})
                except Unrecognised as e:
                    out["unrecognised"].append(f"{rel}: {fn_name}(failsafe={fs}, stripped={sp}): {e}")
    return out


HTTP = "sdk/basyx/aas/adapter/http.py"


def build_http(repo: str) -> Dict[str, Any]:
    """Which reader `HTTPApiDecoder` uses for a request body: `json_list` assigns `decoder = <A> if stripped else <B>` and hands it to
    json.loads; `xml` calls `read_aas_xml_element(..., stripped=<expr>, failsafe=<expr>)`.  -> rows (format, stripped, class | None,
    failsafe argument | None)"""
    out: Dict[str, Any] = {"http": [], "unrecognised": []}
    tree = ast.parse(open(os.path.join(repo, HTTP), encoding="utf-8").read())
    cls = next((n for n in tree.body if isinstance(n, ast.ClassDef) and n.name == "HTTPApiDecoder"), None)
    if cls is None:
        out["unrecognised"].append(f"{HTTP}: no class HTTPApiDecoder")
        return out
    fns = {n.name: n for n in cls.body if isinstance(n, ast.FunctionDef)}
    jl = fns.get("json_list")
    if jl is None or "stripped" not in [a.arg for a in jl.args.args]:
        out["unrecognised"].append(f"{HTTP}: HTTPApiDecoder.json_list(stripped) not found")
    else:
        dec = [n for n in ast.walk(jl) if isinstance(n, (ast.Assign, ast.AnnAssign))
               and ast.unparse(n.targets[0] if isinstance(n, ast.Assign) else n.target) == "decoder"]
        loads = [n for n in ast.walk(jl) if isinstance(n, ast.Call) and ast.unparse(n.func) == "json.loads"]
        uses = [k for c in loads for k in c.keywords if k.arg == "cls" and ast.unparse(k.value) == "decoder"]
        if len(dec) != 1 or dec[0].value is None or len(loads) != 1 or len(uses) != 1:
            out["unrecognised"].append(f"{HTTP}: json_list: decoder assignment / json.loads(cls=decoder) not in the expected shape")
        else:
            for sp in (False, True):
                try:
                    out["http"].append({"fmt": "json-dec", "stripped": sp, "cls": _value(dec[0].value, {"stripped": sp}), "failsafe": None})
                except Unrecognised as e:
                    out["unrecognised"].append(f"{HTTP}: json_list: {e}")
    xm = fns.get("xml")
    calls = [n for n in ast.walk(xm) if isinstance(n, ast.Call) and ast.unparse(n.func) == "read_aas_xml_element"] if xm else []
    if len(calls) != 1:
        out["unrecognised"].append(f"{HTTP}: HTTPApiDecoder.xml: {len(calls)} calls of read_aas_xml_element")
    else:
        kw = {k.arg: k.value for k in calls[0].keywords}
        for sp in (False, True):
            try:
                vals = {}
                for name in ("stripped", "failsafe"):
                    e = kw.get(name)
                    if e is None:
                        raise Unrecognised(f"no keyword {name}")
                    vals[name] = e.value if isinstance(e, ast.Constant) and isinstance(e.value, bool) else _cond(e, {"stripped": sp})
                if "decoder" in kw:
                    raise Unrecognised("a decoder class is passed")
                out["http"].append({"fmt": "xml-dec", "stripped": sp, "cls": None, "failsafe": vals["failsafe"], "stripped_arg": vals["stripped"]})
            except Unrecognised as e:
                out["unrecognised"].append(f"{HTTP}: xml: {e}")
    return out


def emit_lean_http(d: Dict[str, Any]) -> str:
    rows = []
    for r in d["http"]:
        if r["cls"] is not None:
            rows.append(f'  ("{r["fmt"]}", {"true" if r["stripped"] else "false"}, some "{r["cls"]}", none, none)')
        else:
            rows.append(f'  ("{r["fmt"]}", {"true" if r["stripped"] else "false"}, none, {_lb(r["failsafe"])}, {_lb(r["stripped_arg"])})')
    return "\n".join([
        "/-! GENERATED by py/translate/select_tables.py from adapter/http.py - do not edit.",
        "    Which reader HTTPApiDecoder uses for a request body with `level=core` absent / present (stripped = false / true):",
        "    a decoder class handed to json.loads, or the (failsafe, stripped) arguments handed to read_aas_xml_element. -/",
        "namespace Basyx.Gen.SelectHttp", "",
        "/-- (module of the reader, stripped request?, decoder class passed, failsafe argument, stripped argument) -/",
        "def bodyReaders : List (String × Bool × Option String × Option Bool × Option Bool) := [",
        ",\n".join(rows) + "]", "", "end Basyx.Gen.SelectHttp", ""])


def _lb(b: Optional[bool]) -> str:
    return "none" if b is None else ("some true" if b else "some false")


def emit_lean(d: Dict[str, Any]) -> str:
    s = ["/-! GENERATED by py/translate/select_tables.py from the adapters' source - do not edit.",
         "    Mode selection: which decoder / encoder class `_select_decoder` / `_select_encoder` return for (failsafe, stripped),",
         "    and the class-level mode flags of those classes (own assignments; inherited ones are looked up along the MRO in Lean). -/",
         "namespace Basyx.Gen.Select", "",
         "/-- (module, class, method resolution order, own `failsafe = ...`, own `stripped = ...`) -/",
         "def classes : List (String × String × List String × Option Bool × Option Bool) := ["]
    s.append(",\n".join(f'  ("{c["module"]}", "{c["name"]}", [{", ".join(chr(34) + m + chr(34) for m in c["mro"])}], {_lb(c["failsafe"])}, {_lb(c["stripped"])})'
                        for c in d["classes"]) + "]")
    s += ["", "/-- (module, failsafe argument (none: the function has no such parameter), stripped argument, returned class) with the class argument None -/",
          "def select : List (String × Option Bool × Bool × String) := ["]
    s.append(",\n".join(f'  ("{r["module"]}", {_lb(r["failsafe"])}, {"true" if r["stripped"] else "false"}, "{r["cls"]}")' for r in d["select"]) + "]")
    s += ["", "end Basyx.Gen.Select", ""]
    return "\n".join(s)
