"""Translator for the two official schema files shipped in /repo (compliance_tool/aas_compliance_tool/schemas):
  aasJSONSchema.json -> per definition (allOf flattened): properties, required, minItems>=1, enums, text length facets
  aasXMLSchema.xsd   -> per group (group refs flattened): the xs:sequence element order with minOccurs, wrapper item names,
                         enumerations of the simple types
Emitted as lean/Basyx/Gen/Schemas.lean (+ JSON copy)."""
from __future__ import annotations

import json
import os
from typing import Any, Dict, List, Optional, Tuple

SCHEMA_DIR = "compliance_tool/aas_compliance_tool/schemas"
XS = "{http://www.w3.org/2001/XMLSchema}"


def lstr(s: str) -> str:
    return json.dumps(s, ensure_ascii=False)


# ------------------------------------------------------------------------------------------ JSON schema

def json_schema(repo: str) -> Dict[str, Any]:
    s = json.load(open(os.path.join(repo, SCHEMA_DIR, "aasJSONSchema.json"), encoding="utf-8"))
    defs = s["definitions"]

    def ref(d):
        return d["$ref"].split("/")[-1] if isinstance(d, dict) and "$ref" in d else None

    def flatten(name: str, seen=()) -> Tuple[Dict[str, dict], List[str]]:
        d = defs[name]
        props: Dict[str, dict] = {}
        req: List[str] = []
        parts = d.get("allOf", []) + [d]
        for part in parts:
            r = ref(part)
            if r and r not in seen:
                p2, r2 = flatten(r, seen + (name,))
                props.update(p2)
                req += r2
            for k, v in part.get("properties", {}).items():
                props[k] = dict(props.get(k, {}), **v)
            req += part.get("required", [])
        return props, sorted(set(req))

    out = {}
    enums = {n: d["enum"] for n, d in defs.items() if "enum" in d}
    for name, d in defs.items():
        if "enum" in d or name.endswith("_choice"):
            continue
        props, req = flatten(name)
        plist = []
        for k, v in props.items():
            r = ref(v)
            item_ref = ref(v.get("items", {})) if isinstance(v.get("items"), dict) else None
            facets = [v] + v.get("allOf", [])
            maxlen = min([f["maxLength"] for f in facets if "maxLength" in f], default=None)
            minlen = max([f["minLength"] for f in facets if "minLength" in f], default=None)
            plist.append({"name": k, "ref": r, "itemRef": item_ref, "minItems1": v.get("minItems", 0) >= 1,
                          "enum": enums.get(r, v.get("enum", [])) if r in enums or "enum" in v else [],
                          "const": v.get("const"), "maxLength": maxlen, "minLength": minlen, "isArray": v.get("type") == "array"})
        out[name] = {"props": plist, "required": req}
    choices = {n: [ref(x) for x in d.get("oneOf", [])] for n, d in defs.items() if n.endswith("_choice")}
    return {"defs": out, "enums": enums, "choices": choices}


# ------------------------------------------------------------------------------------------ XSD

def xsd_schema(repo: str) -> Dict[str, Any]:
    from lxml import etree
    root = etree.parse(os.path.join(repo, SCHEMA_DIR, "aasXMLSchema.xsd")).getroot()
    groups = {c.get("name"): c for c in root if isinstance(c.tag, str) and c.tag == XS + "group"}
    simple = {c.get("name"): c for c in root if isinstance(c.tag, str) and c.tag == XS + "simpleType"}
    ctypes = {c.get("name"): c for c in root if isinstance(c.tag, str) and c.tag == XS + "complexType"}
    enums = {}
    for n, c in simple.items():
        vals = [e.get("value") for e in c.iter(XS + "enumeration")]
        if vals:
            enums[n] = vals

    def elements_of(node, seen=()) -> List[dict]:
        out: List[dict] = []
        for ch in node:
            if not isinstance(ch.tag, str):
                continue
            if ch.tag == XS + "sequence":
                out += elements_of(ch, seen)
            elif ch.tag == XS + "choice":
                for alt in ch:
                    if isinstance(alt.tag, str):
                        out += [dict(e, inChoice=True) for e in elements_of_one(alt, seen)]
            else:
                out += elements_of_one(ch, seen)
        return out

    def elements_of_one(ch, seen) -> List[dict]:
        if ch.tag == XS + "group":
            r = ch.get("ref")
            if r in seen or r not in groups:
                return []
            if r.endswith("_choice"):
                return [{"name": "<" + r + ">", "minOccurs": int(ch.get("minOccurs", "1")), "choice": r}]
            return elements_of(groups[r], seen + (r,))
        if ch.tag == XS + "element":
            e = {"name": ch.get("name"), "minOccurs": int(ch.get("minOccurs", "1")), "type": ch.get("type")}
            inner = ch.find(XS + "complexType")
            if inner is not None:
                items = elements_of(inner, seen)
                e["items"] = [i["name"] for i in items]
                e["itemsMin"] = min([i["minOccurs"] for i in items], default=0)
            st = ch.find(XS + "simpleType")
            if st is not None:
                ml = [int(x.get("value")) for x in st.iter(XS + "maxLength")]
                mn = [int(x.get("value")) for x in st.iter(XS + "minLength")]
                e["maxLength"] = min(ml) if ml else None
                e["minLength"] = max(mn) if mn else None
            if e["type"] in enums:
                e["enum"] = enums[e["type"]]
            # named complex types of a single group: <name>_t
            return [e]
        return []

    out = {}
    for n, g in groups.items():
        if n.endswith("_choice"):
            continue
        out[n] = elements_of(g, (n,))
    choices = {}
    for n, g in groups.items():
        if n.endswith("_choice"):
            choices[n] = [e.get("name") for e in g.iter(XS + "element")]
    # text length facets of named simple/complex lang string types
    return {"groups": out, "enums": enums, "choices": choices}


# ------------------------------------------------------------------------------------------ Lean

def emit_lean(js: Dict[str, Any], xs: Dict[str, Any]) -> str:
    o = ["/- GENERATED by py/translate/schema_tables.py from the official schema files in /repo — do not edit. -/",
         "namespace Basyx.Gen.Schemas", "",
         "structure JProp where", "  name : String", "  ref : String", "  itemRef : String", "  minItems1 : Bool", "  enumVals : List String",
         "  maxLength : Nat", "  minLength : Nat", "  isArray : Bool", "deriving Repr", "",
         "structure JDef where", "  name : String", "  props : List JProp", "  required : List String", "deriving Repr", "",
         "def jsonDefs : List JDef := ["]
    rows = []
    for n, d in js["defs"].items():
        ps = ", ".join(
            f"⟨{lstr(p['name'])}, {lstr(p['ref'] or '')}, {lstr(p['itemRef'] or '')}, {'true' if p['minItems1'] else 'false'}, "
            f"[{', '.join(lstr(e) for e in p['enum'])}], {p['maxLength'] or 0}, {p['minLength'] or 0}, {'true' if p['isArray'] else 'false'}⟩"
            for p in d["props"])
        rows.append(f"  ⟨{lstr(n)}, [{ps}], [{', '.join(lstr(r) for r in d['required'])}]⟩")
    o.append(",\n".join(rows) + "]")
    o.append("")
    o.append("def jsonEnums : List (String × List String) := [" + ", ".join(
        f"({lstr(n)}, [{', '.join(lstr(v) for v in vs)}])" for n, vs in js["enums"].items()) + "]")
    o.append("")
    o.append("structure XElem where")
    o += ["  name : String", "  minOccurs : Nat", "  items : List String", "  itemsMin : Nat", "  enumVals : List String", "  maxLength : Nat",
          "deriving Repr", "", "def xsdGroups : List (String × List XElem) := ["]
    rows = []
    for n, els in xs["groups"].items():
        es = ", ".join(
            f"⟨{lstr(e['name'])}, {e['minOccurs']}, [{', '.join(lstr(i) for i in e.get('items', []))}], {e.get('itemsMin', 0)}, "
            f"[{', '.join(lstr(v) for v in e.get('enum', []))}], {e.get('maxLength') or 0}⟩" for e in els)
        rows.append(f"  ({lstr(n)}, [{es}])")
    o.append(",\n".join(rows) + "]")
    o.append("")
    o.append("def xsdEnums : List (String × List String) := [" + ", ".join(
        f"({lstr(n)}, [{', '.join(lstr(v) for v in vs)}])" for n, vs in xs["enums"].items()) + "]")
    o.append("")
    o.append("def xsdChoices : List (String × List String) := [" + ", ".join(
        f"({lstr(n)}, [{', '.join(lstr(v) for v in vs)}])" for n, vs in xs["choices"].items()) + "]")
    o.append("end Basyx.Gen.Schemas")
    return "\n".join(o) + "\n"
