#!/usr/bin/env python3
"""Regenerate lean/Basyx/Gen/* from $VERIF_REPO (default /repo) for the given properties (default: all).
Development tool: run before committing, and automatically by ./check after a run against a scratch checkout, so that
the committed generated tables always are the ones of /repo's tree (a table left over from an evaluated seeded change once
broke the setup build of a fresh copy)."""
import importlib
import os
import random
import sys
import time

sys.path.insert(0, os.path.dirname(os.path.abspath(__file__)))
from vf import common as C  # noqa: E402


def main() -> int:
    props = [a.upper() for a in sys.argv[1:]] or [f"C{i:02d}" for i in range(1, 21)]
    bad = 0
    for p in props:
        mod = importlib.import_module(f"props.{p.lower()}")
        if not hasattr(mod, "translate"):
            continue
        ctx = C.Ctx(prop=p, tier="quick", seed=0, rng=random.Random(0), t0=time.time(), jobs=os.cpu_count() or 4)
        try:
            broken = mod.translate(ctx)
        except Exception as e:
            broken = [f"{type(e).__name__}: {e}"]
        if broken:
            bad += 1
            print(p, "broken ties:", broken)
    return 1 if bad else 0


if __name__ == "__main__":
    sys.exit(main())
