"""Collects the MANIFEST entry of every built property module (py/props/cXX.py: MANIFEST dict)."""
import importlib, os, sys
HERE = os.path.dirname(os.path.abspath(__file__))
sys.path.insert(0, HERE)
HOOK_COMMITS = []
NOTES = ("Every check: (1) regenerates extracted tables from /repo where the model has them, (2) lake build of Basyx.Props.<id> + "
         "#print axioms audit of every property theorem + forbidden-token grep, (3) correspondence run model vs implementation on "
         "generated cases, (4) property oracle on the implementation, (5) known findings, (6) evidence. Exit 2 = infrastructure error.")
_PENDING = "check not yet built in this round (work in progress; the design in DESIGN.md §6 applies)"
CHECKS = []
NOT_APPLICABLE = []
# only checks the coordinator has reviewed and seen pass are claimed (py/ready.txt, one id per line)
READY = set(open(os.path.join(HERE, "ready.txt")).read().split())
for n in range(1, 21):
    pid = f"C{n:02d}"
    path = os.path.join(HERE, "props", pid.lower() + ".py")
    if os.path.exists(path) and pid in READY:
        mod = importlib.import_module("props." + pid.lower())
        if getattr(mod, "MANIFEST", None) and not getattr(mod, "DISABLED", False):
            CHECKS.append(dict(mod.MANIFEST, id=pid))
            continue
    NOT_APPLICABLE.append({"property_id": pid, "reason": _PENDING})
ENGINES = [{
 "name": "lean4-proof+correspondence",
 "path": "check (py/run_check.py, py/props/*.py, lean/)",
 "serves_properties": [c["id"] for c in CHECKS],
 "kind_free_text": "Lean 4 theorems over hand-written/regenerated executable models; model tied to /repo on every run by a differential correspondence run through the line-protocol drivers (lean/Mains/*.lean); failing-input search by property oracles on the implementation",
}]
