HOOK_COMMITS = []
ENGINES = [{
 "name": "lean4-proof+correspondence",
 "path": "check (py/run_check.py, py/props/*.py, lean/)",
 "serves_properties": [],
 "kind_free_text": "Lean 4 theorems over hand-written/regenerated executable models; model tied to /repo on every run by a differential correspondence run through the line-protocol driver (lean/Main.lean); failing-input search by property oracles on the implementation",
}]
NOTES = ("Every check: (1) regenerates extracted tables from /repo where the model has them, (2) lake build of Basyx.Props.<id> + "
         "#print axioms audit of every property theorem + forbidden-token grep, (3) correspondence run model vs implementation on "
         "generated cases, (4) property oracle on the implementation, (5) known findings, (6) evidence. Exit 2 = infrastructure error.")
_PENDING = "check not yet built in this round (work in progress; the design in DESIGN.md §6 applies)"
CHECKS = [
 {"id": "C19",
  "text": "Lean theorems for ALL add/delete histories of the container model: bookkeeping invariant (refcounts = number of names per content, "
          "no content dropped while named), refinement of every history to the abstract map name -> (bytes, content type) with identical "
          "outputs, fresh-name/no-disturbance laws, termination of the conflict loop (pigeonhole over the injective _NNNN suffix). "
          "The model is tied to the code by an exhaustive (short) + random (long) differential run after every call.",
  "note": "sha256 assumed injective (modelled as identity); CPython dict semantics; harness/generators trusted; contents ASCII in the tie",
  "technique": "Lean 4 proof: invariant by induction over operations + refinement to an abstract map; differential correspondence with the Python class"},
]
NOT_APPLICABLE = [{"property_id": f"C{n:02d}", "reason": _PENDING} for n in range(1, 21) if f"C{n:02d}" not in {c["id"] for c in CHECKS}]
ENGINES[0]["serves_properties"] = [c["id"] for c in CHECKS]
