"""Seeded, type-directed generator of constraint-satisfying AAS object graphs (the 'C03 generator', DESIGN §4).

Built from the SPEC side (vf.meta + the constraint texts), not from the SDK's checks: every class, every optional
attribute present/absent, all XSD value types with edge pools, strings over the AASd-130 repertoire, nesting through
collections / lists / entities / operations / annotated relationships to a depth bound.
"""
from __future__ import annotations

import datetime
import decimal
import random
from typing import Any, Dict, List, Optional

from . import meta

STRINGS = ["a", "Z9", "x y", " lead", "trail ", "  ", "tab\there", "nl\nhere", "cr\rhere", "q\"uote", "back\\slash", "<tag>",
           "a&b", "]]>", "äöü", "日本", "😀", "\U0001F600x", "'", "%41", "0", "False", "null", "{}", "a" * 40]
XML_STRESS = [" ", "\t", "\n", "\r\n", " x ", "\r", "<", "&amp;", "]]>", "\U00010000"]
LANGS = ["en", "de", "en-US", "zh-Hant"]
CONTENT_TYPES = ["application/pdf", "text/plain; charset=utf-8", "image/svg+xml"]
PATHS = ["/aasx/files/a.pdf", "file:///tmp/x.txt", "rel/dir/b.bin", "https://example.org/c", "//host/share/d"]
ID_SHORTS = ["a", "B1", "Abc_def", "x9_", "Zz", "q"]


class Gen:
    def __init__(self, rng: random.Random, max_depth: int = 3, stress: bool = False, falsy_bias: float = 0.35,
                 exclude_types: Optional[List[str]] = None):
        from basyx.aas import model
        self.m = model
        self.dt = model.datatypes
        self.rng = rng
        self.max_depth = max_depth
        self.stress = stress
        self.falsy_bias = falsy_bias
        self.exclude_types = set(exclude_types or [])
        self.counter = 0
        self.stats: Dict[str, int] = {}

    # ------------------------------------------------------------------ leaves
    def hit(self, k):
        self.stats[k] = self.stats.get(k, 0) + 1

    def chance(self, p=0.5):
        return self.rng.random() < p

    def string(self, minlen=1, maxlen=64) -> str:
        pool = STRINGS + (XML_STRESS if self.stress else [])
        if getattr(self, "spec_lexical", False):
            # JSON Schema patterns are written for UTF-16 regex engines (surrogate pairs); Python's `re` cannot judge astral
            # characters against them -> kept out of the schema-validation stream (neutral zone)
            pool = [x for x in pool if all(ord(ch) < 0x10000 for ch in x)]
        s = self.rng.choice(pool)
        if len(s) < minlen:
            s = "s" * minlen
        return s[:maxlen]

    def paths(self):
        if getattr(self, "spec_lexical", False):      # RFC 8089 file URIs, as the schemas' PathType pattern demands
            return ["file:///tmp/x.txt", "file:/aasx/files/a.pdf", "file://localhost/c/d.bin"]
        return PATHS

    def uid(self, prefix="https://example.org/") -> str:
        self.counter += 1
        tail = self.rng.choice(["", "/x y", "#f", "?q=1", "ä", "+", "=", "%20"])
        return f"{prefix}{self.counter}{tail}"

    def id_short(self) -> str:
        self.counter += 1
        return f"{self.rng.choice(ID_SHORTS)}{self.counter}"

    def lss(self, cls_name: str):
        cls = getattr(self.m, cls_name, None) or getattr(self.m.base, cls_name)
        maxlen = {"MultiLanguageNameType": 64, "ShortNameTypeIEC61360": 18, "PreferredNameTypeIEC61360": 255}.get(cls_name, 1023)
        n = self.rng.randint(1, 3)
        d = {}
        for lang in self.rng.sample(LANGS, n):
            d[lang] = self.string(1, maxlen)
        return cls(d)

    def xsd_types(self):
        dt = self.dt
        types = [dt.Duration, dt.DateTime, dt.Date, dt.Time, dt.GYearMonth, dt.GYear, dt.GMonthDay, dt.GMonth, dt.GDay, dt.Boolean,
                 dt.Base64Binary, dt.HexBinary, dt.Float, dt.Double, dt.Decimal, dt.Integer, dt.Long, dt.Int, dt.Short, dt.Byte,
                 dt.NonPositiveInteger, dt.NegativeInteger, dt.NonNegativeInteger, dt.PositiveInteger, dt.UnsignedLong,
                 dt.UnsignedInt, dt.UnsignedShort, dt.UnsignedByte, dt.AnyURI, dt.String, dt.NormalizedString]
        return [t for t in types if t.__name__ not in self.exclude_types and t in dt.XSD_TYPE_NAMES]

    def xsd_type(self):
        dt = self.dt
        types = [dt.Duration, dt.DateTime, dt.Date, dt.Time, dt.GYearMonth, dt.GYear, dt.GMonthDay, dt.GMonth, dt.GDay, dt.Boolean,
                 dt.Base64Binary, dt.HexBinary, dt.Float, dt.Double, dt.Decimal, dt.Integer, dt.Long, dt.Int, dt.Short, dt.Byte,
                 dt.NonPositiveInteger, dt.NegativeInteger, dt.NonNegativeInteger, dt.PositiveInteger, dt.UnsignedLong,
                 dt.UnsignedInt, dt.UnsignedShort, dt.UnsignedByte, dt.AnyURI, dt.String, dt.NormalizedString]
        types = [t for t in types if t.__name__ not in self.exclude_types and t in dt.XSD_TYPE_NAMES]
        # xs:string / ints / bool more often (they carry the falsy edge values)
        if self.chance(0.45):
            return self.rng.choice([dt.String, dt.Int, dt.Boolean, dt.Double, dt.Integer, dt.Base64Binary])
        return self.rng.choice(types)

    def tz(self):
        r = self.rng.random()
        if r < 0.4:
            return None
        if r < 0.6:
            return datetime.timezone.utc
        mins = self.rng.choice([60, -60, 330, -570, 0, 720, -720, 1, -1, 839, -839])
        return datetime.timezone(datetime.timedelta(minutes=mins))

    def typed_value(self, t) -> Any:
        dt = self.dt
        rng = self.rng
        falsy = self.chance(self.falsy_bias)
        n = t.__name__
        self.hit("typed:" + n + (":falsy" if falsy else ""))
        ranges = {"Long": (-2**63, 2**63 - 1), "Int": (-2**31, 2**31 - 1), "Short": (-2**15, 2**15 - 1), "Byte": (-128, 127),
                  "NonPositiveInteger": (-10**30, 0), "NegativeInteger": (-10**30, -1), "NonNegativeInteger": (0, 10**30),
                  "PositiveInteger": (1, 10**30), "UnsignedLong": (0, 2**64 - 1), "UnsignedInt": (0, 2**32 - 1),
                  "UnsignedShort": (0, 2**16 - 1), "UnsignedByte": (0, 255), "int": (-10**40, 10**40)}
        if n in ranges:
            lo, hi = ranges[n]
            if falsy and lo <= 0 <= hi:
                return t(0)
            return t(rng.choice([lo, hi, max(lo, min(hi, 1)), max(lo, min(hi, -1)), rng.randint(max(lo, -10**6), min(hi, 10**6))]))
        if t is dt.Boolean:
            return False if falsy else rng.choice([True, False])
        if t in (dt.String, dt.AnyURI):
            return t("" if falsy else self.string(0))
        if t is dt.NormalizedString:
            return t("" if falsy else rng.choice(["a b", " x ", "äö", "n"]))
        if t in (dt.Base64Binary, dt.HexBinary):
            return t(b"" if falsy else rng.choice([b"\x00", b"abc", b"\xff\xfe\x00\x01", bytes(range(7))]))
        if t in (dt.Float, dt.Double):
            if falsy:
                return t(0.0)
            return t(rng.choice([1.5, -2.25, 1e300 if t is dt.Double else 1e30, 5e-324, float("inf"), float("-inf"), float("nan"),
                                 0.1, -0.0, 123456789.125]))
        if t is dt.Decimal:
            return decimal.Decimal("0" if falsy else rng.choice(["1.5", "-0.001", "12345678901234567890.123456789", "100", "-7",
                                                                  # more significant digits than the default arithmetic context keeps (28)
                                                                  "123456789012345678901234567891", "-0.1000000000000000000000000000001",
                                                                  "1.00", "1E+3", "0.000000000000000000000000000000000001"]))
        if t is dt.Duration:
            if falsy:
                return dt.Duration()
            sign = rng.choice([1, -1])
            return dt.Duration(years=sign * rng.choice([0, 1, 12]), months=sign * rng.choice([0, 5]), days=sign * rng.choice([0, 3, 40]),
                               hours=sign * rng.choice([0, 7]), minutes=sign * rng.choice([0, 59]),
                               seconds=sign * rng.choice([0, 1, 30]), microseconds=sign * rng.choice([0, 500000, 1000]))
        if t is dt.DateTime:
            return datetime.datetime(rng.choice([1, 1999, 2024, 9999]), rng.randint(1, 12), rng.randint(1, 28), rng.randint(0, 23),
                                     rng.randint(0, 59), rng.randint(0, 59), rng.choice([0, 0, 500000, 1000, 123000]), self.tz())
        if t is dt.Time:
            return datetime.time(rng.randint(0, 23), rng.randint(0, 59), rng.randint(0, 59), rng.choice([0, 0, 500000, 250000]), self.tz())
        if t is dt.Date:
            return dt.Date(rng.choice([1000, 1999, 2024, 9999]), rng.randint(1, 12), rng.randint(1, 28), self.tz_small())
        if t is dt.GYearMonth:
            return dt.GYearMonth(rng.choice([1000, 2024, 9999]), rng.randint(1, 12), self.tz_small())
        if t is dt.GYear:
            return dt.GYear(rng.choice([1000, 2024, 9999]), self.tz_small())
        if t is dt.GMonthDay:
            return dt.GMonthDay(rng.randint(1, 12), rng.randint(1, 28), self.tz_small())
        if t is dt.GMonth:
            return dt.GMonth(rng.randint(1, 12), self.tz_small())
        if t is dt.GDay:
            return dt.GDay(rng.randint(1, 31), self.tz_small())
        raise ValueError(t)

    # ------------------------------------------------------------------ the deterministic "zoo" of leaf values
    def edge_values(self, t) -> list:
        """every edge value of type `t` the random generator can draw, plus the fixed corner cases of the date/time family —
        a deterministic list, so that each of them is exercised on EVERY run (see `zoo_submodel`)"""
        dt = self.dt
        n = t.__name__
        tzs = [None, datetime.timezone.utc] + [datetime.timezone(datetime.timedelta(minutes=m)) for m in (60, -60, 330, -570, 1, -1, -59, 59, 839, -839)]
        # (round 7) date-like values take zones over the whole range -14:00..+14:00 as well (the zone of a date beyond +12:00 used to be
        # wrapped; repaired by 286e7ab, and the zoo now pins it)
        tzs_small = [None] + [datetime.timezone(datetime.timedelta(minutes=m)) for m in (0, 60, -60, 330, -30, -59, 45, 345, 719, -719, 780, -720)] \
            + [datetime.timezone(datetime.timedelta(minutes=m)) for m in (840, -840, 765, 720, -779)]
        ranges = {"Long": (-2**63, 2**63 - 1), "Int": (-2**31, 2**31 - 1), "Short": (-2**15, 2**15 - 1), "Byte": (-128, 127),
                  "NonPositiveInteger": (-10**30, 0), "NegativeInteger": (-10**30, -1), "NonNegativeInteger": (0, 10**30),
                  "PositiveInteger": (1, 10**30), "UnsignedLong": (0, 2**64 - 1), "UnsignedInt": (0, 2**32 - 1),
                  "UnsignedShort": (0, 2**16 - 1), "UnsignedByte": (0, 255), "int": (-10**40, 10**40)}
        if n in ranges:
            lo, hi = ranges[n]
            return [t(v) for v in dict.fromkeys([lo, hi, max(lo, min(hi, 0)), max(lo, min(hi, 1)), max(lo, min(hi, -1)), max(lo, min(hi, 20))])]
        if t is dt.Boolean:
            return [False, True]
        if t in (dt.String, dt.AnyURI):
            return [t(x) for x in ("", " x ", "a\tb", "cr\rlf\nend", "<&]]>", "äöü€😀", "  ")]
        if t is dt.NormalizedString:
            return [t(x) for x in ("", "a b", " x ", "äö", "   ")]
        if t in (dt.Base64Binary, dt.HexBinary):
            return [t(x) for x in (b"", b"\x00", b"abc", b"\xff\xfe\x00\x01", bytes(range(7)), bytes(range(256)))]
        if t in (dt.Float, dt.Double):
            return [t(x) for x in (0.0, -0.0, 1.5, -2.25, 20.0, 1e300 if t is dt.Double else 1e30, 5e-324, float("inf"), float("-inf"),
                                   float("nan"), 0.1, 123456789.125) if not (x != x and getattr(self, "no_nan", False))]
        if t is dt.Decimal:
            return [decimal.Decimal(x) for x in ("0", "1.5", "-0.001", "20.00", "12345678901234567890.123456789", "100", "-7",
                                                 "123456789012345678901234567891", "-0.1000000000000000000000000000001", "1.00", "1E+3",
                                                 "0.000000000000000000000000000000000001", "3.14159265358979323846264338327950288")]
        if t is dt.Duration:
            return [dt.Duration(), dt.Duration(years=1), dt.Duration(months=5, days=3), dt.Duration(seconds=30, microseconds=500000),
                    dt.Duration(years=-12, months=-5, days=-40, hours=-7, minutes=-59, seconds=-1, microseconds=-1000),
                    dt.Duration(days=40, hours=7), dt.Duration(microseconds=1)]
        if t is dt.DateTime:
            return [datetime.datetime(y, mo, d, h, mi, s, us, z) for (y, mo, d, h, mi, s, us), z in
                    zip([(1, 1, 1, 0, 0, 0, 0), (9999, 12, 28, 23, 59, 59, 123000), (2024, 2, 29, 12, 30, 0, 500000), (1999, 12, 31, 23, 59, 59, 999999),
                         (2024, 6, 15, 1, 2, 3, 1000), (2000, 1, 1, 0, 0, 0, 0)] * 2, tzs)]
        if t is dt.Time:
            return [datetime.time(h, mi, s, us, z) for (h, mi, s, us), z in
                    zip([(0, 0, 0, 0), (23, 59, 59, 999999), (12, 0, 0, 250000), (1, 2, 3, 0)] * 3, tzs)]
        if t is dt.Date:
            return [dt.Date(y, mo, d, z) for (y, mo, d), z in zip([(1000, 1, 1), (9999, 12, 28), (2024, 2, 29), (1999, 12, 31)] * 5, tzs_small)]
        if t is dt.GYearMonth:
            return [dt.GYearMonth(y, mo, z) for (y, mo), z in zip([(1000, 1), (9999, 12), (2024, 5)] * 6, tzs_small)]
        if t is dt.GYear:
            return [dt.GYear(y, z) for y, z in zip([1000, 9999, 2024] * 6, tzs_small)]
        if t is dt.GMonthDay:
            return [dt.GMonthDay(mo, d, z) for (mo, d), z in zip([(1, 1), (12, 31), (2, 29), (6, 15)] * 5, tzs_small)]
        if t is dt.GMonth:
            return [dt.GMonth(mo, z) for mo, z in zip([1, 12, 5] * 6, tzs_small)]
        if t is dt.GDay:
            return [dt.GDay(d, z) for d, z in zip([1, 31, 15] * 6, tzs_small)]
        raise ValueError(t)

    def zoo_submodel(self):
        """one submodel that holds every edge value of every XSD type once as a Property value (and, type by type, once as a
        Range bound, a Qualifier value and an Extension value)"""
        m, dt = self.m, self.dt
        els, quals, exts = [], [], []
        k = 0
        for t in self.xsd_types():
            vals = self.edge_values(t)
            for v in vals:
                k += 1
                els.append(m.Property(f"zoo{k}", t, v))
            k += 1
            if t not in (dt.Float, dt.Double) or True:
                els.append(m.Range(f"zoo{k}", t, vals[0], vals[-1]))
            quals.append(m.Qualifier(f"zq{k}", t, vals[len(vals) // 2]))
            exts.append(m.Extension(f"ze{k}", t, vals[-1]))
        return m.Submodel("urn:vf:zoo", els, id_short="zoo", qualifier=quals, extension=exts)

    def zoo_structures(self):
        """one submodel in which every container class holds members of every element class (two of each where the container
        allows it): lists of every item class, collections, entities, operations (all three variable sets) and annotated
        relationships — the structural counterpart of `zoo_submodel`, for exhaustive per-position sweeps"""
        m, dt = self.m, self.dt
        k = [0]

        def nid(prefix="z"):
            k[0] += 1
            return f"{prefix}{k[0]}"

        def leaf(cls, ids):
            kw = {"id_short": ids}
            if cls == "Property":
                return m.Property(ids, dt.Int, 1)
            if cls == "MultiLanguageProperty":
                return m.MultiLanguageProperty(ids, m.MultiLanguageTextType({"en": "t"}))
            if cls == "Range":
                return m.Range(ids, dt.Int, 1, 2)
            if cls == "Blob":
                return m.Blob(ids, "text/plain", b"x")
            if cls == "File":
                return m.File(ids, "text/plain", "/f.txt")
            if cls == "ReferenceElement":
                return m.ReferenceElement(ids, self.external_reference())
            if cls == "Capability":
                return m.Capability(ids)
            if cls == "RelationshipElement":
                return m.RelationshipElement(ids, self.external_reference(), self.external_reference())
            if cls == "BasicEventElement":
                return m.BasicEventElement(ids, self.model_reference("Submodel"), m.Direction.OUTPUT, m.StateOfEvent.ON)
            if cls == "AnnotatedRelationshipElement":
                return m.AnnotatedRelationshipElement(ids, self.external_reference(), self.external_reference(),
                                                      annotation=[m.Property("p", dt.Int, 1), m.Property("q", dt.Int, 2)])
            if cls == "SubmodelElementCollection":
                return m.SubmodelElementCollection(ids, [m.Property("p", dt.Int, 1), m.Property("q", dt.Int, 2)])
            if cls == "SubmodelElementList":
                return m.SubmodelElementList(ids, m.Property, [m.Property(None, dt.Int, 1), m.Property(None, dt.Int, 2)],
                                             value_type_list_element=dt.Int)
            if cls == "Entity":
                return m.Entity(ids, m.EntityType.CO_MANAGED_ENTITY, [m.Property("p", dt.Int, 1), m.Property("q", dt.Int, 2)])
            if cls == "Operation":
                return m.Operation(ids, [m.Property("i1", dt.Int, 1), m.Property("i2", dt.Int, 2)], [m.Property("o1", dt.Int, 1)],
                                   [m.Property("io1", dt.Int, 1)])
            raise ValueError(cls)
        els = []
        for cls in meta.SUBMODEL_ELEMENT_CLASSES:
            els.append(m.SubmodelElementList(nid("l"), getattr(m, cls), [leaf(cls, None), leaf(cls, None)],
                                             value_type_list_element=dt.Int if cls in ("Property", "Range") else None))
        els.append(m.SubmodelElementCollection(nid("c"), [leaf(c, nid()) for c in meta.SUBMODEL_ELEMENT_CLASSES]))
        els.append(m.Entity(nid("e"), m.EntityType.CO_MANAGED_ENTITY, [leaf(c, nid()) for c in meta.SUBMODEL_ELEMENT_CLASSES]))
        els.append(m.Operation(nid("o"), [leaf(c, nid()) for c in meta.SUBMODEL_ELEMENT_CLASSES[:5]],
                               [leaf(c, nid()) for c in meta.SUBMODEL_ELEMENT_CLASSES[5:10]],
                               [leaf(c, nid()) for c in meta.SUBMODEL_ELEMENT_CLASSES[10:]]))
        els.append(m.AnnotatedRelationshipElement(nid("a"), self.external_reference(), self.external_reference(),
                                                  annotation=[leaf(c, nid()) for c in meta.DATA_ELEMENT_CLASSES]))
        # ... and a complete IEC 61360 data specification (every optional attribute present), qualifiers, extensions, a description
        b = m.base
        iec = b.DataSpecificationIEC61360(
            preferred_name=b.PreferredNameTypeIEC61360({"en": "name", "de": "Name"}), data_type=b.DataTypeIEC61360.STRING,
            definition=b.DefinitionTypeIEC61360({"en": "definition"}), short_name=b.ShortNameTypeIEC61360({"en": "short"}),
            unit="m", unit_id=self.external_reference(), source_of_definition="src", symbol="s", value_format="fmt",
            value_list={m.ValueReferencePair("v1", self.external_reference()), m.ValueReferencePair("v2", self.external_reference())},
            value="val", level_types={b.IEC61360LevelType.MIN, b.IEC61360LevelType.MAX})
        return m.Submodel("urn:vf:structures", els, id_short="structures",
                          display_name=m.MultiLanguageNameType({"en": "structures"}),
                          description=m.MultiLanguageTextType({"en": "every container with every element", "de": "alles"}),
                          administration=m.AdministrativeInformation(version="1", revision="2"),
                          semantic_id=self.external_reference(), supplemental_semantic_id=[self.external_reference()],
                          qualifier=[m.Qualifier("q1", dt.Int, 1, self.external_reference()), m.Qualifier("q2", dt.String)],
                          extension=[m.Extension("e1", dt.String, "x", [self.model_reference("Submodel")])],
                          embedded_data_specifications=[m.EmbeddedDataSpecification(self.external_reference(), iec)])

    def tz_small(self):
        r = self.rng.random()
        if r < 0.5:
            return None
        return datetime.timezone(datetime.timedelta(minutes=self.rng.choice([0, 60, -60, 330, 719, -719])))

    # ------------------------------------------------------------------ references
    def key(self, types, numeric=False):
        m = self.m
        return m.Key(self.rng.choice(types), str(self.rng.randint(0, 9)) if numeric else self.uid("urn:k:"))

    def external_reference(self, depth=0):
        m = self.m
        n = self.rng.randint(1, 3)
        keys = [m.Key(m.KeyTypes.GLOBAL_REFERENCE, self.uid("urn:g:"))]
        for i in range(1, n):
            last = i == n - 1
            keys.append(m.Key(m.KeyTypes.GLOBAL_REFERENCE if last and self.chance() else m.KeyTypes.FRAGMENT_REFERENCE
                              if not last or True else m.KeyTypes.GLOBAL_REFERENCE, self.uid("urn:f:")))
        # AASd-124: last key of an ExternalReference is generic globally identifiable or a generic fragment key
        rs = self.reference(depth + 1) if depth < 1 and self.chance(0.2) else None
        return m.ExternalReference(tuple(keys), rs)

    def model_reference(self, target="Submodel", depth=0):
        m = self.m
        KT = m.KeyTypes
        first = {"Submodel": KT.SUBMODEL, "AssetAdministrationShell": KT.ASSET_ADMINISTRATION_SHELL,
                 "ConceptDescription": KT.CONCEPT_DESCRIPTION}.get(target, KT.SUBMODEL)
        keys = [m.Key(first, self.uid())]
        type_ = getattr(m, target, m.Submodel)
        if target == "Referable":
            keys = [m.Key(KT.SUBMODEL, self.uid())]
            type_ = m.Submodel
            r = self.rng.random()
            if r < 0.6:
                chain = self.rng.choice([[KT.PROPERTY], [KT.SUBMODEL_ELEMENT_COLLECTION, KT.PROPERTY],
                                         [KT.SUBMODEL_ELEMENT_LIST, KT.PROPERTY], [KT.ENTITY, KT.FILE], [KT.BLOB, KT.FRAGMENT_REFERENCE],
                                         [KT.OPERATION], [KT.SUBMODEL_ELEMENT_LIST, KT.SUBMODEL_ELEMENT_LIST, KT.RANGE]])
                prev = None
                for kt in chain:
                    numeric = prev == KT.SUBMODEL_ELEMENT_LIST
                    keys.append(m.Key(kt, str(self.rng.randint(0, 12)) if numeric else self.id_short()))
                    prev = kt
                type_ = m.Referable
        rs = self.reference(depth + 1) if depth < 1 and self.chance(0.15) else None
        return m.ModelReference(tuple(keys), type_, rs)

    def reference(self, depth=0):
        return self.external_reference(depth) if self.chance(0.6) else self.model_reference("Referable", depth)

    # ------------------------------------------------------------------ helper classes
    def opt(self, f, p=0.5):
        return f() if self.chance(p) else None

    def has_semantics_kwargs(self):
        sem = self.opt(self.reference)
        supp = [self.reference() for _ in range(self.rng.randint(0, 2))] if sem is not None else []
        # (round 8) an ordered list may hold EQUAL entries: about every fourth non-empty list repeats its first reference at the
        # end (an equal, separately built object).  Decided from the content, not from the generator's stream, so that all
        # other generated data stay what they were.
        if supp and sum(map(ord, repr(supp[0]))) % 4 == 0:
            import copy
            supp.append(copy.deepcopy(supp[0]))
            self.hit("supplemental:repeated-entry")
        return {"semantic_id": sem, "supplemental_semantic_id": supp}

    def qualifier(self, type_: str):
        m = self.m
        vt = self.xsd_type()
        return m.Qualifier(type_, vt, self.opt(lambda: self.typed_value(vt), 0.7), self.opt(self.reference, 0.3),
                           self.rng.choice(list(m.QualifierKind)), **self.has_semantics_kwargs())

    def qualifiers(self):
        return [self.qualifier(f"q{i}{self.rng.choice(['', ' x', 'Ä'])}") for i in range(self.rng.randint(0, 2))]

    def extension(self, name: str):
        m = self.m
        vt = self.opt(self.xsd_type, 0.7)
        value = self.opt(lambda: self.typed_value(vt), 0.7) if vt is not None else None
        refers = [self.model_reference("Referable") for _ in range(self.rng.randint(0, 2))]
        return m.Extension(name, vt, value, refers, **self.has_semantics_kwargs())

    def extensions(self):
        return [self.extension(f"e{i}") for i in range(self.rng.randint(0, 2))]

    def specific_asset_id(self):
        m = self.m
        self.counter += 1
        # names made distinct: equal specific asset ids are one element of the (unordered) collection (neutral zone)
        return m.SpecificAssetId(f"{self.string(1, 50)}#{self.counter}", self.string(1, 100), self.opt(self.external_reference, 0.4),
                                 **self.has_semantics_kwargs())

    def specific_asset_ids(self, lo: int, hi: int = 2):
        """a collection of distinct specific asset ids; now and then two members agree in name, value and subject and differ
        only in their semantic id (or supplemental semantic ids) — still two different elements of the collection"""
        m = self.m
        out = [self.specific_asset_id() for _ in range(self.rng.randint(lo, hi))]
        if out and self.rng.random() < 0.35:
            a = out[0]
            self.counter += 1
            sem = m.ExternalReference((m.Key(m.KeyTypes.GLOBAL_REFERENCE, f"urn:twin:{self.counter}"),))
            if self.rng.random() < 0.5 or a.semantic_id is None:
                twin = m.SpecificAssetId(a.name, a.value, a.external_subject_id, semantic_id=sem,
                                         supplemental_semantic_id=list(a.supplemental_semantic_id))
            else:
                twin = m.SpecificAssetId(a.name, a.value, a.external_subject_id, semantic_id=a.semantic_id,
                                         supplemental_semantic_id=list(a.supplemental_semantic_id) + [sem])
            out.append(twin)
        return out

    def administration(self):
        m = self.m
        version = self.opt(lambda: self.rng.choice(["0", "1", "12", "9999"]))
        revision = self.opt(lambda: self.rng.choice(["0", "3", "10"])) if version is not None else None
        return m.AdministrativeInformation(version=version, revision=revision, creator=self.opt(self.reference, 0.3),
                                           template_id=self.opt(lambda: self.uid("urn:t:"), 0.3),
                                           embedded_data_specifications=self.eds_list(0.2))

    def value_reference_pair(self):
        return self.m.ValueReferencePair(self.string(1, 100), self.reference())

    def iec61360(self):
        m = self.m
        b = m.base
        vl = self.opt(lambda: {self.value_reference_pair() for _ in range(self.rng.randint(1, 2))}, 0.3)
        kwargs = dict(
            preferred_name=self.lss("PreferredNameTypeIEC61360"),
            data_type=self.opt(lambda: self.rng.choice(list(b.DataTypeIEC61360))),
            definition=self.opt(lambda: self.lss("DefinitionTypeIEC61360")),
            short_name=self.opt(lambda: self.lss("ShortNameTypeIEC61360")),
            unit=self.opt(lambda: self.string(1, 50)), unit_id=self.opt(self.reference, 0.3),
            source_of_definition=self.opt(lambda: self.string(1, 50)), symbol=self.opt(lambda: self.string(1, 20)),
            value_format=self.opt(lambda: self.string(1, 20)), value_list=vl,
            value=self.opt(lambda: self.string(1, 100)),
            level_types=set(self.rng.sample(list(b.IEC61360LevelType), self.rng.randint(0, 4))))
        return b.DataSpecificationIEC61360(**kwargs)

    def eds_list(self, p=0.3):
        if not self.chance(p):
            return []
        return [self.m.EmbeddedDataSpecification(self.external_reference(), self.iec61360())
                for _ in range(self.rng.randint(1, 2))]

    def referable_kwargs(self, id_short=True):
        return {"id_short": self.id_short() if id_short else None,
                "display_name": self.opt(lambda: self.lss("MultiLanguageNameType"), 0.3),
                "category": self.opt(lambda: self.rng.choice(["PARAMETER", "CONSTANT", "VARIABLE", "x y"]), 0.3),
                "description": self.opt(lambda: self.lss("MultiLanguageTextType"), 0.3)}

    def sme_kwargs(self, in_list=False, list_sem=None):
        kw = self.referable_kwargs(id_short=not in_list)
        if in_list:
            # AASd-107/-114: children of a list share the list's semanticIdListElement if they have a semantic id
            sem = list_sem if self.chance(0.6) else None
            kw.update({"semantic_id": sem, "supplemental_semantic_id": [self.reference()] if sem is not None and self.chance(0.3) else []})
        else:
            kw.update(self.has_semantics_kwargs())
        kw["qualifier"] = self.qualifiers()
        kw["extension"] = self.extensions()
        kw["embedded_data_specifications"] = self.eds_list(0.15)
        return kw

    # ------------------------------------------------------------------ submodel elements
    def element(self, depth: int, cls_name: Optional[str] = None, in_list=False, list_sem=None, value_type=None,
                data_only=False):
        m = self.m
        if cls_name is None:
            pool = meta.DATA_ELEMENT_CLASSES if (data_only or depth >= self.max_depth) else meta.SUBMODEL_ELEMENT_CLASSES
            if depth >= self.max_depth and not data_only:
                pool = pool + ["Capability", "RelationshipElement", "BasicEventElement"]
            cls_name = self.rng.choice(pool)
        self.hit("class:" + cls_name)
        kw = self.sme_kwargs(in_list, list_sem)
        ids = kw.pop("id_short")
        d = depth + 1
        if cls_name == "Property":
            vt = value_type or self.xsd_type()
            return m.Property(ids, vt, self.opt(lambda: self.typed_value(vt), 0.8), self.opt(self.reference, 0.3), **kw)
        if cls_name == "MultiLanguageProperty":
            return m.MultiLanguageProperty(ids, self.opt(lambda: self.lss("MultiLanguageTextType"), 0.7), self.opt(self.reference, 0.3), **kw)
        if cls_name == "Range":
            vt = value_type or self.xsd_type()
            return m.Range(ids, vt, self.opt(lambda: self.typed_value(vt), 0.7), self.opt(lambda: self.typed_value(vt), 0.7), **kw)
        if cls_name == "Blob":
            return m.Blob(ids, self.rng.choice(CONTENT_TYPES), self.opt(lambda: self.rng.choice([b"", b"\x00\x01", b"hello"]), 0.8), **kw)
        if cls_name == "File":
            return m.File(ids, self.rng.choice(CONTENT_TYPES), self.opt(lambda: self.rng.choice(self.paths()), 0.8), **kw)
        if cls_name == "ReferenceElement":
            return m.ReferenceElement(ids, self.opt(self.reference, 0.7), **kw)
        if cls_name == "Capability":
            return m.Capability(ids, **kw)
        if cls_name == "RelationshipElement":
            return m.RelationshipElement(ids, self.reference(), self.reference(), **kw)
        if cls_name == "AnnotatedRelationshipElement":
            ann = [self.element(d, data_only=True) for _ in range(self.rng.randint(0, 2))]
            return m.AnnotatedRelationshipElement(ids, self.reference(), self.reference(), annotation=ann, **kw)
        if cls_name == "SubmodelElementCollection":
            return m.SubmodelElementCollection(ids, [self.element(d) for _ in range(self.rng.randint(0, 3))], **kw)
        if cls_name == "SubmodelElementList":
            child_cls = self.rng.choice(meta.DATA_ELEMENT_CLASSES + (["SubmodelElementCollection", "SubmodelElementList", "Entity"]
                                                                      if d < self.max_depth else []))
            sem = self.opt(self.reference, 0.5)
            # AASd-109 demands the value type for lists of Property/Range; it is optional (and meaningless, but legal) for the rest
            vt = self.xsd_type() if child_cls in ("Property", "Range") or self.chance(0.3) else None
            children = [self.element(d, child_cls, in_list=True, list_sem=sem, value_type=vt) for _ in range(self.rng.randint(0, 3))]
            return m.SubmodelElementList(ids, getattr(m, child_cls), children, semantic_id_list_element=sem,
                                         value_type_list_element=vt, order_relevant=self.chance(0.6), **kw)
        if cls_name == "Operation":
            return m.Operation(ids, [self.element(d) for _ in range(self.rng.randint(0, 2))],
                               [self.element(d) for _ in range(self.rng.randint(0, 2))],
                               [self.element(d) for _ in range(self.rng.randint(0, 1))], **kw)
        if cls_name == "Entity":
            self_managed = self.chance()
            gid = self.uid("urn:asset:") if self_managed and self.chance(0.7) else None
            sids = self.specific_asset_ids(0 if gid else 1) if self_managed else []
            return m.Entity(ids, m.EntityType.SELF_MANAGED_ENTITY if self_managed else m.EntityType.CO_MANAGED_ENTITY,
                            [self.element(d) for _ in range(self.rng.randint(0, 2))], gid, sids, **kw)
        if cls_name == "BasicEventElement":
            direction = self.rng.choice(list(m.Direction))
            return m.BasicEventElement(
                ids, self.model_reference("Referable"), direction, self.rng.choice(list(m.StateOfEvent)),
                self.opt(lambda: self.string(1, 255), 0.4), self.opt(self.model_reference, 0.3),
                self.opt(lambda: datetime.datetime(2024, 2, 29, 23, 59, 59, self.rng.choice([0, 1000]), datetime.timezone.utc), 0.4),
                self.opt(lambda: self.dt.Duration(seconds=self.rng.choice([0, 5, 90])), 0.4),
                self.opt(lambda: self.dt.Duration(minutes=self.rng.choice([0, 1]), days=self.rng.choice([0, 2])), 0.4)
                if direction is m.Direction.OUTPUT else None, **kw)
        raise ValueError(cls_name)

    # ------------------------------------------------------------------ identifiables
    def submodel(self, n_elements=None):
        m = self.m
        kw = self.referable_kwargs(id_short=self.chance(0.7))
        kw.update(self.has_semantics_kwargs())
        n = self.rng.randint(0, 4) if n_elements is None else n_elements
        return m.Submodel(self.uid(), [self.element(1) for _ in range(n)], administration=self.opt(self.administration, 0.4),
                          qualifier=self.qualifiers(), kind=self.rng.choice(list(m.ModellingKind)), extension=self.extensions(),
                          embedded_data_specifications=self.eds_list(0.2), **kw)

    def asset_information(self):
        m = self.m
        gid = self.opt(lambda: self.uid("urn:asset:"), 0.6)
        sids = self.specific_asset_ids(0 if gid else 1)
        return m.AssetInformation(self.rng.choice(list(m.AssetKind)), gid, sids, self.opt(lambda: self.uid("urn:type:"), 0.3),
                                  self.opt(lambda: m.Resource(self.rng.choice(self.paths()), self.opt(lambda: self.rng.choice(CONTENT_TYPES))), 0.3))

    def shell(self, submodels=()):
        m = self.m
        kw = self.referable_kwargs(id_short=self.chance(0.7))
        refs = {m.ModelReference.from_referable(s) for s in submodels}
        if self.chance(0.3):
            refs.add(self.model_reference("Submodel"))
        return m.AssetAdministrationShell(self.asset_information(), self.uid(), administration=self.opt(self.administration, 0.4),
                                          submodel=refs, derived_from=self.opt(lambda: self.model_reference("AssetAdministrationShell"), 0.3),
                                          embedded_data_specifications=self.eds_list(0.2), extension=self.extensions(), **kw)

    def concept_description(self):
        m = self.m
        kw = self.referable_kwargs(id_short=self.chance(0.7))
        return m.ConceptDescription(self.uid(), {self.reference() for _ in range(self.rng.randint(0, 2))},
                                    administration=self.opt(self.administration, 0.4),
                                    embedded_data_specifications=self.eds_list(0.6), extension=self.extensions(), **kw)

    def store(self, n_sm=None, n_aas=None, n_cd=None):
        m = self.m
        st = m.DictObjectStore()
        sms = [self.submodel() for _ in range(self.rng.randint(0, 2) if n_sm is None else n_sm)]
        for s in sms:
            st.add(s)
        for _ in range(self.rng.randint(0, 2) if n_aas is None else n_aas):
            st.add(self.shell(self.rng.sample(sms, self.rng.randint(0, len(sms)))))
        for _ in range(self.rng.randint(0, 2) if n_cd is None else n_cd):
            st.add(self.concept_description())
        return st
