"""Tree descriptions shared by C07 and C17: one description is sent to the Lean model and used to build the real objects.

A description is a JSON list  [class name, id, id_short | None, source, [children...], slots?]
  * children are in the order `for ns in obj.namespace_element_sets (id_short sets): for x in ns`;
  * for an Operation `slots` (same length as children, non-decreasing) says which of input/output/in-output
    variables a child goes into; it is dropped from the line sent to the model;
  * children of a SubmodelElementList are described with id_short None; `build` writes the id_short the SDK
    generated for them into the description (it is read off the real object, never guessed).
Nodes are addressed by their path = tuple of child positions.
"""
from __future__ import annotations

import random
from typing import Any, Dict, List, Optional, Tuple

LEAVES = ["Property", "MultiLanguageProperty", "Range", "Blob", "File", "ReferenceElement", "Capability",
          "BasicEventElement", "RelationshipElement"]
DATA_ELEMENTS = ["Property", "MultiLanguageProperty", "Range", "Blob", "File", "ReferenceElement"]
CONTAINERS = ["SubmodelElementCollection", "SubmodelElementList", "Entity", "Operation", "AnnotatedRelationshipElement"]
ELEMENTS = LEAVES + CONTAINERS
NAMESPACES = ["AssetAdministrationShell", "Submodel"] + CONTAINERS
IDENTIFIABLES = ["AssetAdministrationShell", "ConceptDescription", "Submodel"]

# the specification's table: class -> KeyTypes member name (written from the metamodel, not from KEY_TYPES_CLASSES)
SPEC_KEY_TYPE = {
    "AssetAdministrationShell": "ASSET_ADMINISTRATION_SHELL", "ConceptDescription": "CONCEPT_DESCRIPTION",
    "Submodel": "SUBMODEL", "SubmodelElementCollection": "SUBMODEL_ELEMENT_COLLECTION",
    "SubmodelElementList": "SUBMODEL_ELEMENT_LIST", "Entity": "ENTITY", "Operation": "OPERATION",
    "AnnotatedRelationshipElement": "ANNOTATED_RELATIONSHIP_ELEMENT", "RelationshipElement": "RELATIONSHIP_ELEMENT",
    "Property": "PROPERTY", "MultiLanguageProperty": "MULTI_LANGUAGE_PROPERTY", "Range": "RANGE", "Blob": "BLOB",
    "File": "FILE", "ReferenceElement": "REFERENCE_ELEMENT", "Capability": "CAPABILITY",
    "BasicEventElement": "BASIC_EVENT_ELEMENT",
}

ID_SHORTS = ["a", "b", "A", "x1", "a_1", "list", "generated_submodel_list_hack_0", "N0", "zz"]


def model_desc(d) -> List[Any]:
    """The description as sent to the model (without slots)."""
    return [d[0], d[1], d[2], d[3], [model_desc(c) for c in d[4]]]


def nodes_of(d, path=()) -> List[Tuple[Tuple[int, ...], Any]]:
    out = [(path, d)]
    for i, c in enumerate(d[4]):
        out += nodes_of(c, path + (i,))
    return out


def node_at(d, path):
    for i in path:
        d = d[4][i]
    return d


def _ref(model):
    return model.ExternalReference((model.Key(model.KeyTypes.GLOBAL_REFERENCE, "urn:vf:ref"),))


def build(d, objs: Optional[Dict[Tuple[int, ...], Any]] = None, path=()) -> Any:
    """Build the real object for a description (children first); fills `objs[path] = object`; sets sources; writes
    generated id_shorts of list children back into the description."""
    from basyx.aas import model
    if objs is None:
        objs = {}
    kind, ident, id_short, source, children = d[0], d[1], d[2], d[3], d[4]
    kids = [build(c, objs, path + (i,)) for i, c in enumerate(children)]
    Int = model.datatypes.Int
    if kind == "Submodel":
        o = model.Submodel(ident, kids, id_short=id_short)
    elif kind == "AssetAdministrationShell":
        o = model.AssetAdministrationShell(model.AssetInformation(global_asset_id="urn:vf:asset"), ident, id_short=id_short)
    elif kind == "ConceptDescription":
        o = model.ConceptDescription(ident, id_short=id_short)
    elif kind == "SubmodelElementCollection":
        o = model.SubmodelElementCollection(id_short, kids)
    elif kind == "SubmodelElementList":
        ck = children[0][0] if children else (d[5] if len(d) > 5 and d[5] else "Property")
        cls = getattr(model, ck)
        o = model.SubmodelElementList(id_short, cls, kids,
                                      value_type_list_element=Int if ck in ("Property", "Range") else None)
    elif kind == "Entity":
        o = model.Entity(id_short, model.EntityType.CO_MANAGED_ENTITY, kids)
    elif kind == "Operation":
        slots = d[5] if len(d) > 5 and d[5] is not None else [0] * len(kids)
        o = model.Operation(id_short, [k for k, s in zip(kids, slots) if s == 0],
                            [k for k, s in zip(kids, slots) if s == 1], [k for k, s in zip(kids, slots) if s == 2])
    elif kind == "AnnotatedRelationshipElement":
        o = model.AnnotatedRelationshipElement(id_short, _ref(model), _ref(model), annotation=kids)
    elif kind == "RelationshipElement":
        o = model.RelationshipElement(id_short, _ref(model), _ref(model))
    elif kind == "Property":
        o = model.Property(id_short, Int)
    elif kind == "MultiLanguageProperty":
        o = model.MultiLanguageProperty(id_short)
    elif kind == "Range":
        o = model.Range(id_short, Int)
    elif kind == "Blob":
        o = model.Blob(id_short, "application/octet-stream")
    elif kind == "File":
        o = model.File(id_short, "application/octet-stream")
    elif kind == "ReferenceElement":
        o = model.ReferenceElement(id_short)
    elif kind == "Capability":
        o = model.Capability(id_short)
    elif kind == "BasicEventElement":
        o = model.BasicEventElement(id_short, model.ModelReference((model.Key(model.KeyTypes.SUBMODEL, "urn:vf:obs"),),
                                                                   model.Submodel),
                                    model.Direction.INPUT, model.StateOfEvent.ON)
    else:
        raise ValueError(kind)
    if kind == "SubmodelElementList":
        for c, k in zip(children, kids):
            c[2] = k.id_short                      # the id_short the list generated for its child
    if source:
        o.source = source
    objs[path] = o
    return o


def gen_desc(rng: random.Random, depth: int, width: int, *, root_kinds=("Submodel",), uid: int = 0,
             kinds_pool: Optional[List[str]] = None, ident: Optional[str] = None) -> List[Any]:
    """A random well-formed tree description."""
    rk = rng.choice(list(root_kinds))
    root_id_short = rng.choice([None, None, "root", "a"])
    d = [rk, ident if ident is not None else f"urn:vf:{uid}", root_id_short, "", []]
    if rk == "Submodel":
        d[4] = _gen_children(rng, "Submodel", depth, width, kinds_pool)
    return d


def _gen_children(rng, parent_kind, depth, width, kinds_pool) -> List[Any]:
    if depth <= 0:
        return []
    n = rng.randint(0 if depth < 3 else 1, width)
    pool = kinds_pool or ELEMENTS
    out = []
    if parent_kind == "SubmodelElementList":
        ck = rng.choice(pool if depth > 1 else [k for k in pool if k in LEAVES] or pool)
        for _ in range(n):
            out.append(_gen_node(rng, ck, None, depth - 1, width, kinds_pool))
        return out
    names = rng.sample(ID_SHORTS, min(n, len(ID_SHORTS)))
    for nm in names:
        if parent_kind == "AnnotatedRelationshipElement":
            ck = rng.choice(DATA_ELEMENTS)
        elif depth > 1 and rng.random() < 0.6:
            ck = rng.choice([k for k in pool if k in CONTAINERS] or pool)
        else:
            ck = rng.choice(pool)
        out.append(_gen_node(rng, ck, nm, depth - 1, width, kinds_pool))
    return out


def _gen_node(rng, kind, id_short, depth, width, kinds_pool) -> List[Any]:
    d = [kind, "", id_short, "", []]
    if kind in CONTAINERS:
        d[4] = _gen_children(rng, kind, depth, width, kinds_pool)
        if kind == "Operation":
            d.append(sorted(rng.randrange(3) for _ in d[4]))
        elif kind == "SubmodelElementList" and not d[4]:
            d.append(rng.choice(ELEMENTS))
    return d


def enum_shapes(max_nodes: int, kinds=("SubmodelElementCollection", "SubmodelElementList", "Property")) -> List[List[Any]]:
    """All submodel trees with at most `max_nodes` nodes below the root over the given element kinds (list children
    homogeneous), id_shorts assigned canonically. Used for the exhaustive small space of C17."""
    def forests(n, parent):
        # all ordered forests with exactly n nodes whose roots may be children of `parent`
        if n == 0:
            return [[]]
        res = []
        for first in range(1, n + 1):
            for t in trees(first, parent):
                for rest in forests(n - first, parent):
                    if parent == "SubmodelElementList" and rest and rest[0][0] != t[0]:
                        continue
                    res.append([t] + rest)
        return res

    def trees(n, parent):
        res = []
        for k in kinds:
            if k in CONTAINERS:
                for f in forests(n - 1, k):
                    res.append([k, "", None, "", f])
            elif n == 1:
                res.append([k, "", None, "", []])
        return res

    def name(t, parent_kind, idx):
        import copy
        t = [t[0], "", None if parent_kind == "SubmodelElementList" else f"e{idx}", "", [name(c, t[0], i) for i, c in enumerate(t[4])]]
        return t

    out = []
    for n in range(0, max_nodes + 1):
        for f in forests(n, "Submodel"):
            out.append(["Submodel", "urn:vf:s", None, "", [name(c, "Submodel", i) for i, c in enumerate(f)]])
    return out
