"""Shared machinery for every check: Lean build + axiom audit, line-protocol driver, evidence, violation protocol.

Nothing here decides a property; it orchestrates (DESIGN.md §2.1, §5):
  translate -> prove (lake build + #print axioms audit) -> correspond (model vs implementation) ->
  oracle on the implementation -> known findings -> evidence -> exit code.
"""
from __future__ import annotations

import fcntl
import hashlib
import json
import os
import random
import re
import subprocess
import sys
import time
from dataclasses import dataclass, field
from typing import Any, Callable, Dict, Iterable, List, Optional, Sequence, Tuple

HOME = os.environ.get("VERIF_HOME") or os.path.dirname(os.path.dirname(os.path.dirname(os.path.abspath(__file__))))
LEAN_DIR = os.path.join(HOME, "lean")
EVIDENCE_DIR = os.path.join(HOME, "evidence")
REPLAY_DIR = os.path.join(HOME, "replays")
REPO = os.environ.get("VERIF_REPO", "/repo")
ALLOWED_AXIOMS = {"propext", "Classical.choice", "Quot.sound"}
FORBIDDEN_RE = re.compile(r"\bsorry\b|\badmit\b|^axiom |native_decide|bv_decide|implemented_by|\bunsafe |maxHeartbeats 0", re.M)

TRUSTED_BASE = [
    "Lean 4.33.0 kernel (thorough tier: re-checked with leanchecker)",
    "axioms: at most propext, Classical.choice, Quot.sound (audited per theorem with #print axioms on every run); "
    "no native_decide, no bv_decide, no own axioms, no sorry",
    "hand-written Lean model of the anchored code, tied to /repo's working tree by the differential correspondence run "
    "of this check (Python harness + generators + canonicaliser are trusted, not proved)",
    "CPython dict/list/str semantics, and the third-party libraries named in the check's assumptions",
]


class Infra(Exception):
    """Infrastructure failure (exit 2, never a VIOLATION line)."""


# --------------------------------------------------------------------------------------------- lean

def _lock():
    os.makedirs(os.path.join(LEAN_DIR, ".lake"), exist_ok=True)
    f = open(os.path.join(LEAN_DIR, ".lake", "verif.lock"), "w")
    fcntl.flock(f, fcntl.LOCK_EX)
    return f


def lake_build(targets: Sequence[str], timeout: int = 1500) -> Tuple[bool, str]:
    """Build the given Lean modules. Returns (ok, log)."""
    lock = _lock()
    try:
        p = subprocess.run(["lake", "build", *targets], cwd=LEAN_DIR, capture_output=True, text=True, timeout=timeout)
    except subprocess.TimeoutExpired:
        raise Infra("lake build timed out")
    finally:
        lock.close()
    return p.returncode == 0, p.stdout + p.stderr


def strip_comments(src: str) -> str:
    # remove nested /- -/ comments and -- line comments (string literals in our Lean files contain neither)
    out = []
    i = 0
    depth = 0
    n = len(src)
    while i < n:
        if src.startswith("/-", i):
            depth += 1
            i += 2
        elif depth and src.startswith("-/", i):
            depth -= 1
            i += 2
        elif depth:
            i += 1
        elif src.startswith("--", i):
            while i < n and src[i] != "\n":
                i += 1
        else:
            out.append(src[i])
            i += 1
    return "".join(out)


def lean_sources_of(module: str) -> List[str]:
    """Transitive closure of `import Basyx.*` from a module, as file paths."""
    seen: Dict[str, str] = {}
    todo = [module]
    while todo:
        m = todo.pop()
        if m in seen or not m.startswith("Basyx"):
            continue
        path = os.path.join(LEAN_DIR, *m.split(".")) + ".lean"
        if not os.path.exists(path):
            continue
        seen[m] = path
        for line in open(path, encoding="utf-8"):
            mm = re.match(r"\s*import\s+(\S+)", line)
            if mm:
                todo.append(mm.group(1))
    return sorted(seen.values())


def theorem_names(path: str) -> List[Tuple[str, str]]:
    """(namespace-qualified theorem name, kind) of every non-private theorem in a Props file."""
    src = strip_comments(open(path, encoding="utf-8").read())
    ns: List[str] = []
    out = []
    for line in src.splitlines():
        m = re.match(r"\s*namespace\s+(\S+)", line)
        if m:
            ns.append(m.group(1))
            continue
        m = re.match(r"\s*end\s+(\S+)", line)
        if m and ns and ns[-1] == m.group(1):
            ns.pop()
            continue
        m = re.match(r"\s*(?:@\[[^\]]*\]\s*)?(private\s+)?theorem\s+(\S+)", line)
        if m and not m.group(1):
            out.append((".".join(ns + [m.group(2)]), "theorem"))
    return out


@dataclass
class ProofResult:
    ok: bool
    obligations: int = 0
    discharged: int = 0
    failed: List[str] = field(default_factory=list)       # theorem names or build errors that no longer check
    theorems: List[str] = field(default_factory=list)
    axioms: Dict[str, List[str]] = field(default_factory=dict)
    log: str = ""
    checker_cmd: str = ""
    mathlib_modules: List[str] = field(default_factory=list)


def prove(prop_module: str, extra_targets: Sequence[str] = ()) -> ProofResult:
    """lake build of the property module, forbidden-token grep over its sources, #print axioms on every theorem."""
    props_path = os.path.join(LEAN_DIR, *prop_module.split(".")) + ".lean"
    thms = [t for t, _ in theorem_names(props_path)]
    res = ProofResult(ok=False, obligations=len(thms), theorems=thms)
    res.checker_cmd = f"cd lean && lake build {prop_module} && lake env lean <generated #print axioms file for {len(thms)} theorems>"
    ok, log = lake_build([prop_module, *extra_targets])
    res.log = log
    if not ok:
        # which declarations failed?
        errs = re.findall(r"error: ([^\n]*)", log)
        res.failed = [f"build:{prop_module}: {e}" for e in errs[:8]] or [f"build:{prop_module}"]
        return res
    # forbidden tokens
    srcs = lean_sources_of(prop_module)
    mathlib = set()
    for p in srcs:
        txt = open(p, encoding="utf-8").read()
        code = strip_comments(txt)
        m = FORBIDDEN_RE.search(code)
        if m:
            res.failed.append(f"forbidden-token:{os.path.relpath(p, LEAN_DIR)}:{m.group(0).strip()}")
        mathlib.update(re.findall(r"^\s*import\s+(Mathlib\S*|Batteries\S*|Aesop\S*)", txt, re.M))
    res.mathlib_modules = sorted(mathlib)
    # axiom audit
    audit_dir = os.path.join(LEAN_DIR, ".lake", "audit")
    os.makedirs(audit_dir, exist_ok=True)
    audit_file = os.path.join(audit_dir, prop_module.replace(".", "_") + ".lean")
    with open(audit_file, "w") as f:
        f.write(f"import {prop_module}\n")
        for t in thms:
            f.write(f"#print axioms {t}\n")
    p = subprocess.run(["lake", "env", "lean", audit_file], cwd=LEAN_DIR, capture_output=True, text=True, timeout=900)
    out = p.stdout + p.stderr
    if p.returncode != 0:
        res.failed.append("audit: " + out[-400:])
        res.log += out
        return res
    # parse
    blocks = re.split(r"(?m)^(?=')", out)
    for b in blocks:
        m = re.match(r"'([^']+)' (does not depend on any axioms|depends on axioms: \[([^\]]*)\])", b.replace("\n", " "))
        if not m:
            continue
        name = m.group(1)
        axs = [a.strip() for a in (m.group(3) or "").split(",") if a.strip()]
        res.axioms[name] = axs
    for t in thms:
        if t not in res.axioms:
            res.failed.append(f"audit-missing:{t}")
        elif not set(res.axioms[t]) <= ALLOWED_AXIOMS:
            res.failed.append(f"axioms:{t}:{sorted(set(res.axioms[t]) - ALLOWED_AXIOMS)}")
        else:
            res.discharged += 1
    res.ok = not res.failed
    return res


def leanchecker(modules: Sequence[str]) -> Tuple[bool, str]:
    try:
        p = subprocess.run(["lake", "env", "leanchecker", *modules], cwd=LEAN_DIR, capture_output=True, text=True, timeout=1500)
    except subprocess.TimeoutExpired:
        return False, "leanchecker timed out"
    return p.returncode == 0, (p.stdout + p.stderr)[-2000:]


def run_model(main: str, lines: Iterable[Any], timeout: int = 1800) -> List[Any]:
    """Pipe JSON lines through the Lean line-protocol driver lean/Mains/<main>.lean; return the parsed output lines.
    The driver's imports are (re)built first, so the model always reflects the current Lean sources / generated tables."""
    main_file = os.path.join("Mains", main + ".lean")
    mods = re.findall(r"^import\s+(\S+)", open(os.path.join(LEAN_DIR, main_file)).read(), re.M)
    ok, log = lake_build(mods)
    if not ok:
        raise DriverBroken(log[-3000:])
    data = "".join(json.dumps(l, ensure_ascii=True) + "\n" for l in lines)
    p = subprocess.run(["lake", "env", "lean", "--run", main_file], cwd=LEAN_DIR, input=data, capture_output=True,
                       text=True, timeout=timeout)
    if p.returncode != 0:
        raise DriverBroken(p.stderr[-2000:] + p.stdout[-500:])
    return [json.loads(l) for l in p.stdout.split("\n") if l.strip()]


class DriverBroken(Exception):
    pass


# --------------------------------------------------------------------------------------------- results

@dataclass
class Failing:
    """A concrete input/history on which the IMPLEMENTATION violates the property (found by the oracle)."""
    sig: str                       # canonical signature (known-findings key)
    what: str                      # one-line description
    case: Any                      # replayable case
    observed: Any = None
    required: Any = None


@dataclass
class Disagreement:
    """Model and implementation differ on a case (broken tie; not by itself a violation)."""
    where: str
    case: Any
    model: Any
    impl: Any


@dataclass
class Coverage:
    evaluations: int = 0
    nontrivial: set = field(default_factory=set)
    rule: str = ""
    samples: List[Any] = field(default_factory=list)
    histogram: Dict[str, int] = field(default_factory=dict)
    exhaustive: bool = False
    extra: Dict[str, Any] = field(default_factory=dict)

    def hit(self, key: str, n: int = 1):
        self.histogram[key] = self.histogram.get(key, 0) + n


@dataclass
class Ctx:
    prop: str
    tier: str
    seed: int
    rng: random.Random
    t0: float
    jobs: int

    def budget(self, quick: int, thorough: int) -> int:
        return quick if self.tier == "quick" else thorough


def sha(obj: Any) -> str:
    return hashlib.sha1(json.dumps(obj, sort_keys=True, default=str).encode()).hexdigest()[:12]


def write_replay(prop: str, payload: Dict[str, Any]) -> str:
    os.makedirs(REPLAY_DIR, exist_ok=True)
    name = f"{prop}-{sha(payload)}.json"
    path = os.path.join(REPLAY_DIR, name)
    with open(path, "w") as f:
        json.dump(payload, f, indent=1, default=str, sort_keys=True)
    return os.path.relpath(path, HOME)


def load_known(prop: str) -> List[Dict[str, Any]]:
    """Known findings of one property: known_findings/<id>.json (committed; never written at run time).
    known_findings.json at top level is the merged, human-readable copy written by py/gen_manifest.py."""
    path = os.path.join(HOME, "known_findings", f"{prop}.json")
    if not os.path.exists(path):
        return []
    data = json.load(open(path))
    return [dict(e, property=prop) for e in data.get("findings", [])]


def write_evidence(prop: str, tier: str, seed: int, level: str, coverage: Dict[str, Any], assumptions: List[str],
                   wall: float, violations: int):
    os.makedirs(EVIDENCE_DIR, exist_ok=True)
    ev = {"property_id": prop, "tier": tier, "seed": seed, "level": level, "coverage": coverage,
          "assumptions": assumptions, "wall_s": round(wall, 2), "violations": violations}
    tmp = os.path.join(EVIDENCE_DIR, f".{prop}.json.tmp")
    with open(tmp, "w") as f:
        json.dump(ev, f, indent=1, default=str)
    os.replace(tmp, os.path.join(EVIDENCE_DIR, f"{prop}.json"))


def ddmin(ops: List[Any], fails: Callable[[List[Any]], bool], max_tests: int = 400) -> List[Any]:
    """Delta-debugging minimisation of a failing op list."""
    tests = 0
    n = 2
    cur = list(ops)
    while len(cur) >= 2 and tests < max_tests:
        chunk = max(1, len(cur) // n)
        reduced = False
        for i in range(0, len(cur), chunk):
            cand = cur[:i] + cur[i + chunk:]
            tests += 1
            if cand and fails(cand):
                cur = cand
                n = max(n - 1, 2)
                reduced = True
                break
        if not reduced:
            if chunk == 1:
                break
            n = min(n * 2, len(cur))
    return cur
