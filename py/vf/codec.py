"""Python side of the generic codec model (Basyx/Model/Codec.lean): conversion of SDK objects to model values (`Val`)
and of SDK documents to the model's wire normal form (`Wire`), directed by the REGENERATED member table."""
from __future__ import annotations

import base64
import json
import re
from typing import Any, Dict, List, Optional

from . import meta

SNAKE = re.compile(r"(?<!^)(?=[A-Z])")
UNORDERED_HEADS = ("set", "oset", "elems", "enumset")


def tok(s: str, falsy: bool = False):
    return ["t", s, bool(falsy)]


class Table:
    def __init__(self, data: Dict[str, Any]):
        self.data = data
        self.classes = {ct["cls"]: ct for ct in data["table"]}
        self.enums = data["enums"]
        self.xsd = data["xsdNames"]
        self.tag_to_cls = {ct["tag"]: ct["cls"] for ct in data["table"] if ct["tag"]}

    def rows(self, cls):
        return self.classes[cls]["rows"]

    def spec_kind(self, cls, attr) -> str:
        if cls.startswith("LangString"):
            return "str"
        if cls == "ValueList":
            return "set1:node:ValueReferencePair"
        if cls == "OperationVariable":
            return "node:SubmodelElement"
        return dict(meta.META[cls])[attr]

    # -------------------------------------------------------------------------------- objects -> Val
    def enum_tok(self, member) -> str:
        tab = {"KeyTypes": "KEY_TYPES", "ModellingKind": "MODELLING_KIND", "QualifierKind": "QUALIFIER_KIND", "AssetKind": "ASSET_KIND",
               "EntityType": "ENTITY_TYPES", "Direction": "DIRECTION", "StateOfEvent": "STATE_OF_EVENT",
               "DataTypeIEC61360": "IEC61360_DATA_TYPES", "IEC61360LevelType": "IEC61360_LEVEL_TYPES"}[type(member).__name__]
        return self.enums[tab][member.name]

    def leaf(self, spec_kind: str, v: Any):
        from basyx.aas.model import datatypes
        k = spec_kind[1:] if spec_kind[0] == "o" else spec_kind
        head = k.split(":")[0].split("=")[0]
        if head in ("str", "str0"):
            return tok(v, v == "")
        if head == "bool":
            return tok("true" if v else "false", not v)
        if head == "enum":
            return tok(self.enum_tok(v))
        if head == "xtype":
            return tok(self.xsd.get(v.__name__, "?unnamed:" + v.__name__))
        if head == "cls":
            return tok(self.enums["KEY_TYPES"][SNAKE.sub("_", v.__name__).upper()])
        if head == "typed":
            return tok(datatypes.xsd_repr(v), not bool(v))
        if head == "bytes":
            return tok(base64.b64encode(v).decode(), len(v) == 0)
        raise ValueError(spec_kind)

    def val_of_kind(self, spec_kind: str, v: Any, list_child=False):
        if spec_kind[0] == "o":
            if v is None:
                return None
            spec_kind = spec_kind[1:]
        head, _, arg = spec_kind.partition(":")
        if head == "lss":
            lcls = "LangString" if "LangString" in self.classes else "LangString" + type(v).__name__
            return ["l", [["n", lcls, [tok(k, k == ""), tok(t, t == "")]] for k, t in v.items()]]
        if head == "node":
            return self.to_val(v)
        if head in ("list", "list1", "set", "set1"):
            return ["l", [self.val_of_kind(arg, x) for x in v]]
        if head == "enumset":
            # wire normal form of the levelType dict: the names that are true, in the table's order
            order = list(self.enums["IEC61360_LEVEL_TYPES"].keys())
            return ["l", [tok(self.enums["IEC61360_LEVEL_TYPES"][n]) for n in order if any(x.name == n for x in v)]]
        if head == "elems":
            return ["l", [self.to_val(x) for x in v]]
        if head == "elems_ordered":
            return ["l", [self.to_val(x, list_child=True) for x in v]]
        return self.leaf(spec_kind, v)

    def to_val(self, obj: Any, list_child: bool = False):
        cls = meta.class_name(obj)
        fields = []
        for r in self.rows(cls):
            attr = r["attr"]
            v = getattr(obj, attr)
            sk = self.spec_kind(cls, attr)
            if attr == "id_short" and list_child:
                v = None
            if cls == "DataSpecificationIEC61360" and attr == "value_list":
                fields.append(None if v is None else ["n", "ValueList", [["l", [self.to_val(x) for x in v]]]])
                continue
            if cls == "Operation" and attr.endswith("_variable"):
                fields.append(["l", [["n", "OperationVariable", [self.to_val(x)]] for x in v]])
                continue
            fields.append(self.val_of_kind(sk, v))
        return ["n", cls, fields]

    # -------------------------------------------------------------------------------- JSON -> Wire normal form
    def wire_of_json(self, kind, j: Any):
        """Convert a parsed SDK JSON value into wire normal form along the expected kind."""
        if kind == "leaf":
            if isinstance(j, bool):
                return tok("true" if j else "false")
            if isinstance(j, str):
                return tok(j)
            return tok(json.dumps(j, sort_keys=True))
        if kind[0] == "list":
            if isinstance(j, dict) and kind[1] == "leaf":      # levelType {"min": true, ...}
                return ["a", [tok(n) for n, b in j.items() if b]]
            if not isinstance(j, list):
                return tok("?notalist:" + json.dumps(j)[:40])
            return ["a", [self.wire_of_json(kind[1], x) for x in j]]
        if not isinstance(j, dict):
            return tok("?notanobject:" + json.dumps(j)[:40])
        if kind[0] == "node":
            cls = kind[1]
            tag = j.get("modelType")
        else:
            tag = j.get("modelType") if "modelType" in j else j.get("type") if set(kind[1]) == {"ExternalReference", "ModelReference"} else None
            cls = self.tag_to_cls.get(tag)
        drop = {"modelType"} | ({"type"} if cls in ("ExternalReference", "ModelReference") else set())
        ms = []
        rows = {r["member"]: r for r in self.rows(cls)} if cls in self.classes else {}
        for name, x in j.items():
            if name in drop or x is None:      # a JSON null member is treated like an absent one (marked `bad` by the caller if it raises)
                continue
            r = rows.get(name)
            ms.append([name, self.wire_of_json(r["kind"], x) if r else tok("?unknown-member")])
        return ["o", tag, ms]

    # -------------------------------------------------------------------------------- XML -> Wire normal form
    @staticmethod
    def local(el) -> str:
        t = el.tag
        return t.split("}", 1)[1] if isinstance(t, str) and "}" in t else str(t)

    def wire_of_xml(self, kind, el):
        """Convert a parsed XML element (lxml) into wire normal form along the expected kind."""
        if kind == "leaf":
            return tok(el.text if el.text is not None else "")
        children = [c for c in el if isinstance(c.tag, str)]
        if kind[0] == "list":
            inner = kind[1]
            if inner == "leaf":                         # levelType: <min>true</min>...
                return ["a", [tok(self.local(c)) for c in children if (c.text or "") == "true"]]
            return ["a", [self.wire_of_xml_item(inner, c) for c in children]]
        return self.wire_of_xml_obj(kind, el, member=self.local(el))

    def wire_of_xml_item(self, kind, el):
        """a list item / root element: the element itself is the object, its tag names the class"""
        if kind[0] == "poly" and set(kind[1]) == {"ExternalReference", "ModelReference"}:
            return self.wire_of_xml_obj(kind, el, member=None)
        if kind[0] == "poly":
            return self.obj_from(self.tag_to_cls.get(self.local(el)), self.local(el), el)
        if kind[0] == "node":
            return self.obj_from(kind[1], self.classes[kind[1]]["tag"] if kind[1] in self.classes else None, el)
        return self.wire_of_xml(kind, el)

    def wire_of_xml_obj(self, kind, el, member):
        children = [c for c in el if isinstance(c.tag, str)]
        if kind[0] == "poly" and set(kind[1]) == {"ExternalReference", "ModelReference"}:
            t = next((c.text for c in children if self.local(c) == "type"), None)
            return self.obj_from(self.tag_to_cls.get(t), t, el, drop={"type"})
        if kind[0] == "poly":
            # wrapper element holding exactly the polymorphic object (operationVariable/value, dataSpecificationContent)
            if len(children) == 1 and self.local(children[0]) in self.tag_to_cls:
                c = children[0]
                return self.obj_from(self.tag_to_cls[self.local(c)], self.local(c), c)
            return ["o", None, [[self.local(c), tok("?")] for c in children]]
        cls = kind[1]
        ctag = self.classes[cls]["tag"] if cls in self.classes else None
        if len(children) == 1 and ctag and self.local(children[0]) == ctag and member != ctag:
            return self.obj_from(cls, ctag, children[0])
        return self.obj_from(cls, ctag, el)

    def obj_from(self, cls, tag, el, drop=frozenset()):
        rows = {r["member"]: r for r in self.rows(cls)} if cls in self.classes else {}
        ms = []
        for c in el:
            if not isinstance(c.tag, str):
                continue
            name = self.local(c)
            if name in drop:
                continue
            r = rows.get(name)
            ms.append([name, self.wire_of_xml(r["kind"], c) if r else tok("?unknown-member")])
        return ["o", tag, ms]

    # -------------------------------------------------------------------------------- normalisation for comparison
    def erase_flags(self, w):
        if isinstance(w, list) and w and w[0] == "t":
            return ["t", w[1]]
        if isinstance(w, list):
            return [self.erase_flags(x) for x in w]
        return w

    def sort_unordered(self, v, spec_kind: Optional[str] = None, dedupe: bool = False):
        """Canonical order inside unordered collections of a Val (reader builds fresh sets).  `dedupe`: equal members of a
        collection the reader gathers in a Python set() count once (only damaged documents contain such members)."""
        if v is None or v[0] == "t":
            return v
        if v[0] == "l":
            inner = None
            unordered = False
            if spec_kind:
                sk = spec_kind[1:] if spec_kind[0] == "o" else spec_kind
                head, _, arg = sk.partition(":")
                unordered = head in ("set", "set1", "elems", "enumset", "lss")
                inner = arg if head in ("list", "list1", "set", "set1") else None
            xs = [self.sort_unordered(x, inner, dedupe) for x in v[1]]
            if unordered:
                xs = sorted(xs, key=lambda x: json.dumps(x, sort_keys=True))
                if dedupe and head in ("set", "set1"):
                    xs = [x for j, x in enumerate(xs) if j == 0 or x != xs[j - 1]]
            return ["l", xs]
        if v[0] == "n":
            cls = v[1]
            rows = self.rows(cls)
            fs = []
            for r, f in zip(rows, v[2]):
                sk = self.spec_kind(cls, r["attr"])
                if cls == "Operation" and r["attr"].endswith("_variable"):
                    sk = "set:node:OperationVariable"
                fs.append(self.sort_unordered(f, sk, dedupe))
            return ["n", cls, fs]
        return v


def load_table(path: str) -> Table:
    return Table(json.load(open(path)))
