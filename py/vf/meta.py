"""Spec-side metamodel table (hand-written from 'Details of the AAS Part 1 V3.0' — NOT derived from the adapters).

One source for: the independent canonicaliser (canon), the model-value converter (to_val) and the object-graph
generator.  Each class lists its metamodel attributes in a fixed order with a *kind*:

  str / ostr                mandatory / optional constrained string (min length 1)
  ostr0                     optional plain string (may be empty)
  bool                      mandatory bool
  enum:<E> / oenum:<E>      enum member
  xtype / oxtype            an XSD value type (a datatypes class)
  otyped:<type attr>        optional value typed by the sibling attribute; otyped=<T> typed by the fixed class T
  obytes                    optional bytes
  lss:<C> / olss:<C>        language string set of class C
  node:<C> / onode:<C>      embedded object of class C (for 'Reference' either reference class)
  list:<kind>               ordered collection (list1: never empty)
  set:<kind>                unordered collection (canon sorts it)
  elems / elems_ordered     polymorphic submodel elements, unordered / ordered
  cls                       a SubmodelElement class object (type_value_list_element)
  enumset:<E>               set of enum members
DETACHABLE lists, per class, the attributes the 'stripped' rendering removes (C18).
"""

REFERABLE = [("id_short", "ostr"), ("display_name", "olss:MultiLanguageNameType"), ("category", "ostr"),
             ("description", "olss:MultiLanguageTextType")]
IDENTIFIABLE = [("id", "str"), ("administration", "onode:AdministrativeInformation")]
HAS_SEMANTICS = [("semantic_id", "onode:Reference"), ("supplemental_semantic_id", "list:node:Reference")]
HAS_KIND = [("kind", "enum:ModellingKind")]
QUALIFIABLE = [("qualifier", "set:node:Qualifier")]
HAS_EXTENSION = [("extension", "set:node:Extension")]
HAS_DATASPEC = [("embedded_data_specifications", "list:node:EmbeddedDataSpecification")]
SME = REFERABLE + QUALIFIABLE + HAS_SEMANTICS + HAS_EXTENSION + HAS_DATASPEC

META = {
    "Key": [("type", "enum:KeyTypes"), ("value", "str")],
    "ExternalReference": [("key", "list1:node:Key"), ("referred_semantic_id", "onode:Reference")],
    "ModelReference": [("key", "list1:node:Key"), ("referred_semantic_id", "onode:Reference")],
    "AdministrativeInformation": [("version", "ostr"), ("revision", "ostr"), ("creator", "onode:Reference"),
                                  ("template_id", "ostr")] + HAS_DATASPEC,
    "EmbeddedDataSpecification": [("data_specification", "node:Reference"),
                                  ("data_specification_content", "node:DataSpecificationIEC61360")],
    "DataSpecificationIEC61360": [
        ("preferred_name", "lss:PreferredNameTypeIEC61360"), ("data_type", "oenum:DataTypeIEC61360"),
        ("definition", "olss:DefinitionTypeIEC61360"), ("short_name", "olss:ShortNameTypeIEC61360"), ("unit", "ostr0"),
        ("unit_id", "onode:Reference"), ("source_of_definition", "ostr0"), ("symbol", "ostr0"), ("value_format", "ostr0"),
        ("value_list", "oset:node:ValueReferencePair"), ("value", "ostr"), ("level_types", "enumset:IEC61360LevelType")],
    "ValueReferencePair": [("value", "str"), ("value_id", "node:Reference")],
    "Qualifier": [("type", "str"), ("value_type", "xtype"), ("value", "otyped:value_type"), ("value_id", "onode:Reference"),
                  ("kind", "enum:QualifierKind")] + HAS_SEMANTICS,
    "Extension": [("name", "str"), ("value_type", "oxtype"), ("value", "otyped:value_type"),
                  ("refers_to", "set:node:Reference")] + HAS_SEMANTICS,
    "SpecificAssetId": [("name", "str"), ("value", "str"), ("external_subject_id", "onode:Reference")] + HAS_SEMANTICS,
    "Resource": [("path", "str"), ("content_type", "ostr")],
    "AssetInformation": [("asset_kind", "enum:AssetKind"), ("global_asset_id", "ostr"),
                         ("specific_asset_id", "set:node:SpecificAssetId"), ("asset_type", "ostr"),
                         ("default_thumbnail", "onode:Resource")],
    "AssetAdministrationShell": REFERABLE + IDENTIFIABLE + HAS_EXTENSION + HAS_DATASPEC + [
        ("asset_information", "node:AssetInformation"), ("submodel", "set:node:Reference"),
        ("derived_from", "onode:Reference")],
    "Submodel": REFERABLE + IDENTIFIABLE + HAS_SEMANTICS + HAS_KIND + QUALIFIABLE + HAS_EXTENSION + HAS_DATASPEC + [
        ("submodel_element", "elems")],
    "ConceptDescription": REFERABLE + IDENTIFIABLE + HAS_EXTENSION + HAS_DATASPEC + [("is_case_of", "set:node:Reference")],
    "Property": SME + [("value_type", "xtype"), ("value", "otyped:value_type"), ("value_id", "onode:Reference")],
    "MultiLanguageProperty": SME + [("value", "olss:MultiLanguageTextType"), ("value_id", "onode:Reference")],
    "Range": SME + [("value_type", "xtype"), ("min", "otyped:value_type"), ("max", "otyped:value_type")],
    "Blob": SME + [("content_type", "str"), ("value", "obytes")],
    "File": SME + [("content_type", "str"), ("value", "ostr")],
    "ReferenceElement": SME + [("value", "onode:Reference")],
    "SubmodelElementCollection": SME + [("value", "elems")],
    "SubmodelElementList": SME + [("type_value_list_element", "cls"), ("order_relevant", "bool"),
                                  ("semantic_id_list_element", "onode:Reference"),
                                  ("value_type_list_element", "oxtype"), ("value", "elems_ordered")],
    "RelationshipElement": SME + [("first", "node:Reference"), ("second", "node:Reference")],
    "AnnotatedRelationshipElement": SME + [("first", "node:Reference"), ("second", "node:Reference"),
                                           ("annotation", "elems")],
    "Operation": SME + [("input_variable", "elems"), ("output_variable", "elems"), ("in_output_variable", "elems")],
    "Capability": SME,
    "Entity": SME + [("entity_type", "enum:EntityType"), ("global_asset_id", "ostr"),
                     ("specific_asset_id", "set:node:SpecificAssetId"), ("statement", "elems")],
    "BasicEventElement": SME + [("observed", "node:Reference"), ("direction", "enum:Direction"),
                                ("state", "enum:StateOfEvent"), ("message_topic", "ostr"),
                                ("message_broker", "onode:Reference"), ("last_update", "otyped=DateTime"),
                                ("min_interval", "otyped=Duration"), ("max_interval", "otyped=Duration")],
}

# Parts the stripped (core-level) rendering removes — Part 2 'Level=Core' / pyi40aas issue 91 (C18).
DETACHABLE = {
    "Submodel": ["submodel_element", "qualifier", "extension", "embedded_data_specifications"],
    "SubmodelElementCollection": ["value"],
    "SubmodelElementList": ["value"],
    "Entity": ["statement"],
    "AnnotatedRelationshipElement": ["annotation"],
    "AssetAdministrationShell": ["submodel", "extension", "embedded_data_specifications"],
    "ConceptDescription": ["extension", "embedded_data_specifications"],
    "AdministrativeInformation": ["embedded_data_specifications"],
}
for _c, _attrs in META.items():
    names = [a for a, _ in _attrs]
    d = DETACHABLE.setdefault(_c, [])
    for a in ("qualifier", "extension", "embedded_data_specifications"):
        if a in names and a not in d:
            d.append(a)

# SPEC: defaults of attributes the readers may leave out (Part 1: Qualifier/kind default ConceptQualifier,
# HasKind/kind default Instance, SubmodelElementList/orderRelevant default true) — as wire tokens
SPEC_DEFAULTS = {("Qualifier", "kind"): "ConceptQualifier", ("Submodel", "kind"): "Instance",
                 ("SubmodelElementList", "order_relevant"): "true"}

SUBMODEL_ELEMENT_CLASSES = ["Property", "MultiLanguageProperty", "Range", "Blob", "File", "ReferenceElement",
                            "SubmodelElementCollection", "SubmodelElementList", "RelationshipElement",
                            "AnnotatedRelationshipElement", "Operation", "Capability", "Entity", "BasicEventElement"]
DATA_ELEMENT_CLASSES = ["Property", "MultiLanguageProperty", "Range", "Blob", "File", "ReferenceElement"]
IDENTIFIABLE_CLASSES = ["AssetAdministrationShell", "Submodel", "ConceptDescription"]


def class_name(obj) -> str:
    """Metamodel class of an SDK object (independent of the adapters' dispatch)."""
    n = type(obj).__name__
    if n in META:
        return n
    for c in type(obj).__mro__:
        if c.__name__ in META:
            return c.__name__
    raise TypeError(f"not a metamodel object: {obj!r}")
