"""Independent canonicaliser: SDK object graph -> plain nested data, by walking PUBLIC attributes per vf.meta.META.

Never calls an SDK serializer or the SDK's AASDataChecker.  Distinguishes absent (None) from present-but-falsy
values, keeps the order of ordered collections, sorts unordered ones.  NaN canonicalises to the same token, so
NaN == NaN here (neutral zone, DESIGN §7.3).
"""
from __future__ import annotations

import datetime
import decimal
import json
from typing import Any

from . import meta


def dec_token(v: decimal.Decimal) -> str:
    """exact numeric value of a Decimal, any precision (Decimal.normalize() would round to the arithmetic context)"""
    if not v.is_finite():
        return str(v)
    sign, digits, exp = v.as_tuple()
    digits = list(digits)
    while len(digits) > 1 and digits[-1] == 0:
        digits.pop(); exp += 1
    while len(digits) > 1 and digits[0] == 0:
        digits.pop(0)
    if digits == [0]:
        return "0"
    return ("-" if sign else "") + "".join(map(str, digits)) + "E" + str(exp)


def native(v: Any) -> Any:
    """Type-and-value token of a typed (XSD) Python value, from Python's own repr — not from xsd_repr."""
    t = type(v).__name__
    if isinstance(v, bool):
        return ["v", t, repr(v)]
    if isinstance(v, (bytes, bytearray)):
        return ["v", t, bytes(v).hex()]
    if isinstance(v, float):
        return ["v", t, repr(v)]
    if isinstance(v, decimal.Decimal):
        return ["v", t, dec_token(v)]
    if isinstance(v, datetime.datetime):
        off = v.utcoffset()
        return ["v", t, v.replace(tzinfo=None).isoformat(), None if off is None else off.total_seconds()]
    if isinstance(v, datetime.time):
        off = v.utcoffset()
        return ["v", t, v.replace(tzinfo=None).isoformat(), None if off is None else off.total_seconds()]
    if isinstance(v, datetime.date):
        tz = getattr(v, "tzinfo", None)
        off = None if tz is None else tz.utcoffset(None)
        return ["v", t, datetime.date(v.year, v.month, v.day).isoformat(), None if off is None else off.total_seconds()]
    if hasattr(v, "normalized") and hasattr(v, "months"):   # dateutil relativedelta (xs:duration)
        n = v.normalized()
        return ["v", t, [n.years, n.months, n.days, n.hours, n.minutes, n.seconds, n.microseconds]]
    if isinstance(v, int):
        return ["v", t, repr(int(v))]
    if isinstance(v, str):
        return ["v", t, str(v)]
    tz = getattr(v, "tzinfo", None)
    off = None if tz is None else tz.utcoffset(None)
    return ["v", t, {k: getattr(v, k) for k in ("year", "month", "day") if hasattr(v, k)},
            None if off is None else off.total_seconds()]


def _key(x: Any) -> str:
    return json.dumps(x, sort_keys=True, default=str)


def canon_kind(kind: str, v: Any, in_list: bool = False) -> Any:
    if kind[0] == "o":            # every optional kind is spelled with a leading 'o'
        if v is None:
            return None
        kind = kind[1:]
    if kind == "bytes":
        return ["y", bytes(v).hex()]
    head, _, arg = kind.partition(":")
    if head in ("str", "str0"):
        return ["s", v]
    if head == "bool":
        return ["b", bool(v)]
    if head == "enum":
        return ["e", v.name]
    if head == "xtype":
        return ["t", v.__name__]
    if head.startswith("typed"):
        return native(v)
    if head == "lss":
        return ["lss", sorted([k, t] for k, t in v.items())]
    if head == "node":
        return canon(v)
    if head in ("list", "list1"):
        return ["list", [canon_kind(arg, x) for x in v]]
    if head == "set":
        return ["set", sorted((canon_kind(arg, x) for x in v), key=_key)]
    if head == "enumset":
        return ["set", sorted(["e", x.name] for x in v)]
    if head == "elems":
        return ["set", sorted((canon(x) for x in v), key=_key)]
    if head == "elems_ordered":
        return ["list", [canon(x, list_child=True) for x in v]]
    if head == "cls":
        return ["c", v.__name__]
    raise ValueError(kind)


def canon(obj: Any, list_child: bool = False) -> Any:
    cls = meta.class_name(obj)
    out = {"_c": cls}
    for attr, kind in meta.META[cls]:
        v = getattr(obj, attr)
        if attr == "id_short" and list_child:
            v = None            # generated, not a metamodel value (Part 1: list children have no idShort)
        out[attr] = canon_kind(kind, v)
    return out


def canon_store(store) -> Any:
    return sorted((canon(o) for o in store), key=lambda c: (c["_c"], c["id"][1]))


def diff(a: Any, b: Any, path: str = "") -> str | None:
    """First difference between two canonical values, as a path string."""
    if type(a) is not type(b):
        return f"{path}: {a!r} != {b!r}"
    if isinstance(a, dict):
        for k in sorted(set(a) | set(b)):
            if k not in a or k not in b:
                return f"{path}.{k}: missing on one side"
            d = diff(a[k], b[k], f"{path}.{k}")
            if d:
                return d
        return None
    if isinstance(a, list):
        if len(a) != len(b):
            return f"{path}: length {len(a)} != {len(b)} ({_key(a)[:120]} vs {_key(b)[:120]})"
        for i, (x, y) in enumerate(zip(a, b)):
            d = diff(x, y, f"{path}[{i}]")
            if d:
                return d
        return None
    if a != b:
        if isinstance(a, float) and a != a and b != b:
            return None
        return f"{path}: {a!r} != {b!r}"
    return None
