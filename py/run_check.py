#!/usr/bin/env python
"""./check <Cxx> [--tier quick|thorough] [--replay file]   — see DESIGN.md §2.1 and §5."""
from __future__ import annotations

import argparse
import importlib
import json
import os
import random
import sys
import time
import traceback

sys.path.insert(0, os.path.dirname(os.path.abspath(__file__)))
from vf import common as C  # noqa: E402


def main() -> int:
    ap = argparse.ArgumentParser()
    ap.add_argument("prop")
    ap.add_argument("--tier", default=os.environ.get("VERIF_TIER", "quick"), choices=["quick", "thorough"])
    ap.add_argument("--replay")
    args = ap.parse_args()
    prop = args.prop.upper()
    seed = int(os.environ.get("VERIF_SEED", "0") or 0)
    mod = importlib.import_module(f"props.{prop.lower()}")
    ctx = C.Ctx(prop=prop, tier=args.tier, seed=seed, rng=random.Random(f"{prop}:{seed}"), t0=time.time(),
                jobs=int(os.environ.get("VERIF_JOBS", os.cpu_count() or 4)))

    if args.replay:
        payload = json.load(open(args.replay))
        if payload.get("kind") == "unchecked":
            print(f"replay {args.replay}: names an obligation that no longer checks "
                  f"({payload.get('unchecked')}); re-run ./check {prop} to re-evaluate it")
            return 1
        f = mod.replay(payload["case"])
        if f is not None:
            print(f"REPLAY-FAILS property={prop} sig={f.sig} {f.what}")
            return 1
        print(f"replay passes: property={prop}")
        return 0

    cov = C.Coverage()
    broken: list[str] = []            # obligations / ties that no longer check
    failing: list[C.Failing] = []
    notes: list[str] = []

    # 1. translate
    if hasattr(mod, "translate"):
        try:
            broken += [f"translator: {b}" for b in mod.translate(ctx)]
        except Exception as e:  # extractor crashed on unrecognised source: a broken tie
            broken.append(f"translator: {type(e).__name__}: {e}")

    # 2. prove
    pr = C.prove(mod.LEAN_MODULE)
    if not pr.ok:
        broken += [f"proof: {x}" for x in pr.failed]
    if args.tier == "thorough" and pr.ok and getattr(mod, "LEANCHECKER", True):
        ok, out = C.leanchecker([mod.LEAN_MODULE])
        notes.append(f"leanchecker {mod.LEAN_MODULE}: {'ok' if ok else 'FAILED'}")
        if not ok:
            broken.append("proof: leanchecker: " + out[-300:])

    # 3. correspond + 4. oracle
    disagreements: list[C.Disagreement] = []
    try:
        disagreements = mod.correspond(ctx, cov)
    except C.DriverBroken as e:
        broken.append("correspondence: model driver does not build/run: " + str(e)[-300:])
    except Exception as e:
        broken.append("correspondence: " + _impl_raised(e))
    for d in disagreements[:5]:
        broken.append(f"correspondence: {d.where}: model={json.dumps(d.model, default=str)[:200]} "
                      f"impl={json.dumps(d.impl, default=str)[:200]}")
    try:
        failing += mod.oracle(ctx, cov)
    except Exception as e:
        broken.append("oracle: " + _impl_raised(e))

    # 5. if anything broke and no failing input is known yet: directed + extended search on the implementation
    if broken and not _unlisted(prop, failing) and hasattr(mod, "search"):
        try:
            failing += mod.search(ctx, disagreements, broken)
        except Exception as e:
            broken.append("search: " + _impl_raised(e))

    # 6. known findings
    known = [k for k in C.load_known(prop) if k.get("status", "open") == "open"]
    known_sigs = {k["sig"] for k in known}
    seen_known = set()
    for k in known:
        f = mod.replay(k["case"]) if "case" in k else None
        if f is not None and f.sig == k["sig"]:
            seen_known.add(k["sig"])
            print(f"KNOWN-FINDING: property={prop} {k['sig']} — {k['what']}")
        else:
            notes.append(f"known finding {k['sig']} no longer reproduces")
    unlisted = [f for f in failing if f.sig not in known_sigs]

    # 7. verdict
    violations = 0
    reported = set()
    for f in unlisted:
        if f.sig in reported:
            continue
        reported.add(f.sig)
        path = C.write_replay(prop, {"property": prop, "kind": "failing-input", "seed": seed, "tier": args.tier,
                                     "sig": f.sig, "what": f.what, "case": f.case, "observed": f.observed,
                                     "required": f.required, "broken": broken,
                                     "how_to_replay": f"./check {prop} --replay <this file>"})
        print(f"VIOLATION property={prop} replay={path}")
        print(f"  {f.sig}: {f.what}")
        violations += 1
    if broken and not unlisted:
        path = C.write_replay(prop, {"property": prop, "kind": "unchecked", "seed": seed, "tier": args.tier,
                                     "unchecked": broken,
                                     "first_disagreement": (disagreements[0].__dict__ if disagreements else None),
                                     "how_to_replay": f"./check {prop}"})
        print(f"VIOLATION property={prop} replay={path} no-failing-input-found")
        for b in broken[:6]:
            print("  no longer checks:", b[:300])
        violations += 1

    # 8. evidence
    coverage = {
        "obligations": pr.obligations, "discharged": pr.discharged,
        "checker_cmd": pr.checker_cmd,
        "trusted_base": C.TRUSTED_BASE + [f"Mathlib/Batteries modules imported by proof files: {pr.mathlib_modules or 'none'}"],
        "theorems": pr.theorems, "axioms_used": sorted({a for v in pr.axioms.values() for a in v}),
        "evaluations": cov.evaluations, "distinct_nontrivial": len(cov.nontrivial), "rule": cov.rule,
        "samples": cov.samples[:6], "histogram": dict(sorted(cov.histogram.items())), "exhaustive": cov.exhaustive,
        "correspondence_disagreements": len(disagreements),
        "known_findings_reproduced": sorted(seen_known), "broken": broken, "notes": notes,
    }
    coverage.update(cov.extra)
    C.write_evidence(prop, args.tier, seed, getattr(mod, "LEVEL", "proof"), coverage,
                     getattr(mod, "ASSUMPTIONS", []), time.time() - ctx.t0, violations)
    print(f"{prop} {args.tier}: theorems {pr.discharged}/{pr.obligations} checked, correspondence cases "
          f"{cov.evaluations} ({len(cov.nontrivial)} distinct non-trivial), disagreements {len(disagreements)}, "
          f"violations {violations}, {time.time() - ctx.t0:.1f}s")
    return 1 if violations else 0


def _impl_raised(e: BaseException) -> str:
    """A harness step died of an exception.  If it was raised INSIDE the implementation under check (a frame of the
    traceback lies in $VERIF_REPO), the implementation no longer behaves as the harness — written against the model — expects:
    the tie is broken, which is reported like any other obligation that no longer checks.  Anything else is a defect of
    the machinery and stays an infrastructure error (exit 2)."""
    import traceback
    frames = traceback.extract_tb(e.__traceback__)
    repo = os.path.realpath(C.REPO)
    inside = [f for f in frames if os.path.realpath(f.filename).startswith(repo + os.sep)]
    if not inside:
        raise e
    f = inside[-1]
    return (f"the harness could not drive the implementation as the model prescribes: {type(e).__name__}: {str(e)[:160]} "
            f"raised at {os.path.relpath(f.filename, repo)}:{f.lineno} ({f.name})")


def _unlisted(prop, failing):
    known_sigs = {k["sig"] for k in C.load_known(prop) if k.get("status", "open") == "open"}
    return [f for f in failing if f.sig not in known_sigs]


if __name__ == "__main__":
    try:
        sys.exit(main())
    except C.Infra as e:
        print("INFRASTRUCTURE-ERROR:", e)
        sys.exit(2)
    except Exception:
        traceback.print_exc()
        sys.exit(2)
