#!/usr/bin/env python3
"""Evaluate a seeded property-breaking change against the checks (development tool, not a registered command).

usage: eval_seeded.py <property id> <dir with patch.diff, demo.py[, notes.md]> <label>
  1. fresh scratch worktree of /repo HEAD; the demo must pass (exit 0) on it
  2. apply the patch; baseline suite must still report 210 passed; the demo must fail (exit 1)
  3. VERIF_REPO=<worktree> ./check <id> --tier quick  -> exit code, VIOLATION lines, kind of replay
  4. keep the change under /verif/seeded/<label>/ with meta.json; restore generated files; remove the worktree
"""
import json
import os
import re
import shutil
import subprocess
import sys
import time

HOME = os.path.dirname(os.path.dirname(os.path.abspath(__file__)))


def sh(cmd, **kw):
    return subprocess.run(cmd, shell=True, capture_output=True, text=True, **kw)


def main():
    if HOME == "/verif" and not os.environ.get("VERIF_EVAL_IN_PLACE"):
        # evaluate in a COPY of /verif: the run regenerates tables and evidence in place, and development in /verif goes on
        # meanwhile (a table left over from an evaluation once got committed and broke the setup build of a fresh copy)
        copy = "/tmp/verif-eval"
        sh(f"rsync -a --delete --exclude seeded {HOME}/ {copy}/")
        r = subprocess.run([sys.executable, os.path.join(copy, "py", "eval_seeded.py")] + sys.argv[1:])
        dst = os.path.join(HOME, "seeded", sys.argv[3])
        if os.path.isdir(os.path.join(copy, "seeded", sys.argv[3])):
            shutil.rmtree(dst, ignore_errors=True)
            shutil.copytree(os.path.join(copy, "seeded", sys.argv[3]), dst)
        return r.returncode
    prop, src, label = sys.argv[1], sys.argv[2], sys.argv[3]
    extra = sys.argv[4:]            # further property ids to run as well
    wt = f"/tmp/evalwt-{label}"
    sh(f"git -C /repo worktree remove --force {wt}")
    r = sh(f"git -C /repo worktree add -q {wt} HEAD")
    meta = {"property": prop, "label": label, "repo_head": sh("git -C /repo rev-parse --short HEAD").stdout.strip(), "ran": []}
    env = f"PYTHONPATH={wt}/sdk:{wt}/compliance_tool"
    demo = os.path.join(src, "demo.py")
    dirty0 = set(sh(f"git -C {HOME} diff --name-only").stdout.split())
    try:
        d0 = sh(f"cd {wt} && {env} timeout 300 /venv/bin/python {demo}")
        meta["demo_unchanged_exit"] = d0.returncode
        ap = sh(f"git -C {wt} apply {os.path.join(src, 'patch.diff')}")
        if ap.returncode != 0:
            meta["error"] = "patch does not apply: " + ap.stderr[:300]
            print(json.dumps(meta, indent=1)); return 2
        t = sh(f"cd {wt} && /venv/bin/python -m pytest -q -p no:cacheprovider --continue-on-collection-errors 2>&1 | tail -1")
        meta["tests_with_change"] = t.stdout.strip()
        d1 = sh(f"cd {wt} && {env} timeout 300 /venv/bin/python {demo}")
        meta["demo_changed_exit"] = d1.returncode
        meta["demo_changed_output"] = (d1.stdout + d1.stderr)[-400:]
        meta["valid_seed"] = (d0.returncode == 0 and d1.returncode != 0 and "210 passed" in t.stdout)
        results = {}
        for pid in [prop] + extra:
            t0 = time.time()
            c = sh(f"cd {HOME} && VERIF_REPO={wt} timeout 1500 ./check {pid} --tier quick")
            out = c.stdout + c.stderr
            vio = [l for l in out.splitlines() if l.startswith("VIOLATION")]
            results[pid] = {"exit": c.returncode, "violations": vio[:6], "detail": [l.strip() for l in out.splitlines() if l.startswith("  ")][:6],
                            "with_failing_input": any("no-failing-input-found" not in v for v in vio), "wall_s": round(time.time() - t0, 1)}
            meta["ran"].append(f"VERIF_REPO={wt} ./check {pid} --tier quick")
        meta["checks"] = results
        meta["caught"] = results[prop]["exit"] == 1
    finally:
        sh(f"git -C /repo worktree remove --force {wt}")
        dirty1 = set(sh(f"git -C {HOME} diff --name-only").stdout.split())
        mine = [f for f in dirty1 - dirty0 if f.startswith(("lean/Basyx/Gen/", "evidence/"))]
        if mine:
            sh(f"git -C {HOME} checkout -- " + " ".join(mine))
    dst = os.path.join(HOME, "seeded", label)
    os.makedirs(dst, exist_ok=True)
    for f in ("patch.diff", "demo.py", "notes.md"):
        if os.path.exists(os.path.join(src, f)):
            shutil.copy(os.path.join(src, f), os.path.join(dst, f))
    notes = open(os.path.join(src, "notes.md")).read() if os.path.exists(os.path.join(src, "notes.md")) else ""
    meta["needs_to_manifest"] = re.sub(r"\s+", " ", notes)[:600]
    json.dump(meta, open(os.path.join(dst, "meta.json"), "w"), indent=1)
    print(json.dumps({k: meta[k] for k in ("label", "valid_seed", "caught", "tests_with_change", "demo_unchanged_exit", "demo_changed_exit")}))
    for pid, r in meta.get("checks", {}).items():
        print(" ", pid, "exit", r["exit"], "failing-input" if r["with_failing_input"] else "", r["violations"][:2], r["detail"][:2])
    return 0


if __name__ == "__main__":
    sys.exit(main())
