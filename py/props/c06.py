"""C06 — XSD simple values keep their value and type through the lexical mapping (basyx.aas.model.datatypes).

translate():   XSD_TYPE_NAMES + alias/class bindings + the range literals of the 13 bounded int classes, by `ast`
               -> lean/Basyx/Gen/XsdNames.lean (consumed by `decide` obligations in Props/C06.lean and by the driver)
correspond():  model (lean/Mains/C06.lean) vs. implementation on literals and values, exhaustive where finite
oracle():      the property stated over xsd_repr / from_xsd / trivial_cast / XSD_TYPE_NAMES with an independent validator
"""
from __future__ import annotations

import ast
import os
import random
from typing import Any, Dict, List, Optional, Tuple

from vf import common as C

ID = "C06"
LEAN_MODULE = "Basyx.Props.C06"
LEVEL = "proof"

MANIFEST = {
    "text": "Lean theorems for EVERY value of the modelled XSD types: xsd_repr yields a literal of the type's XML-Schema lexical space "
            "and from_xsd returns the same value (all integers incl. the 13 bounded classes, boolean, the three string types, "
            "date/dateTime/time/gYear/gMonth/gDay/gYearMonth/gMonthDay over years 1..9999, every month/day, all 10^6 microsecond "
            "fractions, all 1681 zone offsets, hexBinary and base64Binary over arbitrary byte lists, durations over all field/sign "
            "combinations, decimals of any exponent, the NaN/INF literal table); rejection theorems for literals outside the lexical "
            "space and values outside the integer ranges (ranges and the name table are regenerated from the source and discharged by "
            "`decide`); name table one-to-one and each type under its own xs: name. Tied to the code by a differential run "
            "(exhaustive over the finite spaces) and an implementation oracle with an independent XSD literal validator.",
    "note": "finite float digit strings are CPython's repr (opaque); Decimal arithmetic, re, datetime, dateutil, base64/binascii "
            "are modelled from their documented/observed behaviour and exercised by the tie, not verified; only ASCII digits and "
            "white space are modelled for int()/float()/Decimal()/\\d; requires fixes/C06-*.patch (7 small repairs); the remaining "
            "laxness of from_xsd (underscores, non-ASCII digits, out-of-range zones, lenient base64/hex, P/PT, Decimal NaN/Inf) is "
            "recorded as known findings",
    "technique": "Lean 4 proof: per-type round-trip/validity/rejection theorems over list-of-char models + decide over tables "
                 "regenerated from the source; differential correspondence incl. all 10^6 fractions; implementation oracle",
}
ASSUMPTIONS = [
    "CPython 3.12 semantics of int()/str(int), float repr, decimal.Decimal, re, datetime, dateutil.relativedelta, base64/binascii "
    "as modelled (checked by the differential run, not proved)",
    "finite float/double digit strings are CPython's shortest repr: only their shape (digits . e sign) is assumed",
    "integers of more than 4300 digits (sys.int_max_str_digits) and Decimal exponents beyond libmpdec's limits are out of scope",
    "zone offsets are whole minutes (offsets with seconds are a neutral zone)",
    "neutral zones not judged: whitespace-collapse literals (incl. a trailing newline), year 0000 / negative years / years > 9999, "
    "24:00:00, leap seconds, bool passed as integer, NaN equality",
]

SRC = os.path.join(C.REPO, "sdk", "basyx", "aas", "model", "datatypes.py")
GEN = os.path.join(C.LEAN_DIR, "Basyx", "Gen", "XsdNames.lean")

# 31 types: python identifier -> own XSD local name (XML Schema Part 2 §3; written here independently of the source)
OWN_NAMES = {
    "Duration": "duration", "DateTime": "dateTime", "Date": "date", "Time": "time", "GYearMonth": "gYearMonth",
    "GYear": "gYear", "GMonthDay": "gMonthDay", "GMonth": "gMonth", "GDay": "gDay", "Boolean": "boolean",
    "Base64Binary": "base64Binary", "HexBinary": "hexBinary", "Float": "float", "Double": "double", "Decimal": "decimal",
    "Integer": "integer", "Long": "long", "Int": "int", "Short": "short", "Byte": "byte",
    "NonPositiveInteger": "nonPositiveInteger", "NegativeInteger": "negativeInteger",
    "NonNegativeInteger": "nonNegativeInteger", "PositiveInteger": "positiveInteger", "UnsignedLong": "unsignedLong",
    "UnsignedInt": "unsignedInt", "UnsignedShort": "unsignedShort", "UnsignedByte": "unsignedByte", "AnyURI": "anyURI",
    "String": "string", "NormalizedString": "normalizedString",
}
# XML Schema Part 2 §3.3.13 – §3.3.25 value spaces
XSD_RANGES: Dict[str, Tuple[Optional[int], Optional[int]]] = {
    "Integer": (None, None), "Long": (-2 ** 63, 2 ** 63 - 1), "Int": (-2 ** 31, 2 ** 31 - 1), "Short": (-2 ** 15, 2 ** 15 - 1),
    "Byte": (-128, 127), "NonPositiveInteger": (None, 0), "NegativeInteger": (None, -1), "NonNegativeInteger": (0, None),
    "PositiveInteger": (1, None), "UnsignedLong": (0, 2 ** 64 - 1), "UnsignedInt": (0, 2 ** 32 - 1),
    "UnsignedShort": (0, 2 ** 16 - 1), "UnsignedByte": (0, 255),
}
INT_TYPES = list(XSD_RANGES)


# =============================================================================================== translator

class Unrecognised(Exception):
    pass


def _const(node: ast.AST) -> int:
    """integer constant expression: literals, + - * ** and unary minus"""
    if isinstance(node, ast.Constant) and isinstance(node.value, int) and not isinstance(node.value, bool):
        return node.value
    if isinstance(node, ast.UnaryOp) and isinstance(node.op, ast.USub):
        return -_const(node.operand)
    if isinstance(node, ast.BinOp) and isinstance(node.op, (ast.Add, ast.Sub, ast.Mult, ast.Pow)):
        a, b = _const(node.left), _const(node.right)
        if isinstance(node.op, ast.Pow):
            if not 0 <= b <= 4096:
                raise Unrecognised("exponent " + ast.unparse(node))
            return a ** b
        return {ast.Add: a + b, ast.Sub: a - b, ast.Mult: a * b}[type(node.op)]
    raise Unrecognised("constant expression " + ast.unparse(node))


def _inter(a, b):
    lo = a[0] if b[0] is None else b[0] if a[0] is None else max(a[0], b[0])
    hi = a[1] if b[1] is None else b[1] if a[1] is None else min(a[1], b[1])
    return (lo, hi)


def _true_set(test: ast.AST, var: str):
    """interval of `var` on which a comparison chain is true (conjunction of its links)"""
    if isinstance(test, ast.Compare):
        terms = [test.left] + list(test.comparators)
        acc = (None, None)
        for l, op, r in zip(terms, test.ops, terms[1:]):
            if isinstance(l, ast.Name) and l.id == var:
                c = _const(r)
                iv = {ast.Gt: (c + 1, None), ast.GtE: (c, None), ast.Lt: (None, c - 1), ast.LtE: (None, c)}.get(type(op))
            elif isinstance(r, ast.Name) and r.id == var:
                c = _const(l)
                iv = {ast.Gt: (None, c - 1), ast.GtE: (None, c), ast.Lt: (c + 1, None), ast.LtE: (c, None)}.get(type(op))
            else:
                raise Unrecognised("comparison " + ast.unparse(test))
            if iv is None:
                raise Unrecognised("operator in " + ast.unparse(test))
            acc = _inter(acc, iv)
        return acc
    if isinstance(test, ast.BoolOp) and isinstance(test.op, ast.And):
        acc = (None, None)
        for v in test.values:
            acc = _inter(acc, _true_set(v, var))
        return acc
    raise Unrecognised("condition " + ast.unparse(test))


def _accept_of_raise(test: ast.AST, var: str):
    """interval of `var` on which `if test: raise` does NOT raise"""
    if isinstance(test, ast.UnaryOp) and isinstance(test.op, ast.Not):
        return _true_set(test.operand, var)
    if isinstance(test, ast.BoolOp) and isinstance(test.op, ast.Or):
        acc = (None, None)
        for v in test.values:
            acc = _inter(acc, _accept_of_raise(v, var))
        return acc
    if isinstance(test, ast.Compare) and len(test.ops) == 1:
        lo, hi = _true_set(test, var)        # a ray
        if lo is None and hi is not None:
            return (hi + 1, None)
        if hi is None and lo is not None:
            return (None, lo - 1)
    raise Unrecognised("raise condition " + ast.unparse(test))


def _int_class_range(cls: ast.ClassDef):
    """(lo, hi) accepted by `__new__` of an int subclass of the shape
         res = int.__new__(cls, *args, **kwargs); if <cond on res>: raise ValueError(...); return res"""
    news = [n for n in cls.body if isinstance(n, ast.FunctionDef) and n.name == "__new__"]
    if not news:
        return (None, None)
    body = [s for s in news[0].body if not (isinstance(s, ast.Expr) and isinstance(s.value, ast.Constant))]
    if not (len(body) >= 2 and isinstance(body[0], ast.Assign) and len(body[0].targets) == 1
            and isinstance(body[0].targets[0], ast.Name)
            and ast.unparse(body[0].value) == "int.__new__(cls, *args, **kwargs)"
            and isinstance(body[-1], ast.Return) and isinstance(body[-1].value, ast.Name)
            and body[-1].value.id == body[0].targets[0].id):
        raise Unrecognised(f"{cls.name}.__new__ shape")
    var = body[0].targets[0].id
    acc = (None, None)
    for st in body[1:-1]:
        if not (isinstance(st, ast.If) and not st.orelse and len(st.body) == 1 and isinstance(st.body[0], ast.Raise)
                and isinstance(st.body[0].exc, ast.Call) and ast.unparse(st.body[0].exc.func) == "ValueError"):
            raise Unrecognised(f"{cls.name}.__new__ statement: {ast.unparse(st)[:60]}")
        acc = _inter(acc, _accept_of_raise(st.test, var))
    return acc


def extract(src_path: str = None) -> Dict[str, Any]:
    """Everything the Lean side needs, read from the source text only."""
    tree = ast.parse(open(src_path or SRC, encoding="utf-8").read())
    classes: Dict[str, ast.ClassDef] = {}
    aliases: Dict[str, str] = {}
    names_node = classes_node = None
    for n in tree.body:
        if isinstance(n, ast.ClassDef):
            classes[n.name] = n
        elif isinstance(n, ast.Assign) and len(n.targets) == 1 and isinstance(n.targets[0], ast.Name):
            if isinstance(n.value, (ast.Name, ast.Attribute)):
                aliases[n.targets[0].id] = ast.unparse(n.value)
        elif isinstance(n, ast.AnnAssign) and isinstance(n.target, ast.Name):
            if n.target.id == "XSD_TYPE_NAMES":
                names_node = n.value
            elif n.target.id == "XSD_TYPE_CLASSES":
                classes_node = n.value
    if names_node is None:
        raise Unrecognised("XSD_TYPE_NAMES not found")
    prefix = ""
    d = names_node
    if isinstance(d, ast.DictComp):
        if not (ast.unparse(d.key) == "k" and isinstance(d.value, ast.BinOp) and isinstance(d.value.op, ast.Add)
                and isinstance(d.value.left, ast.Constant) and isinstance(d.value.left.value, str)
                and ast.unparse(d.value.right) == "v" and len(d.generators) == 1
                and ast.unparse(d.generators[0].target) == "(k, v)" and not d.generators[0].ifs
                and isinstance(d.generators[0].iter, ast.Call) and isinstance(d.generators[0].iter.func, ast.Attribute)
                and d.generators[0].iter.func.attr == "items" and isinstance(d.generators[0].iter.func.value, ast.Dict)):
            raise Unrecognised("XSD_TYPE_NAMES comprehension shape")
        prefix = d.value.left.value
        d = d.generators[0].iter.func.value
    if not isinstance(d, ast.Dict):
        raise Unrecognised("XSD_TYPE_NAMES is not a dict literal")
    rows = []
    for k, v in zip(d.keys, d.values):
        if not (isinstance(k, ast.Name) and isinstance(v, ast.Constant) and isinstance(v.value, str)):
            raise Unrecognised("XSD_TYPE_NAMES entry " + ast.unparse(k if k is not None else v))
        if k.id in classes:
            bound = "class " + k.id
        elif k.id in aliases:
            bound = "alias " + aliases[k.id]
        else:
            raise Unrecognised("XSD_TYPE_NAMES key bound to nothing recognisable: " + k.id)
        rows.append((k.id, bound, prefix + v.value))
    inverse = classes_node is not None and ast.unparse(classes_node) == "{v: k for k, v in XSD_TYPE_NAMES.items()}"
    ranges = []
    for name, cls in classes.items():
        if any(ast.unparse(b) == "int" for b in cls.bases):
            ranges.append((name,) + _int_class_range(cls))
    return {"names": rows, "inverse": inverse, "ranges": ranges,
            "int_aliases": sorted(a for a, t in aliases.items() if t in ("int", "bool"))}


def _lean_opt_int(v: Optional[int]) -> str:
    return "none" if v is None else f"some ({v})"


def render(ex: Dict[str, Any]) -> str:
    out = ["/- GENERATED on every run by py/props/c06.py translate() from sdk/basyx/aas/model/datatypes.py (by `ast`, the module is",
           "   not imported).  Do not edit. -/",
           "namespace Basyx.Gen.XsdNames", "",
           "/-- rows of the `XSD_TYPE_NAMES` literal: (key identifier, what that identifier is bound to, announced name) -/",
           "def xsdNames : List (String × String × String) := ["]
    out += [f'  ("{a}", "{b}", "{c}"),' for a, b, c in ex["names"]]
    if ex["names"]:
        out[-1] = out[-1][:-1]
    out += ["]", "",
            "/-- `XSD_TYPE_CLASSES` is literally `{v: k for k, v in XSD_TYPE_NAMES.items()}` -/",
            f"def classesIsInverse : Bool := {'true' if ex['inverse'] else 'false'}", "",
            "/-- per `class X(int)`: the interval outside which `__new__` raises ValueError (from its comparison literals) -/",
            "def intRanges : List (String × Option Int × Option Int) := ["]
    out += [f'  ("{n}", {_lean_opt_int(lo)}, {_lean_opt_int(hi)}),' for n, lo, hi in ex["ranges"]]
    if ex["ranges"]:
        out[-1] = out[-1][:-1]
    out += ["]", "", "end Basyx.Gen.XsdNames", ""]
    return "\n".join(out)


def translate(ctx: C.Ctx) -> List[str]:
    broken: List[str] = []
    try:
        ex = extract()
    except Unrecognised as e:
        return [f"datatypes.py: unrecognised construct: {e}"]
    for s in [r[0] for r in ex["names"]] + [r[2] for r in ex["names"]] + [r[1] for r in ex["names"]]:
        if '"' in s or "\\" in s or "\n" in s:
            return [f"datatypes.py: name not representable: {s!r}"]
    txt = render(ex)
    old = open(GEN, encoding="utf-8").read() if os.path.exists(GEN) else None
    if old != txt:
        os.makedirs(os.path.dirname(GEN), exist_ok=True)
        tmp = GEN + ".tmp"
        with open(tmp, "w", encoding="utf-8") as f:
            f.write(txt)
        os.replace(tmp, GEN)
    if not ex["inverse"]:
        broken.append("XSD_TYPE_CLASSES is no longer the literal inverse comprehension of XSD_TYPE_NAMES")
    return broken


# =============================================================================================== implementation side

def _D():
    from basyx.aas.model import datatypes as D
    return D


def _tz(m):
    import datetime
    return None if m is None else datetime.timezone(datetime.timedelta(minutes=m))


def _tz_canon(tzinfo):
    if tzinfo is None:
        return None
    secs = tzinfo.utcoffset(None).total_seconds()
    return int(secs // 60) if secs % 60 == 0 else ["sec", secs]


def _float_canon(f: float):
    import math
    if math.isnan(f):
        return "nan"
    if math.isinf(f):
        return "inf" if f > 0 else "-inf"
    return ["finite", repr(float(f))]


def _dec_canon(d):
    t = d.as_tuple()
    if t.exponent == "F":
        return ["inf", bool(t.sign)]
    if t.exponent in ("n", "N"):
        return ["nan", bool(t.sign), t.exponent == "N"]
    return ["fin", bool(t.sign), str(int("".join(map(str, t.digits)) or "0")), str(t.exponent)]


def canon_value(ty: str, v) -> Any:
    """public attributes of a value of type `ty`, in the encoding of the Lean driver"""
    if ty == "Duration":
        fs = [v.years, v.months, v.days, v.hours, v.minutes, v.seconds, v.microseconds]
        extra = [v.leapdays, v.year, v.month, v.day, v.weekday, v.hour, v.minute, v.second, v.microsecond]
        if extra != [0] + [None] * 8 or any(not isinstance(f, int) for f in fs):
            return ["unmodelled-duration", repr(v)]
        return [str(f) for f in fs]
    if ty == "DateTime":
        return [v.year, v.month, v.day, v.hour, v.minute, v.second, v.microsecond, _tz_canon(v.tzinfo)]
    if ty == "Date":
        return [v.year, v.month, v.day, _tz_canon(v.tzinfo)]
    if ty == "Time":
        return [v.hour, v.minute, v.second, v.microsecond, _tz_canon(v.tzinfo)]
    if ty == "GYearMonth":
        return [v.year, v.month, _tz_canon(v.tzinfo)]
    if ty == "GYear":
        return [v.year, _tz_canon(v.tzinfo)]
    if ty == "GMonthDay":
        return [v.month, v.day, _tz_canon(v.tzinfo)]
    if ty == "GMonth":
        return [v.month, _tz_canon(v.tzinfo)]
    if ty == "GDay":
        return [v.day, _tz_canon(v.tzinfo)]
    if ty == "Boolean":
        return bool(v)
    if ty in ("Base64Binary", "HexBinary"):
        return list(bytes(v))
    if ty in ("Float", "Double"):
        return _float_canon(v)
    if ty == "Decimal":
        return _dec_canon(v)
    if ty in ("AnyURI", "String", "NormalizedString"):
        return str(v)
    return str(int(v))


def build_value(D, ty: str, j):
    """inverse of canon_value (raises what the constructor raises)"""
    import decimal
    import datetime
    if ty == "Duration":
        y, mo, d, h, mi, s, us = [int(x) for x in j]
        return D.Duration(years=y, months=mo, days=d, hours=h, minutes=mi, seconds=s, microseconds=us)
    if ty == "DateTime":
        return datetime.datetime(*j[:7], _tz(j[7]))
    if ty == "Date":
        return D.Date(j[0], j[1], j[2], _tz(j[3]))
    if ty == "Time":
        return datetime.time(*j[:4], _tz(j[4]))
    if ty == "GYearMonth":
        return D.GYearMonth(j[0], j[1], _tz(j[2]))
    if ty == "GYear":
        return D.GYear(j[0], _tz(j[1]))
    if ty == "GMonthDay":
        return D.GMonthDay(j[0], j[1], _tz(j[2]))
    if ty == "GMonth":
        return D.GMonth(j[0], _tz(j[1]))
    if ty == "GDay":
        return D.GDay(j[0], _tz(j[1]))
    if ty == "Boolean":
        return bool(j)
    if ty == "Base64Binary":
        return D.Base64Binary(bytes(j))
    if ty == "HexBinary":
        return D.HexBinary(bytes(j))
    if ty in ("Float", "Double"):
        T = getattr(D, ty)
        return T(float(j) if isinstance(j, str) else float(j[1]))
    if ty == "Decimal":
        if j[0] == "fin":
            return decimal.Decimal((1 if j[1] else 0, tuple(int(c) for c in str(j[2])), int(j[3])))
        if j[0] == "inf":
            return decimal.Decimal("-Infinity" if j[1] else "Infinity")
        return decimal.Decimal(("-" if j[1] else "") + ("sNaN" if j[2] else "NaN"))
    if ty in ("AnyURI", "NormalizedString"):
        return getattr(D, ty)(j)
    if ty == "String":
        return str(j)
    if ty == "Integer":
        return int(j)
    return getattr(D, ty)(int(j))


def _exc(e: BaseException):
    return ["raise", "ValueError" if isinstance(e, ValueError) else type(e).__name__]


def impl_parse(D, ty: str, s: str):
    try:
        v = D.from_xsd(s, getattr(D, ty))
    except Exception as e:
        if ty in ("Float", "Double"):
            return ["not-special"]
        return _exc(e)
    if ty in ("Float", "Double"):
        c = _float_canon(v)
        return ["ok", c] if isinstance(c, str) else ["not-special"]
    return ["ok", canon_value(ty, v)]


def impl_repr(D, ty: str, j):
    try:
        v = build_value(D, ty, j)
    except Exception as e:
        return ["construct-raise", type(e).__name__]
    try:
        return ["ok", D.xsd_repr(v)]
    except Exception as e:
        return _exc(e)


def impl_cast(D, ty: str, pv):
    import datetime
    k = pv[0]
    val = {"int": lambda: int(pv[1]), "bool": lambda: bool(pv[1]), "float": lambda: 1.5, "str": lambda: pv[1],
           "bytes": lambda: b"ab", "date": lambda: datetime.date(*pv[1:]), "datetime": lambda: datetime.datetime(*pv[1:], 12, 30),
           "none": lambda: None}[k]()
    T = getattr(D, ty)
    try:
        r = D.trivial_cast(val, T)
    except Exception as e:
        return _exc(e)
    if r is val:
        return ["same"]
    if type(r) is not T and not (T is D.Boolean and type(r) is bool):
        return ["wrong-class", type(r).__name__]
    if isinstance(r, bool):
        return ["bool", r]
    if isinstance(r, int):
        return ["int", str(int(r))]
    if isinstance(r, float):
        return ["float"]
    if isinstance(r, str):
        return ["str", str(r)]
    if isinstance(r, bytearray):
        return ["bytes"]
    if isinstance(r, datetime.date):
        return ["date", r.year, r.month, r.day] if r.tzinfo is None else ["date-with-tz"]
    return ["other", repr(r)]


# =============================================================================================== independent XSD validator

import re as _re

_TZ = r"(Z|[+-]((0[0-9]|1[0-3]):[0-5][0-9]|14:00))?"
_YEAR = r"-?([1-9][0-9]{3,}|0[0-9]{3})"
_TIME = r"(([01][0-9]|2[0-3]):[0-5][0-9]:[0-5][0-9](\.[0-9]+)?|24:00:00(\.0+)?)"
_B64 = r"[A-Za-z0-9+/]"
_XSD_RE = {
    "integer": _re.compile(r"[+-]?[0-9]+"),
    "Boolean": _re.compile(r"true|false|1|0"),
    "Decimal": _re.compile(r"[+-]?([0-9]+(\.[0-9]*)?|\.[0-9]+)"),
    "Float": _re.compile(r"[+-]?([0-9]+(\.[0-9]*)?|\.[0-9]+)([Ee][+-]?[0-9]+)?|[+-]?INF|NaN"),
    "Date": _re.compile(rf"(?P<y>{_YEAR})-(?P<m>[0-9]{{2}})-(?P<d>[0-9]{{2}}){_TZ}"),
    "Time": _re.compile(rf"{_TIME}{_TZ}"),
    "DateTime": _re.compile(rf"(?P<y>{_YEAR})-(?P<m>[0-9]{{2}})-(?P<d>[0-9]{{2}})T{_TIME}{_TZ}"),
    "GYear": _re.compile(rf"{_YEAR}{_TZ}"),
    "GYearMonth": _re.compile(rf"{_YEAR}-(0[1-9]|1[0-2]){_TZ}"),
    "GMonth": _re.compile(rf"--(0[1-9]|1[0-2]){_TZ}"),
    "GDay": _re.compile(rf"---(0[1-9]|[12][0-9]|3[01]){_TZ}"),
    "GMonthDay": _re.compile(rf"--(?P<m>0[1-9]|1[0-2])-(?P<d>[0-9]{{2}}){_TZ}"),
    "Duration": _re.compile(r"-?P(?=[0-9T])([0-9]+Y)?([0-9]+M)?([0-9]+D)?(T(?=[0-9])([0-9]+H)?([0-9]+M)?([0-9]+(\.[0-9]+)?S)?)?"),
    "HexBinary": _re.compile(r"([0-9a-fA-F]{2})*"),
    "Base64Binary": _re.compile(rf"((({_B64} ?){{4}})*(({_B64} ?){{3}}{_B64}|({_B64} ?){{2}}[AEIMQUYcgkosw048] ?=|{_B64} ?[AQgw] ?= ?=))?"),
}
_XSD_RE["Double"] = _XSD_RE["Float"]


def _dim(y: int, m: int) -> int:
    if m == 2:
        return 29 if (y % 4 == 0 and (y % 100 != 0 or y % 400 == 0)) else 28
    return 30 if m in (4, 6, 9, 11) else 31


def xsd_valid(ty: str, s: str) -> bool:
    """Is `s` in the lexical space of the XSD type (XML Schema Part 2, 2nd ed.; year 0000 tolerated as in XSD 1.1)?
    Written from the recommendation, independently of the SDK and of the Lean `valid…` functions."""
    if ty in ("String", "AnyURI"):
        return True
    if ty == "NormalizedString":
        return not any(c in s for c in "\r\n\t")
    if ty in XSD_RANGES:
        return _XSD_RE["integer"].fullmatch(s) is not None
    m = _XSD_RE[ty].fullmatch(s)
    if m is None:
        return False
    if ty in ("Date", "DateTime"):
        mo, d = int(m.group("m")), int(m.group("d"))
        return 1 <= mo <= 12 and 1 <= d <= _dim(abs(int(m.group("y"))), mo)
    if ty == "GMonthDay":
        mo, d = int(m.group("m")), int(m.group("d"))
        return 1 <= d <= (29 if mo == 2 else 30 if mo in (4, 6, 9, 11) else 31)
    return True


# =============================================================================================== generators

DATE_TYPES = ["Date", "DateTime", "Time", "GYear", "GMonth", "GDay", "GYearMonth", "GMonthDay"]
ALL_TYPES = list(OWN_NAMES)
TZ_POOL = [0, 1, -1, 59, -59, 60, -60, 330, -570, 719, 720, 721, -719, -720, -721, 780, -780, 839, 840, -839, -840]
YEAR_POOL = [1, 2, 4, 99, 100, 400, 999, 1000, 1582, 1900, 1999, 2000, 2023, 2024, 2100, 9998, 9999]
US_POOL = [1, 9, 10, 100, 248, 249, 1000, 10000, 100000, 123450, 123456, 500000, 900000, 999990, 999999]

ALPHABET = {
    "date": "0123456789-:+TZ. \n",
    "int": "0123456789+-_ \t\n.eE",
    "b64": "ABCQgwxyz0189+/= \n*!",
    "hex": "0123456789abcdefABCDEFg \n",
    "dur": "0123456789PTYMDHS.-+ \n",
    "dec": "0123456789.+-eE_ nNaAiIfFsStyY",
    "bool": "truefals10TF ",
}


def _alpha(ty: str) -> str:
    if ty in DATE_TYPES:
        return ALPHABET["date"]
    if ty in XSD_RANGES:
        return ALPHABET["int"]
    return {"Base64Binary": ALPHABET["b64"], "HexBinary": ALPHABET["hex"], "Duration": ALPHABET["dur"],
            "Decimal": ALPHABET["dec"], "Float": ALPHABET["dec"], "Double": ALPHABET["dec"],
            "Boolean": ALPHABET["bool"]}.get(ty, "ab \r\n\tü€")


def gen_tz(rng: random.Random):
    r = rng.random()
    if r < 0.4:
        return None
    if r < 0.7:
        return rng.choice(TZ_POOL)
    return rng.randint(-840, 840)


def gen_year(rng):
    return rng.choice(YEAR_POOL) if rng.random() < 0.5 else rng.randint(1, 9999)


def gen_us(rng):
    r = rng.random()
    return 0 if r < 0.3 else rng.choice(US_POOL) if r < 0.6 else rng.randrange(10 ** 6)


def gen_int_for(ty: str, rng):
    lo, hi = XSD_RANGES[ty]
    pool = [0, 1, -1, 7, -7, 127, 128, -128, -129, 255, 256, 2 ** 15, 2 ** 16, 2 ** 31, 2 ** 32, 2 ** 63, 2 ** 64, 10 ** 30, -10 ** 30]
    for b in (lo, hi):
        if b is not None:
            pool += [b - 1, b, b + 1]
    r = rng.random()
    if r < 0.7:
        return rng.choice(pool)
    return rng.randint(-2 ** 70, 2 ** 70) if r < 0.85 else rng.randint(-300, 300)


def gen_dur(rng):
    mags = [1, 2, 11, 12, 13, 23, 24, 25, 59, 60, 61, 100, 999999, 1000000, 1000001, 86400, 10 ** 9]
    same = rng.random() < 0.7
    sign = rng.choice([1, -1])
    out = []
    for _ in range(7):
        if rng.random() < 0.5:
            out.append(0)
        else:
            m = rng.choice(mags) if rng.random() < 0.7 else rng.randint(1, 10 ** 7)
            out.append(m * (sign if same else rng.choice([1, -1])))
    return [str(x) for x in out]


def gen_float(rng):
    import struct
    r = rng.random()
    if r < 0.15:
        return rng.choice(["nan", "inf", "-inf"])
    if r < 0.4:
        f = rng.choice([0.0, -0.0, 1.0, 1e16, 1e15, 1e-5, 1e-4, 5e-324, 2.2250738585072014e-308, 1.7976931348623157e308,
                        0.1, 123456789.125, 1e22, 1e21, 9007199254740993.0, -1.5e-300, 3.0e10])
        return ["finite", repr(f)]
    while True:
        f = struct.unpack("<d", struct.pack("<Q", rng.getrandbits(64)))[0]
        if f == f and f not in (float("inf"), float("-inf")):
            return ["finite", repr(f)]


def gen_dec(rng):
    r = rng.random()
    if r < 0.05:
        return rng.choice([["inf", False], ["inf", True], ["nan", False, False], ["nan", True, False], ["nan", False, True]])
    coeff = rng.choice([0, 1, 5, 10, 12, 100, 123, 1200, 10 ** 9, 10 ** 20 + 1, 999]) if rng.random() < 0.6 else rng.randrange(10 ** rng.randint(1, 30))
    exp = rng.choice([0, 1, -1, 2, -2, 5, -5, -7, 7, 28, -28]) if rng.random() < 0.6 else rng.randint(-40, 40)
    return ["fin", rng.random() < 0.4, str(coeff), str(exp)]


def gen_bytes(rng):
    r = rng.random()
    n = rng.choice([0, 1, 2, 3, 4, 5, 6]) if r < 0.5 else rng.randint(0, 40)
    if rng.random() < 0.1:
        return [rng.choice([0, 255])] * n
    return [rng.randrange(256) for _ in range(n)]


def gen_str(rng):
    pool = "ab Z09\r\n\t  ü€😀<&\x00\x0b\x85"
    return "".join(rng.choice(pool) for _ in range(rng.randint(0, 8)))


def gen_value(ty: str, rng):
    """a value of the type (canonical encoding), inside the Python constructor's domain"""
    if ty == "Duration":
        return gen_dur(rng)
    if ty == "Date":
        y, m = gen_year(rng), rng.randint(1, 12)
        return [y, m, rng.choice([1, _dim(y, m), rng.randint(1, _dim(y, m))]), gen_tz(rng)]
    if ty == "Time":
        return [rng.choice([0, 23, rng.randint(0, 23)]), rng.choice([0, 59, rng.randint(0, 59)]),
                rng.choice([0, 59, rng.randint(0, 59)]), gen_us(rng), gen_tz(rng)]
    if ty == "DateTime":
        d = gen_value("Date", rng)
        t = gen_value("Time", rng)
        return d[:3] + t
    if ty == "GYear":
        return [gen_year(rng) if rng.random() < 0.9 else rng.choice([0, -5, -12345, 10000, 123456]), gen_tz(rng)]
    if ty == "GYearMonth":
        return [gen_year(rng) if rng.random() < 0.9 else rng.choice([0, -5, 10000]), rng.randint(1, 12), gen_tz(rng)]
    if ty == "GMonth":
        return [rng.randint(1, 12), gen_tz(rng)]
    if ty == "GDay":
        return [rng.randint(1, 31), gen_tz(rng)]
    if ty == "GMonthDay":
        m = rng.randint(1, 12)
        mx = 29 if m == 2 else 30 if m in (4, 6, 9, 11) else 31
        return [m, rng.choice([1, mx, rng.randint(1, mx)]), gen_tz(rng)]
    if ty == "Boolean":
        return rng.random() < 0.5
    if ty in ("Base64Binary", "HexBinary"):
        return gen_bytes(rng)
    if ty in ("Float", "Double"):
        return gen_float(rng)
    if ty == "Decimal":
        return gen_dec(rng)
    if ty in ("String", "AnyURI"):
        return gen_str(rng)
    if ty == "NormalizedString":
        return "".join(c for c in gen_str(rng) if c not in "\r\n\t")
    lo, hi = XSD_RANGES[ty]
    while True:
        v = gen_int_for(ty, rng)
        if (lo is None or v >= lo) and (hi is None or v <= hi):
            return str(v)


def mutate(s: str, rng, alphabet: str) -> str:
    k = rng.randrange(8)
    if not s:
        return rng.choice(alphabet)
    i = rng.randrange(len(s))
    if k == 0:
        return s[:i] + s[i + 1:]
    if k == 1:
        return s[:i] + rng.choice(alphabet) + s[i:]
    if k == 2:
        return s[:i] + rng.choice(alphabet) + s[i + 1:]
    if k == 3:
        return s[:i] + s[i] + s[i:]
    if k == 4:
        return s[:i]
    if k == 5:
        return s + rng.choice(["\n", " ", "Z", "0", "+14:00", "-00:00", "+15:00", "+05:99", "=", "\n\n"])
    if k == 6:
        return rng.choice([" ", "\t", "+", "-", "0", "\n", "_"]) + s
    return s.swapcase()


HANDMADE: Dict[str, List[str]] = {
    "int": ["", "+", "-", "0", "-0", "+0", "00", "007", "1_0", "1__0", "_1", "1_", " 12 ", "\t12\n", "+5", "- 5", "1.0", "1e3", "0x10",
            "12a", "1 2", "--1", "+-1", "\x1c5", "5\x00", "١٢", "٣", "１２", "1 ", "127", "128", "-128", "-129", "255", "256", "True"],
    "Boolean": ["true", "false", "1", "0", "True", "FALSE", " true", "true ", "", "yes", "2", "01", "tru", "true\n"],
    "Date": ["2020-02-29", "2021-02-29", "1900-02-29", "2000-02-29", "2020-01-01Z", "2020-01-01+14:00", "2020-01-01+14:01", "2020-01-01-14:00",
             "2020-01-01+15:00", "2020-01-01+05:99", "2020-01-01+23:59", "2020-01-01+24:00", "2020-01-01+99:99", "2020-01-01\n", "2020-01-01\n\n",
             "-2020-01-01", "0000-01-01", "0001-01-01", "10000-01-01", "2020-1-1", "2020-13-01", "2020-00-10", "2020-04-31", "2020-01-00", "2020-01-32",
             "2020-01-01z", "2020-01-01+1400", "2020-01-01 ", " 2020-01-01", "２０２０-01-01", "2020-01-01+٠٥:00", "2020-01-01-00:00", "2020-01-01T00:00:00"],
    "Time": ["00:00:00", "23:59:59", "24:00:00", "24:00:00.0", "24:00:01", "23:60:00", "23:59:60", "12:00:00.", "12:00:00.5", "12:00:00.000249",
             "12:00:00.1234567", "12:00:00.9999999", "12:00:00.0000009", "12:00:00.5Z", "12:00:00.5+01:00", "12:00:00+14:00", "12:00:00-14:01",
             "1:00:00", "12:00", "12:00:00\n", "12:00:00.5\n", "12:00:00.\n", "١٢:00:00", "12:00:00,5", "12:00:00.5.5", "12:00:00.+01:00"],
    "DateTime": ["2020-01-01T00:00:00", "2020-01-01T24:00:00", "2020-02-30T00:00:00", "2020-01-01t00:00:00", "2020-01-01 00:00:00",
                 "2020-01-01T00:00:00.000249Z", "2020-01-01T00:00:00-00:00", "2020-01-01T00:00:00+23:59", "-2020-01-01T00:00:00", "0000-01-01T00:00:00",
                 "2020-01-01T00:00:00\n", "9999-12-31T23:59:59.999999+14:00", "0001-01-01T00:00:00-14:00", "2020-01-01T00:00", "2020-01-01"],
    "GYear": ["2020", "0000", "0001", "9999", "10000", "-0001", "999", "2020Z", "2020+01:00", "2020-14:00", "2020+15:00", "2020\n", "20 20", "２０２０"],
    "GMonth": ["--01", "--12", "--00", "--13", "--1", "--01Z", "--01--", "--01+14:00", "-01", "--01\n"],
    "GDay": ["---01", "---31", "---00", "---32", "---1", "---01Z", "---15-05:00", "--01", "---01\n"],
    "GYearMonth": ["2020-05", "999-05", "0999-05", "2020-00", "2020-13", "2020-5", "2020-05Z", "2020-05+14:00", "2020-05-05:15", "-2020-05", "10000-05", "2020-05\n"],
    "GMonthDay": ["--02-29", "--02-30", "--04-31", "--04-30", "--12-31", "--13-01", "--00-10", "--01-00", "--01-32", "--1-1", "--12-06Z", "--12-06+07:00", "--12-06\n"],
    "Duration": ["P", "PT", "-P", "P0D", "P1Y", "P1M", "PT1M", "P1Y2M3DT4H5M6.789S", "-P1Y", "P-1Y", "+P1Y", "PT1.5S", "PT1.S", "PT.5S", "P1M1Y", "PT90S",
                 "PT0.000249S", "-PT1M30.5S", "P1YT", "PT1H1H", "P1S", "PT1Y", "P1.5Y", "P1Y\n", "P 1Y", "p1y", "PT0.0000001S", "PT1.9999999S", "PT60S",
                 "PT3600S", "P13M", "PT25H", "P0Y0M0DT0H0M0S", "PT0S", "-PT0S", "P١Y", "PT1000000.5S", "P99999999999999999999Y"],
    "Base64Binary": ["", "YQ==", "YQ=", "YQ", "Y", "YR==", "YWI=", "YWJ=", "YWJj", "YW Jj", "YQ ==", "YQ= =", " YQ==", "YQ== ", "YQ==\n", "Y  Q==", "YQ=!=", "*YQ==",
                     "YQ==YQ==", "YQ=YQ==", "=YQ==", "Y=Q==", "====", "Y===", "YQ===", "é", "YQ==é", "=", "YWJjZA", "YWJjZA=", "YWJjZA==", "YWJjZ===", "////", "++++", "-_-_"],
    "HexBinary": ["", "0a", "0A", "0a0b", "0a 0b", " 0a", "0a ", "0 a", "0", "0a0", "0g", "é0", "0a\n0b", "0a\t", "\x0b0a", "\x1c0a", "FFff00"],
    "Decimal": ["0", "-0", "+0", "1", "1.", ".5", ".", "", "1.5", "-1.5", "+1.5", "001.500", "1e3", "1E3", "1E+3", "1e-3", "1e", "e5", "1_0", "_1_", "1__0", "1_.5",
                " 1 ", "\x1c1", "1\x1f", "Inf", "inf", "-Infinity", "iNfInItY", "infinit", "NaN", "nan", "-nan", "sNaN", "snan12", "NaN12", "nan1a", "1 e5", "1,5",
                "--1", "+-1", "1.2.3", "1e5e5", "١٢", "0x10", "5.e3", ".e3", "1e0005", "0.00", "1E-0"],
    "Float": ["NaN", "INF", "-INF", "+INF", "nan", "inf", "-inf", "+inf", "Infinity", "-INFINITY", "infinity", "iNf", " inf\n", "in f", "infinit", "nan1", "-nan",
              "+NaN", "1e999", "-1e999", "1_0.0", "1e5", "1E5", "0x1p3", "1.", ".5", ".", "1e", "inf_", "_inf", "\x1cinf", "  +infinity  ", "++inf", "+-inf", "",
              "1.5", "-0", "٣.٥", "NAN", "Nan", "INFINITY"],
    "NormalizedString": ["", "a b", "a\tb", "a\nb", "a\rb", " a ", "a  b", "ü"],
}
HANDMADE["Double"] = HANDMADE["Float"]
for _t in XSD_RANGES:
    HANDMADE[_t] = HANDMADE["int"]


def modelled(ty: str, s: str) -> bool:
    """False where the Lean model is knowingly not faithful: Unicode digits / white space for \\d, int(), float(), Decimal()"""
    if ty in ("String", "AnyURI", "NormalizedString", "Boolean", "Base64Binary", "HexBinary"):
        return True
    if ty == "Decimal" and _re.search(r"[eE][+-]?[0_]*[1-9_][0-9_]{15,}", s):
        return False     # exponent beyond libmpdec's limits (not modelled)
    return all(ord(c) < 128 or not (c.isdecimal() or c.isdigit() or c.isnumeric() or c.isspace()) for c in s)


def bad_fractions() -> List[int]:
    """the microsecond values on which the pinned tree's `int(float("." + digits) * 1e6)` loses one microsecond (corpus)"""
    return [us for us in range(10 ** 6) if int(float(".%06d" % us) * 1e6) != us]


def gen_cases(ctx: C.Ctx) -> List[Tuple[str, str, Any, str]]:
    """(op, type, argument, coverage key)"""
    rng = ctx.rng
    thorough = ctx.tier == "thorough"
    cases: List[Tuple[str, str, Any, str]] = []
    D = _D()

    # --- exhaustive finite spaces -----------------------------------------------------------------------------
    # all microsecond fractions through xs:time (thorough: all 10^6; quick: corpus of the pinned tree's failures + stratified)
    if thorough:
        frs = range(10 ** 6)
    else:
        frs = sorted(set(bad_fractions()) | set(range(0, 10 ** 6, 100)) | set(US_POOL) | {0})
    for us in frs:
        cases.append(("parse", "Time", "12:34:56.%06d" % us, "exh:fraction"))
    for us in (frs if thorough else list(frs)[::10]):
        cases.append(("repr", "Time", [12, 34, 56, us, None], "exh:fraction-repr"))
    # all 1681 offsets x every type with a zone
    for m in range(-840, 841):
        cases.append(("repr", "Date", [2020, 6, 15, m], "exh:offset"))
        cases.append(("repr", "Time", [1, 2, 3, 0, m], "exh:offset"))
        cases.append(("repr", "DateTime", [2020, 6, 15, 1, 2, 3, 4, m], "exh:offset"))
        cases.append(("repr", "GYear", [2020, m], "exh:offset"))
        cases.append(("repr", "GMonth", [6, m], "exh:offset"))
        cases.append(("repr", "GDay", [15, m], "exh:offset"))
        cases.append(("repr", "GYearMonth", [2020, 6, m], "exh:offset"))
        cases.append(("repr", "GMonthDay", [6, 15, m], "exh:offset"))
        z = "%s%02d:%02d" % ("-" if m < 0 else "+", abs(m) // 60, abs(m) % 60)
        for ty, body in (("Date", "2020-06-15"), ("Time", "01:02:03"), ("DateTime", "2020-06-15T01:02:03.5"), ("GYear", "2020"),
                         ("GMonth", "--06"), ("GDay", "---15"), ("GYearMonth", "2020-06"), ("GMonthDay", "--06-15")):
            cases.append(("parse", ty, body + z, "exh:offset-parse"))
    # every zone spelling hh:mm in 00..29 x 00..99 on one type (lax zone acceptance as coded)
    for hh in list(range(0, 30)) + [99]:
        for mm in (range(0, 100) if thorough else (0, 1, 30, 59, 60, 99)):
            for sg in "+-":
                cases.append(("parse", "Date", "2020-06-15%s%02d:%02d" % (sg, hh, mm), "exh:zone-spelling"))
    # all month/day pairs (incl. impossible ones) over leap / non-leap / century years
    for y in (2023, 2024, 1900, 2000, 1, 9999):
        for mo in range(0, 14):
            for d in range(0, 33):
                cases.append(("parse", "Date", "%04d-%02d-%02d" % (y, mo, d), "exh:month-day"))
                if y == 2024:
                    cases.append(("parse", "GMonthDay", "--%02d-%02d" % (mo, d), "exh:month-day"))
                    cases.append(("parse", "DateTime", "%04d-%02d-%02dT00:00:00" % (y, mo, d), "exh:month-day"))
                if 1 <= mo <= 12 and 1 <= d <= _dim(y, mo):
                    cases.append(("repr", "Date", [y, mo, d, None], "exh:month-day-repr"))
    for mo in range(1, 13):
        for d in range(1, 32):
            if d <= (29 if mo == 2 else 30 if mo in (4, 6, 9, 11) else 31):
                cases.append(("repr", "GMonthDay", [mo, d, None], "exh:month-day-repr"))
    for v in range(0, 100):
        cases.append(("parse", "GMonth", "--%02d" % v, "exh:gmonth"))
        cases.append(("parse", "GDay", "---%02d" % v, "exh:gday"))
        cases.append(("parse", "GYearMonth", "2020-%02d" % v, "exh:gyearmonth"))
        cases.append(("parse", "Time", "%02d:00:00" % v, "exh:hour"))
        cases.append(("parse", "Time", "00:%02d:00" % v, "exh:minute"))
        cases.append(("parse", "Time", "00:00:%02d" % v, "exh:second"))
    for y in (range(0, 10000) if thorough else list(range(0, 10000, 37)) + YEAR_POOL + [0]):
        cases.append(("repr", "GYear", [y, None], "exh:year"))
        cases.append(("repr", "GYearMonth", [y, 5, None], "exh:year"))
        cases.append(("parse", "GYear", "%04d" % y, "exh:year"))
        if y >= 1:
            cases.append(("repr", "Date", [y, 2, 28, None], "exh:year"))
    # integer boundaries +-1 for the 13 bounded types (+ Integer)
    for ty, (lo, hi) in XSD_RANGES.items():
        vs = {0, 1, -1}
        for b in (lo, hi):
            if b is not None:
                vs |= {b - 1, b, b + 1}
        for v in sorted(vs):
            for lit in (str(v), "%+d" % v, " %d" % v, "%d\n" % v, ("-" if v < 0 else "") + "00" + str(abs(v))):
                cases.append(("parse", ty, lit, "exh:int-boundary"))
            cases.append(("cast", ty, ["int", str(v)], "exh:int-boundary-cast"))
            if (lo is None or v >= lo) and (hi is None or v <= hi):
                cases.append(("repr", ty, str(v), "exh:int-boundary-repr"))
    # trivial_cast grid
    pvals = [["int", "0"], ["int", "1"], ["int", "2"], ["int", "-1"], ["int", "300"], ["bool", True], ["bool", False], ["float"],
             ["str", "a b"], ["str", "a\tb"], ["str", ""], ["bytes"], ["date", 2020, 2, 29], ["datetime", 2020, 2, 29], ["none"]]
    for ty in ALL_TYPES:
        for pv in pvals:
            cases.append(("cast", ty, pv, "cast:" + pv[0]))

    # --- hand-made literal pools --------------------------------------------------------------------------------
    for ty in ALL_TYPES:
        for s in HANDMADE.get(ty, []):
            cases.append(("parse", ty, s, "hand"))
            cases.append(("valid", ty, s, "hand-valid"))

    # --- seeded random: values (repr), their literals (parse), mutations and random strings (parse + valid) ------
    n = ctx.budget(220, 4000)
    for ty in ALL_TYPES:
        alpha = _alpha(ty)
        for _ in range(n if ty not in XSD_RANGES else max(40, n // 4)):
            val = gen_value(ty, rng)
            cases.append(("repr", ty, val, "rand-value"))
            r = impl_repr(D, ty, val)
            if r[0] != "ok":
                continue
            lit = r[1]
            cases.append(("parse", ty, lit, "rand-literal"))
            cases.append(("valid", ty, lit, "rand-literal-valid"))
            for _ in range(3):
                m = lit
                for _ in range(rng.choice([1, 1, 1, 2, 3])):
                    m = mutate(m, rng, alpha)
                cases.append(("parse", ty, m, "mutation"))
                cases.append(("valid", ty, m, "mutation-valid"))
        for _ in range(n // 2):
            s = "".join(rng.choice(alpha) for _ in range(rng.randint(0, 12)))
            cases.append(("parse", ty, s, "random-string"))
            cases.append(("valid", ty, s, "random-string-valid"))
    # durations written by hand-rolled formatter (fields beyond what xsd_repr emits: leading zeros, big seconds, long fractions)
    for _ in range(ctx.budget(400, 6000)):
        parts = ["-" if rng.random() < 0.3 else "", "P"]
        for c in "YMD":
            if rng.random() < 0.5:
                parts.append("%d%s" % (rng.choice([0, 1, 11, 12, 13, 100, rng.randint(0, 10 ** 6)]), c))
        t = []
        for c in "HM":
            if rng.random() < 0.5:
                t.append("%s%s" % (rng.choice(["0", "1", "23", "24", "59", "60", "61", "007", str(rng.randint(0, 10 ** 5))]), c))
        if rng.random() < 0.6:
            sec = rng.choice(["0", "1", "59", "60", "61", "3600", "86400", str(rng.randint(0, 10 ** 6))])
            if rng.random() < 0.6:
                sec += "." + "".join(rng.choice("0123456789") for _ in range(rng.randint(1, 9)))
            t.append(sec + "S")
        if t or rng.random() < 0.1:
            parts.append("T" + "".join(t))
        s = "".join(parts)
        cases.append(("parse", "Duration", s, "duration-literal"))
        cases.append(("valid", "Duration", s, "duration-literal-valid"))
    # time literals with fractions of 1..9 digits
    for _ in range(ctx.budget(400, 6000)):
        frac = "".join(rng.choice("0123456789") for _ in range(rng.randint(1, 9)))
        z = rng.choice(["", "Z", "+01:00", "-14:00"])
        cases.append(("parse", "Time", "%02d:%02d:%02d.%s%s" % (rng.randint(0, 23), rng.randint(0, 59), rng.randint(0, 59), frac, z), "fraction-length"))
        cases.append(("parse", "DateTime", "2020-02-29T%02d:%02d:%02d.%s%s" % (rng.randint(0, 23), rng.randint(0, 59), rng.randint(0, 59), frac, z), "fraction-length"))
    return cases


# =============================================================================================== correspondence

def impl_eval(D, op: str, ty: str, arg):
    if op == "parse":
        return impl_parse(D, ty, arg)
    if op == "repr":
        return impl_repr(D, ty, arg)
    if op == "cast":
        return impl_cast(D, ty, arg)
    if op == "valid":
        return xsd_valid(ty, arg)
    raise ValueError(op)


def agree(op: str, ty: str, arg, model, impl) -> bool:
    if op == "parse" and ty in ("Float", "Double"):
        if model == ["not-special"]:
            # a numeric literal may overflow to +-inf; it can never be NaN
            return impl == ["not-special"] or (impl in (["ok", "inf"], ["ok", "-inf"]) and any(c.isdigit() for c in arg))
        return model == impl
    return model == impl


def _feature(op: str, ty: str, arg, impl) -> Optional[str]:
    """coverage signature of a non-trivial case (DESIGN §7.2): field boundary / zone / fraction / rejection"""
    if op == "parse":
        if isinstance(impl, list) and impl and impl[0] == "raise":
            return f"{ty}:rejected:{len(arg) if len(arg) < 12 else 12}"
        f = []
        if "." in arg:
            f.append("frac")
        if arg[-1:] == "Z" or arg[-6:-5] in ("+", "-"):
            f.append("zone")
        if arg[:1] in "+- " or arg[-1:] in " \n":
            f.append("edge-char")
        return f"{ty}:accepted:" + ",".join(f) if f else None
    if op == "repr":
        if ty in DATE_TYPES and arg[-1] is not None:
            return f"{ty}:repr:zone:{'neg' if arg[-1] < 0 else 'pos' if arg[-1] > 0 else 'utc'}:{abs(arg[-1]) >= 720}"
        if ty == "Duration":
            return "Duration:repr:" + "".join("0" if x == "0" else "-" if x[0] == "-" else "+" for x in arg)
        if ty in XSD_RANGES:
            lo, hi = XSD_RANGES[ty]
            v = int(arg)
            return f"{ty}:repr:bound" if v in (lo, hi) else None
        if ty in ("Base64Binary", "HexBinary"):
            return f"{ty}:repr:len%3={len(arg) % 3}"
    if op == "cast":
        return f"cast:{ty}:{arg[0]}:{impl[0]}"
    return None


def run_cases(cases, cov: Optional[C.Coverage]) -> List[C.Disagreement]:
    D = _D()
    kept = []
    impl_out = []
    for op, ty, arg, key in cases:
        if op == "parse" and not modelled(ty, arg):
            if cov is not None:
                cov.hit("skipped:unmodelled-unicode-digit-or-space")
            continue
        if isinstance(arg, str) and any("\ud800" <= c <= "\udfff" for c in arg):
            continue
        r = impl_eval(D, op, ty, arg)
        if op == "repr" and r[0] == "construct-raise":
            if cov is not None:
                cov.hit("skipped:constructor-raised")
            continue
        kept.append((op, ty, arg, key))
        impl_out.append(r)
        if cov is not None:
            cov.hit(f"{op}:{key}")
            cov.evaluations += 1
            f = _feature(op, ty, arg, r)
            if f:
                cov.nontrivial.add(f)
    # batch consecutive cases of equal (op, type)
    lines = []
    spans = []
    i = 0
    while i < len(kept):
        j = i
        while j < len(kept) and j - i < 2000 and kept[j][0] == kept[i][0] and kept[j][1] == kept[i][1]:
            j += 1
        lines.append(["batch", kept[i][0], kept[i][1], [k[2] for k in kept[i:j]]])
        spans.append((i, j))
        i = j
    out = C.run_model("C06", lines)
    dis: List[C.Disagreement] = []
    if len(out) != len(lines):
        return [C.Disagreement("driver output length", None, len(out), len(lines))]
    for (a, b), res in zip(spans, out):
        if not isinstance(res, list) or len(res) != b - a:
            dis.append(C.Disagreement(f"driver batch {kept[a][0]} {kept[a][1]}", None, str(res)[:200], b - a))
            continue
        for k in range(a, b):
            op, ty, arg, key = kept[k]
            if not agree(op, ty, arg, res[k - a], impl_out[k]):
                where = ("valid (Lean lexical space vs. Python validator) " if op == "valid" else f"{op} ") + f"{ty} [{key}]"
                dis.append(C.Disagreement(where, [op, ty, arg], res[k - a], impl_out[k]))
                if len(dis) >= 12:
                    return dis
    return dis


def table_cases(D) -> List[C.Disagreement]:
    """generated tables (translator) against the running module: names per identifier, and inverse dict"""
    dis = []
    out = C.run_model("C06", [["names"], ["ranges"]])
    names = {r[0]: r[2] for r in out[0]}
    for ident in OWN_NAMES:
        cls = getattr(D, ident, None)
        rt = D.XSD_TYPE_NAMES.get(cls)
        if names.get(ident) != rt:
            dis.append(C.Disagreement(f"name table row {ident}", ["names", ident], names.get(ident), rt))
    if len(D.XSD_TYPE_NAMES) != len(out[0]):
        dis.append(C.Disagreement("name table size", ["names"], len(out[0]), len(D.XSD_TYPE_NAMES)))
    return dis


def correspond(ctx: C.Ctx, cov: C.Coverage) -> List[C.Disagreement]:
    cov.rule = ("model vs. implementation on (op, type, argument) with op in parse=from_xsd / repr=xsd_repr / cast=trivial_cast, plus the Lean lexical "
                "spaces vs. the independent Python validator (valid). Exhaustive: microsecond fractions (thorough: all 10^6; quick: the 11,549 "
                "fractions the pinned tree got wrong + every 100th), all 1681 zone offsets x 8 zoned types both directions, all month/day pairs "
                "x 6 years, all two-digit field values, years (thorough: all 0..9999), integer boundaries +-1 for 14 integer types, trivial_cast grid "
                "15 values x 31 types. Random: values of all 31 types, their literals, 3 mutations each, random strings, durations, fractions of "
                "1..9 digits. non-trivial = rejected literal, literal with zone/fraction/edge character, value with zone, duration sign pattern, "
                "integer at a bound, byte length class, cast outcome; distinct = by that signature")
    D = _D()
    cases = gen_cases(ctx)
    dis = table_cases(D)
    dis += run_cases(cases, cov)
    cov.exhaustive = True
    cov.extra["exhaustive_fractions"] = sum(1 for c in cases if c[3] == "exh:fraction")
    cov.extra["neutral_zones_not_judged"] = ASSUMPTIONS[-1]
    cov.samples = [list(c[:3]) for c in cases[:: max(1, len(cases) // 6)]][:6]
    return dis


# =============================================================================================== oracle (implementation only)

FAMILY = {t: "int" for t in XSD_RANGES}
FAMILY.update({"Float": "float", "Double": "float", "Decimal": "decimal", "Duration": "duration", "Boolean": "boolean",
               "Base64Binary": "base64Binary", "HexBinary": "hexBinary", "String": "string", "AnyURI": "string",
               "NormalizedString": "normalizedString"})
FAMILY.update({t: "datetime" for t in DATE_TYPES})
COLLAPSING = set(ALL_TYPES) - {"String", "NormalizedString"}
_XML_WS = " \t\n\r"


def collapse(s: str) -> str:
    """XML Schema whiteSpace=collapse"""
    return " ".join(x for x in _re.split(r"[ \t\n\r]+", s) if x)


def neutral_literal(ty: str, s: str) -> bool:
    """DESIGN §7.3: literals on which neither acceptance nor rejection is judged"""
    if ty in COLLAPSING and collapse(s) != s and xsd_valid(ty, collapse(s)):
        return True                                   # valid only after whitespace collapse
    if ty in ("Date", "DateTime", "GYear", "GYearMonth"):
        if s.startswith("-") or s.startswith("0000"):
            return True                               # negative years, year 0000
        m = _re.match(r"[0-9]{5,}", s)
        if m:
            return True                               # years beyond 9999: outside the quantified domain
    if ty in ("Time", "DateTime") and _re.search(r"(^|T)24:00:00", s):
        return True
    if ty in ("Time", "DateTime") and _re.search(r":[0-5][0-9]:60", s):
        return True                                   # leap second
    return False


def lax_class(ty: str, s: str) -> str:
    """why an accepted literal is outside the lexical space (part of the finding signature)"""
    fam = FAMILY[ty]
    if ty in COLLAPSING:
        s = collapse(s)
    if any(ord(c) > 127 and (c.isdecimal() or c.isdigit() or c.isnumeric()) for c in s) and fam not in ("base64Binary",):
        return "non-ascii-digit"
    if fam == "base64Binary":
        return "lenient"
    if fam == "hexBinary":
        return "whitespace" if any(c in " \t\n\r\x0b\x0c" for c in s) else "other"
    if any(c.isspace() for c in s):
        return "non-xml-whitespace" if fam in ("int", "float", "decimal") else "other"
    if fam in ("int", "float", "decimal") and "_" in s:
        return "underscore"
    if fam == "float":
        return "special-spelling" if _re.fullmatch(r"[+-]?(inf|infinity|nan)", s, _re.I) else "other"
    if fam == "decimal":
        if _re.fullmatch(r"[+-]?(inf|infinity|s?nan[0-9]*)", s, _re.I):
            return "special-value"
        if _re.fullmatch(r"[+-]?([0-9]+\.?[0-9]*|\.[0-9]+)[eE][+-]?[0-9]+", s):
            return "exponent"
        return "other"
    if fam == "datetime":
        m = _re.search(r"[+-]([0-9]{2}):([0-9]{2})$", s)
        if m and not _re.fullmatch(_TZ, s[m.start():]) and xsd_valid(ty, s[:m.start()]):
            return "zone-out-of-range"
        return "other"
    if fam == "duration":
        return "empty-designator" if _re.fullmatch(r"-?P([0-9]+Y)?([0-9]+M)?([0-9]+D)?T?", s) else "other"
    return "other"


def _xs(ty: str) -> str:
    return "xs:" + OWN_NAMES[ty]


def _py_type(D, ty: str):
    return getattr(D, ty)


def values_equal(D, ty: str, v, w) -> Optional[str]:
    """None if equal (the property's 'equal value'), else a short description of the difference"""
    import math
    T = _py_type(D, ty)
    if type(w) is not T and not (ty in ("Float", "Double", "Integer", "Boolean", "String") and type(w) is T):
        if not isinstance(w, T) or type(w).__name__ != T.__name__:
            return f"type:{type(w).__name__}"
    if ty in ("Float", "Double"):
        if math.isnan(v) or math.isnan(w):
            return None if (math.isnan(v) and math.isnan(w)) else "nan"
        return None if (v == w and math.copysign(1, v) == math.copysign(1, w)) else "float"
    if ty == "Decimal":
        return None if v == w else "decimal"
    a, b = canon_value(ty, v), canon_value(ty, w)
    if a == b:
        return None
    if isinstance(a, list) and isinstance(b, list) and len(a) == len(b):
        names = {"Duration": ["years", "months", "days", "hours", "minutes", "seconds", "microseconds"],
                 "DateTime": ["year", "month", "day", "hour", "minute", "second", "microsecond", "zone"],
                 "Date": ["year", "month", "day", "zone"], "Time": ["hour", "minute", "second", "microsecond", "zone"]}.get(ty)
        idx = [i for i, (x, y) in enumerate(zip(a, b)) if x != y]
        if names:
            return names[idx[0]] if len(idx) == 1 else "several-fields"
        return "zone" if idx == [len(a) - 1] else "field"
    return "value"


def in_value_space(ty: str, j) -> Optional[str]:
    """None if the canonical value is inside the XSD value space the property quantifies over; else why not.
    'neutral' = outside the quantified domain and not judged."""
    if ty in DATE_TYPES:
        z = j[-1]
        if isinstance(z, list):
            return "neutral"                       # zone with seconds
        if z is not None and abs(z) > 840:
            return "zone-out-of-range"
        if ty in ("GYear", "GYearMonth") and not 1 <= j[0] <= 9999:
            return "neutral"
        return None
    if ty == "Decimal" and j[0] != "fin":
        return "special-value"
    return None


def check_value(D, ty: str, j) -> Optional[C.Failing]:
    """round trip + validity of the produced literal for one value; rejection for values outside the value space"""
    case = ["value", ty, j]
    xs, fam = _xs(ty), FAMILY[ty]
    try:
        v = build_value(D, ty, j)
    except Exception:
        return None                                 # not constructible: nothing to serialise
    why = in_value_space(ty, j)
    if why == "neutral":
        return None
    if ty == "Duration":
        fields = canon_value(ty, v)                 # after the constructor's carries
        if fields[0] == "unmodelled-duration":
            return None
        if len({x[0] == "-" for x in fields if x != "0"}) > 1:
            why = "mixed-sign"
    try:
        lit = D.xsd_repr(v)
    except ValueError:
        return None if why else C.Failing(f"lex:repr:{fam}:raises", f"xsd_repr raises ValueError on a {xs} value {j}", case)
    except Exception as e:
        return C.Failing(f"lex:repr:{fam}:raises:{type(e).__name__}", f"xsd_repr({j}) raised {e!r}", case)
    if why:
        return C.Failing(f"lex:repr:{fam}:not-rejected:{why}",
                         f"a value outside the {xs} value space ({why}) is serialised as {lit!r} instead of being rejected", case, lit, "ValueError")
    if not isinstance(lit, str):
        return C.Failing(f"lex:repr:{fam}:not-a-string", f"xsd_repr returned {type(lit).__name__}", case)
    if not xsd_valid(ty, lit):
        return C.Failing(f"lex:repr:{fam}:invalid-literal", f"xsd_repr gives {lit!r}, not a valid {xs} literal (value {j})", case, lit)
    try:
        w = D.from_xsd(lit, _py_type(D, ty))
    except Exception as e:
        return C.Failing(f"lex:roundtrip:{fam}:own-literal-rejected", f"from_xsd rejects {lit!r} produced by xsd_repr ({xs}): {e!r}", case, repr(e))
    diff = values_equal(D, ty, v, w)
    if diff is not None:
        big = ty == "Duration" and any(abs(int(x)) >= 2 ** 53 for x in j)
        return C.Failing(f"lex:roundtrip:{fam}:value-changed:{'field>=2^53' if big else diff}",
                         f"{xs} value {j} -> {lit!r} -> {canon_value(ty, w) if ty not in ('Float', 'Double') else w!r}", case,
                         str(canon_value(ty, w)), str(j))
    return None


def check_literal(D, ty: str, s: str) -> Optional[C.Failing]:
    """a candidate literal outside the lexical space / value space must be rejected with ValueError"""
    if neutral_literal(ty, s):
        return None
    case = ["parse", ty, s]
    xs, fam = _xs(ty), FAMILY[ty]
    valid = xsd_valid(ty, s)
    try:
        v = D.from_xsd(s, _py_type(D, ty))
    except ValueError:
        return None
    except Exception as e:
        if isinstance(e, UnicodeError):
            return None
        return C.Failing(f"lex:parse:{fam}:wrong-exception:{type(e).__name__}", f"from_xsd({s!r}, {ty}) raised {e!r} instead of ValueError", case)
    if not valid:
        return C.Failing(f"lex:parse:{fam}:accepts-invalid:{lax_class(ty, s)}",
                         f"from_xsd({s!r}, {ty}) returns {v!r} although the string is not a valid {xs} literal", case, repr(v), "ValueError")
    if ty in XSD_RANGES:
        lo, hi = XSD_RANGES[ty]
        val = int(s)
        if (lo is not None and val < lo) or (hi is not None and val > hi):
            return C.Failing(f"lex:range:{xs}:literal-out-of-range-accepted", f"from_xsd({s!r}, {ty}) returns {v!r}", case, repr(v), "ValueError")
        if int(v) != val:
            return C.Failing(f"lex:range:{xs}:literal-value-changed", f"from_xsd({s!r}, {ty}) returns {v!r}", case, repr(v), val)
    return None


def check_range(D, ty: str, val: int) -> Optional[C.Failing]:
    """a Python int outside the value space must be refused by the class and by trivial_cast; inside it must be kept"""
    lo, hi = XSD_RANGES[ty]
    inside = (lo is None or val >= lo) and (hi is None or val <= hi)
    T = _py_type(D, ty)
    case = ["range", ty, str(val)]
    for how, f in (("constructor", lambda: T(val)), ("trivial_cast", lambda: D.trivial_cast(val, T))):
        try:
            r = f()
        except ValueError:
            if inside:
                return C.Failing(f"lex:range:{_xs(ty)}:{how}:rejects-member", f"{ty} refuses {val}", case)
            continue
        except Exception as e:
            return C.Failing(f"lex:range:{_xs(ty)}:{how}:wrong-exception", f"{ty}({val}) raised {e!r}", case)
        if not inside:
            return C.Failing(f"lex:range:{_xs(ty)}:{how}:out-of-range-accepted", f"{ty}: {val} outside [{lo}, {hi}] accepted as {r!r}", case, repr(r), "ValueError")
        if int(r) != val:
            return C.Failing(f"lex:range:{_xs(ty)}:{how}:value-changed", f"{ty}: {val} became {r!r}", case, repr(r), val)
    return None


def check_names(D) -> List[C.Failing]:
    out = []
    seen: Dict[str, str] = {}
    for ident, own in OWN_NAMES.items():
        cls = getattr(D, ident, None)
        got = D.XSD_TYPE_NAMES.get(cls)
        if got is None:
            out.append(C.Failing(f"names:{ident}:unnamed", f"{ident} has no entry in XSD_TYPE_NAMES (expected xs:{own})", ["names", ident], None, "xs:" + own))
        elif got != "xs:" + own:
            out.append(C.Failing(f"names:{ident}:announced-as:{got}", f"{ident} is announced as {got}, not xs:{own}", ["names", ident], got, "xs:" + own))
        if got is not None:
            if got in seen:
                out.append(C.Failing(f"names:shared:{got}", f"{seen[got]} and {ident} share the name {got}", ["names", ident]))
            seen[got] = ident
            if D.XSD_TYPE_CLASSES.get(got) is not cls:
                out.append(C.Failing(f"names:{ident}:classes-not-inverse", f"XSD_TYPE_CLASSES[{got!r}] is not {ident}", ["names", ident]))
    if len(D.XSD_TYPE_NAMES) != len(OWN_NAMES) or len(D.XSD_TYPE_CLASSES) != len(D.XSD_TYPE_NAMES):
        out.append(C.Failing("names:size", f"{len(D.XSD_TYPE_NAMES)} names / {len(D.XSD_TYPE_CLASSES)} classes for {len(OWN_NAMES)} types", ["names", "*"]))
    return out


def check_cast(D, ty: str, pv) -> Optional[C.Failing]:
    """trivial_cast must not coerce a value outside the target's value space"""
    case = ["cast", ty, pv]
    r = impl_cast(D, ty, pv)
    if pv[0] == "int" and ty in XSD_RANGES:
        return check_range(D, ty, int(pv[1]))
    if pv[0] == "int" and ty == "Boolean" and int(pv[1]) not in (0, 1) and r[0] != "raise":
        return C.Failing("cast:int-to-boolean:coerced", f"trivial_cast({pv[1]}, Boolean) returns {r} instead of raising", case, r, "error")
    if pv[0] == "str" and ty == "NormalizedString" and any(c in pv[1] for c in "\r\n\t") and r[0] != "raise":
        return C.Failing("cast:str-to-normalizedString:accepted", f"trivial_cast({pv[1]!r}, NormalizedString) returns {r}", case, r, "ValueError")
    if r[0] == "raise" and r[1] not in ("ValueError", "TypeError"):
        return C.Failing(f"cast:wrong-exception:{r[1]}", f"trivial_cast({pv}, {ty}) raised {r[1]}", case)
    if r[0] != "raise":
        # whatever an accepted cast returns is a value OF THE TARGET TYPE: written under that type it is a valid literal of it
        import datetime
        val = {"int": lambda: int(pv[1]), "bool": lambda: bool(pv[1]), "float": lambda: 1.5, "str": lambda: pv[1],
               "bytes": lambda: b"ab", "date": lambda: datetime.date(*pv[1:]), "datetime": lambda: datetime.datetime(*pv[1:], 12, 30),
               "none": lambda: None}[pv[0]]()
        try:
            v = D.trivial_cast(val, getattr(D, ty))
            lit = D.xsd_repr(v)
        except Exception as e:
            return C.Failing(f"cast:result-not-writable:{ty}:{pv[0]}", f"trivial_cast({val!r}, {ty}) is accepted but xsd_repr of the result raises {type(e).__name__}", case)
        if not xsd_valid(ty, lit):
            return C.Failing(f"cast:result-not-a-literal:{ty}:{pv[0]}",
                             f"trivial_cast({val!r}, {ty}) returns {v!r}, which is written as {lit!r} - not a literal of {_xs(ty)}", case, lit, "a valid literal")
    return None


CONSTRUCTOR_PROBES = [("GMonth", [0]), ("GMonth", [13]), ("GDay", [0]), ("GDay", [32]), ("GYearMonth", [2020, 0]), ("GYearMonth", [2020, 13]),
                      ("GMonthDay", [0, 1]), ("GMonthDay", [13, 1]), ("GMonthDay", [1, 0]), ("GMonthDay", [1, 32]), ("GMonthDay", [2, 30]),
                      ("GMonthDay", [2, 31]), ("GMonthDay", [4, 31]), ("GMonthDay", [6, 31]), ("GMonthDay", [9, 31]), ("GMonthDay", [11, 31]),
                      ("Date", [2023, 2, 29]), ("Date", [2020, 13, 1]), ("Date", [2020, 4, 31]), ("NormalizedString", ["a\tb"]),
                      ("NormalizedString", ["a\nb"]), ("NormalizedString", ["a\rb"])]


def check_constructor(D, ty: str, args) -> Optional[C.Failing]:
    """month/day ranges and forbidden white space: the value must not come into existence"""
    try:
        v = getattr(D, ty)(*args)
    except ValueError:
        return None
    except Exception as e:
        return C.Failing(f"lex:construct:{ty}:wrong-exception", f"{ty}{tuple(args)} raised {e!r}", ["construct", ty, args])
    try:
        lit = D.xsd_repr(v)
    except ValueError:
        return None
    return C.Failing(f"lex:construct:{ty}:out-of-range-accepted", f"{ty}{tuple(args)} is accepted and serialised as {lit!r}", ["construct", ty, args], lit, "ValueError")


def check_case(D, case) -> Optional[C.Failing]:
    k = case[0]
    if k in ("value", "repr"):
        return check_value(D, case[1], case[2])
    if k == "parse":
        return check_literal(D, case[1], case[2])
    if k == "range":
        return check_range(D, case[1], int(case[2]))
    if k == "cast":
        return check_cast(D, case[1], case[2])
    if k == "construct":
        return check_constructor(D, case[1], case[2])
    if k == "names":
        fs = [f for f in check_names(D) if case[1] in ("*", f.case[1])]
        return fs[0] if fs else None
    return None


def extra_oracle_cases(ctx: C.Ctx) -> List[Any]:
    """inputs the model comparison does not see: Unicode digits, zones beyond 14:00, huge duration fields, probes"""
    rng = random.Random(f"C06:oracle:{ctx.seed}")
    out: List[Any] = [["construct", t, a] for t, a in CONSTRUCTOR_PROBES]
    for ty in ("Date", "Time", "DateTime", "GYear", "GMonth", "GDay", "GYearMonth", "GMonthDay"):
        for z in (841, -841, 900, -900, 1439, -1439):
            base = {"Date": [2020, 6, 15], "Time": [1, 2, 3, 0], "DateTime": [2020, 6, 15, 1, 2, 3, 4], "GYear": [2020], "GMonth": [6],
                    "GDay": [15], "GYearMonth": [2020, 6], "GMonthDay": [6, 15]}[ty]
            out.append(["value", ty, base + [z]])
    for k in (2 ** 53 + 1, -(2 ** 53 + 1), 10 ** 17 + 1):
        out.append(["value", "Duration", [str(k), "0", "0", "0", "0", "0", "0"]])
        out.append(["value", "Duration", ["0", "0", str(k), "0", "0", "0", "0"]])
    for _ in range(ctx.budget(100, 1000)):
        out.append(["value", "Duration", [str(rng.randint(-2 ** 52, 2 ** 52)) if rng.random() < 0.3 else "0" for _ in range(3)] + ["0"] * 4])
    for ty in ALL_TYPES:
        for s in HANDMADE.get(ty, []):
            if not modelled(ty, s):
                out.append(["parse", ty, s])
    for ty in XSD_RANGES:
        lo, hi = XSD_RANGES[ty]
        for b in (lo, hi):
            if b is not None:
                for v in (b - 1, b, b + 1, b * 2 + 1, b - 2 ** 64, b + 2 ** 64):
                    out.append(["range", ty, str(v)])
        for _ in range(20):
            out.append(["range", ty, str(gen_int_for(ty, rng))])
    return out


def check_independent(D, case) -> Optional[C.Failing]:
    """`["independent", type name, literal]`: two parses of one literal give independent values — the first result is edited in place
    (possible for the bytearray-based binary types and for durations), the literal is parsed again and must denote what it did."""
    _, ty, lit = case
    T = getattr(D, ty)
    first = D.from_xsd(lit, T)
    before = D.xsd_repr(first)
    if isinstance(first, bytearray):
        first.extend(b"\xff")
    elif hasattr(first, "years"):
        first.years = first.years + 1
    else:
        return None
    again = D.from_xsd(lit, T)
    if again is first or D.xsd_repr(again) != before:
        return C.Failing(f"lex:parse:{ty}:result-aliased", f"from_xsd({lit!r}, {ty}) parsed again after its first result was edited in place "
                         f"gives {D.xsd_repr(again)!r}, the literal denotes {before!r}", case)
    return None


INDEPENDENT_CASES = [["independent", "Base64Binary", "YWJj"], ["independent", "Base64Binary", ""], ["independent", "HexBinary", "0aff"],
                     ["independent", "HexBinary", ""], ["independent", "Duration", "P1Y2M"], ["independent", "Duration", "PT0S"]]


# =============================================================================================== the carriers in the adapters
# The property is observed "at the value + valueType members of serialised Property, Range, Qualifier and Extension objects" as
# well: every edge value of every type (vf.gen.zoo_submodel: the deterministic zoo) is written by both adapters; the member texts
# must be the own type name and a valid literal that denotes the value, and the strict readers must give back an equal value of the
# same type.  Literals outside a type's space in such a member must be rejected by the strict readers.

CARRIER_BAD = [("xs:int", ""), ("xs:int", "2147483648"), ("xs:boolean", "2"), ("xs:boolean", ""), ("xs:normalizedString", "\ttabbed"),
               ("xs:normalizedString", "a\nb"), ("xs:date", "2020-13-01"), ("xs:unsignedByte", "256"), ("xs:double", ""),
               ("xs:duration", ""), ("xs:dateTime", "2020-01-01T25:00:00"), ("xs:hexBinary", "0"), ("xs:gMonth", "--13"),
               ("xs:positiveInteger", "0"), ("xs:byte", " 1x")]


def carriers_check() -> List[C.Failing]:
    import io
    import json as _json
    import logging
    from vf import gen, canon
    from lxml import etree
    from basyx.aas import model
    from basyx.aas.adapter.json import AASToJsonEncoder, read_aas_json_file
    from basyx.aas.adapter.xml import read_aas_xml_file
    from basyx.aas.adapter.xml import xml_serialization
    logging.getLogger("basyx").setLevel(logging.CRITICAL)
    D = _D()
    out: List[C.Failing] = []
    sigs = set()

    def fail(sig, what, case):
        if sig not in sigs:
            sigs.add(sig)
            out.append(C.Failing(sig, what, case))
    cls_name = {getattr(D, n): n for n in OWN_NAMES if hasattr(D, n)}
    sm = gen.Gen(random.Random("C06carriers"), max_depth=2).zoo_submodel()
    ns = "{https://admin-shell.io/aas/3/0}"

    def same(a, b):
        ta, tb = canon.native(a), canon.native(b)
        return ta == tb or (isinstance(a, float) and a != a and isinstance(b, float) and b != b and type(a) is type(b))

    # ---- what is written
    jdoc = _json.loads(_json.dumps(sm, cls=AASToJsonEncoder))
    xroot = xml_serialization.object_store_to_xml_element(model.DictObjectStore([sm]))
    xsm = xroot.find(f"{ns}submodels/{ns}submodel")
    carriers = []          # (label, value type class, value, json dict, json member, xml element holding valueType, xml member)
    jel = {e["idShort"]: e for e in jdoc["submodelElements"]}
    xel = {e.findtext(ns + "idShort"): e for e in xsm.find(ns + "submodelElements")}
    for e in sm.submodel_element:
        if isinstance(e, model.Property):
            carriers.append((f"Property:{e.id_short}", e.value_type, e.value, jel[e.id_short], "value", xel[e.id_short], "value"))
        else:
            carriers.append((f"Range.min:{e.id_short}", e.value_type, e.min, jel[e.id_short], "min", xel[e.id_short], "min"))
            carriers.append((f"Range.max:{e.id_short}", e.value_type, e.max, jel[e.id_short], "max", xel[e.id_short], "max"))
    jq = {q["type"]: q for q in jdoc["qualifiers"]}
    xq = {q.findtext(ns + "type"): q for q in xsm.find(ns + "qualifiers")}
    for q in sm.qualifier:
        carriers.append((f"Qualifier:{q.type}", q.value_type, q.value, jq[q.type], "value", xq[q.type], "value"))
    jx = {x["name"]: x for x in jdoc["extensions"]}
    xx = {x.findtext(ns + "name"): x for x in xsm.find(ns + "extensions")}
    for x in sm.extension:
        carriers.append((f"Extension:{x.name}", x.value_type, x.value, jx[x.name], "value", xx[x.name], "value"))
    for label, vt, v, jd, jm, xe, xm in carriers:
        tn = cls_name.get(vt, vt.__name__)
        kind = label.split(":")[0]
        own = "xs:" + OWN_NAMES.get(tn, "?")
        for fmt, name, text in (("json", jd.get("valueType"), jd.get(jm)), ("xml", xe.findtext(ns + "valueType"), xe.findtext(ns + xm))):
            case = ["carrier", fmt, label]
            if name != own:
                fail(f"carrier:{fmt}:{kind}:type-name:{tn}", f"{label}: value type {tn} is announced as {name!r} in the {fmt} document, its own name is {own!r}", case)
            if fmt == "xml" and text is None:
                text = ""             # an empty element denotes the empty string
            if not isinstance(text, str):
                fail(f"carrier:{fmt}:{kind}:literal-missing:{tn}", f"{label}: the {fmt} document carries {text!r} for the value {v!r}", case)
                continue
            if not xsd_valid(tn, text):
                fail(f"carrier:{fmt}:{kind}:literal-invalid:{tn}", f"{label}: {text!r} written for {v!r} is not a literal of {own}", case)
            try:
                back = D.from_xsd(text, vt)
                if not same(back, v):
                    fail(f"carrier:{fmt}:{kind}:literal-denotes-other:{tn}", f"{label}: {text!r} written for {v!r} denotes {back!r}", case)
            except Exception as e:      # noqa
                fail(f"carrier:{fmt}:{kind}:literal-invalid:{tn}", f"{label}: {text!r} written for {v!r} does not parse as {own}: {e!r}"[:300], case)
    # ---- what is read back (strict readers)
    for fmt in ("json", "xml"):
        try:
            if fmt == "json":
                got = read_aas_json_file(io.StringIO(_json.dumps({"submodels": [jdoc]})), failsafe=False)
            else:
                got = read_aas_xml_file(io.BytesIO(etree.tostring(xroot)), failsafe=False)
            sm2 = got.get_identifiable("urn:vf:zoo")
        except Exception as e:       # noqa
            fail(f"carrier:{fmt}:read-raises", f"strict {fmt} reader rejects the SDK's own document of every edge value: {e!r}"[:300], ["carrier", fmt, "*"])
            continue
        back = {}
        for e in sm2.submodel_element:
            if isinstance(e, model.Property):
                back[f"Property:{e.id_short}"] = (e.value_type, e.value)
            else:
                back[f"Range.min:{e.id_short}"] = (e.value_type, e.min)
                back[f"Range.max:{e.id_short}"] = (e.value_type, e.max)
        for q in sm2.qualifier:
            back[f"Qualifier:{q.type}"] = (q.value_type, q.value)
        for x in sm2.extension:
            back[f"Extension:{x.name}"] = (x.value_type, x.value)
        for label, vt, v, *_ in carriers:
            tn = cls_name.get(vt, vt.__name__)
            kind = label.split(":")[0]
            if label not in back:
                fail(f"carrier:{fmt}:{kind}:lost", f"{label} is missing after the {fmt} round trip", ["carrier", fmt, label])
                continue
            vt2, v2 = back[label]
            if vt2 is not vt:
                fail(f"carrier:{fmt}:{kind}:type-changed:{tn}", f"{label}: value type {tn} comes back as {vt2.__name__} ({fmt})", ["carrier", fmt, label])
            elif v2 is None or not same(v2, v) or type(v2) is not type(v):
                fail(f"carrier:{fmt}:{kind}:value-changed:{tn}", f"{label}: {v!r} comes back as {v2!r} ({fmt})", ["carrier", fmt, label])
    # ---- literals outside the type's space inside a carrier: rejected, not coerced
    for vt_name, lit in CARRIER_BAD:
        for kind in ("Property", "Range", "Qualifier", "Extension"):
            el = {"modelType": "Property", "idShort": "p", "valueType": "xs:string", "value": "x"}
            smj = {"modelType": "Submodel", "id": "urn:bad", "submodelElements": [el]}
            if kind == "Property":
                el.update(valueType=vt_name, value=lit)
            elif kind == "Range":
                el.clear(); el.update(modelType="Range", idShort="p", valueType=vt_name, min=lit)
            elif kind == "Qualifier":
                smj["qualifiers"] = [{"type": "q", "valueType": vt_name, "value": lit}]
            else:
                smj["extensions"] = [{"name": "x", "valueType": vt_name, "value": lit}]

            def xml_of():
                def t(tag, text):
                    return f"<aas:{tag}>{text}</aas:{tag}>"
                esc = lit.replace("&", "&amp;").replace("<", "&lt;").replace("\t", "&#9;").replace("\n", "&#10;")
                ext = qual = ""
                sme = t("property", t("idShort", "p") + t("valueType", "xs:string") + t("value", "x"))
                if kind == "Property":
                    sme = t("property", t("idShort", "p") + t("valueType", vt_name) + t("value", esc))
                elif kind == "Range":
                    sme = t("range", t("idShort", "p") + t("valueType", vt_name) + t("min", esc))
                elif kind == "Qualifier":
                    qual = t("qualifiers", t("qualifier", t("type", "q") + t("valueType", vt_name) + t("value", esc)))
                else:
                    ext = t("extensions", t("extension", t("name", "x") + t("valueType", vt_name) + t("value", esc)))
                return ('<?xml version="1.0"?><aas:environment xmlns:aas="https://admin-shell.io/aas/3/0"><aas:submodels>'
                        + t("submodel", ext + t("id", "urn:bad") + qual + t("submodelElements", sme)) + "</aas:submodels></aas:environment>").encode()
            for fmt in ("json", "xml"):
                if fmt == "xml" and lit == "":
                    continue        # an empty XML element is the absent value for typed members; not a literal
                try:
                    if fmt == "json":
                        got = read_aas_json_file(io.StringIO(_json.dumps({"submodels": [smj]})), failsafe=False)
                    else:
                        got = read_aas_xml_file(io.BytesIO(xml_of()), failsafe=False)
                    o = got.get_identifiable("urn:bad")
                    if kind in ("Property", "Range"):
                        e2 = o.get_referable("p")
                        v2 = e2.value if kind == "Property" else e2.min
                    elif kind == "Qualifier":
                        v2 = o.get_qualifier_by_type("q").value
                    else:
                        v2 = o.get_extension_by_name("x").value
                    fail(f"carrier:{fmt}:{kind}:bad-literal-accepted:{vt_name}", f"{kind} with valueType {vt_name} and the literal {lit!r} is accepted by the "
                         f"strict {fmt} reader as {v2!r}", ["carrier-bad", fmt, kind, vt_name, lit])
                except Exception:       # noqa
                    pass
    return out



def oracle(ctx: C.Ctx, cov: C.Coverage) -> List[C.Failing]:
    D = _D()
    ctx2 = C.Ctx(ctx.prop, ctx.tier, ctx.seed, random.Random(f"{ctx.prop}:{ctx.seed}"), ctx.t0, ctx.jobs)
    cases = [[op, ty, arg] for op, ty, arg, _ in gen_cases(ctx2) if op != "valid"] + extra_oracle_cases(ctx)
    out: List[C.Failing] = check_names(D)
    for ic in INDEPENDENT_CASES:
        f = check_independent(D, ic)
        if f is not None and f.sig not in {g.sig for g in out}:
            out.append(f)
    for f in carriers_check():
        if f.sig not in {g.sig for g in out}:
            out.append(f)
    cov.hit("oracle:carriers")
    sigs = {f.sig for f in out}
    n = 0
    for case in cases:
        try:
            f = check_case(D, case)
        except RecursionError:
            f = None
        n += 1
        if f is not None and f.sig not in sigs:
            sigs.add(f.sig)
            out.append(f)
    cov.extra["oracle_cases"] = n
    cov.extra["oracle_distinct_failure_signatures"] = sorted(sigs)
    return out


def search(ctx: C.Ctx, disagreements, broken) -> List[C.Failing]:
    """something no longer checks: look at the disagreeing cases first, then a bigger seeded sweep"""
    D = _D()
    out = []
    for d in disagreements:
        if isinstance(d.case, list) and len(d.case) == 3 and d.case[0] in ("parse", "repr", "cast"):
            f = check_case(D, d.case)
            if f:
                out.append(f)
    if out:
        return out
    big = C.Ctx(ctx.prop, "thorough" if ctx.tier == "quick" else ctx.tier, ctx.seed + 1, random.Random(f"search:{ctx.seed}"), ctx.t0, ctx.jobs)
    return oracle(big, C.Coverage())


def replay(case) -> Optional[C.Failing]:
    if isinstance(case, list) and case and case[0] == "independent":
        return check_independent(_D(), case)
    if isinstance(case, list) and case and case[0] in ("carrier", "carrier-bad"):
        fs = [f for f in carriers_check() if f.case == case]
        return fs[0] if fs else None
    return check_case(_D(), case)
