"""C14 — LocalFileObjectStore behaves as a persistent map with coherent live replicas.

Correspondence with Model/FileStore.lean (part A: sequential histories over several store instances, part C: two threads
at the store's yield points under a deterministic scheduler) and an oracle stated over the implementation's API."""
from __future__ import annotations

import gc
import hashlib
import itertools
import json
import os
import random
import shutil
import tempfile
import threading
import weakref
from typing import Any, Dict, List, Optional, Tuple

from vf import common as C

ID = "C14"
LEAN_MODULE = "Basyx.Props.C14"
LEVEL = "proof"

MANIFEST = {
    "text": "Lean theorems over ALL call histories (add, commit, update, get, discard, contains, len, iter, object creation, local "
            "modification, dropping references, garbage collection) issued through any number of store instances on one directory: "
            "every call is a step of the abstract map id -> document (refinement, so what was added or last committed is what any "
            "instance, also one never used before, reads back; duplicates rejected; missing ids KeyError; update() refreshes), and a "
            "retrieved object that stays alive is returned again by every later retrieval through the same instance, refreshed. "
            "Over ALL schedules of two threads that each retrieve or add the same identifier, advancing between the lock/cache "
            "yield points: every retrieval returns the one cached replica, refreshed (finite-state invariant, kernel-checked "
            "closure of the reachable set), and an add() that returned normally leaves exactly the added object cached, bound and "
            "returned by the other thread's retrieval (c14_added_object_stays_live); for the pinned protocol (cache insert after "
            "releasing the lock) and for the protocol with the source bound after the `with` block the negation is proved on a "
            "concrete schedule (the oracle's finer scheduler, with a yield point after every release, replays the latter against "
            "the code). Tie: differential run of model and real store on temp directories after every call, and an "
            "instrumented lock/cache scheduler replaying every interleaving of two threads."
            " The file name of a document is regenerated from the source and proved to be sha256 of the identifier's UTF-8 bytes with nothing done to the identifier before (c14_document_name_is_hash_of_identifier).",
    "note": "partial: real preemption inside CPython bytecodes and WeakValueDictionary finalisation are assumed to respect the "
            "modelled atomicity (GIL + lock; gc at explicit steps); sha256 injective; document content abstracted to a version "
            "number in the histories (attribute equality: a separate rich-payload oracle over generated identifiables and the zoo "
            "of XSD edge values, and C03); all instances share one directory; objects whose "
            "source was edited by the application are out of scope. The model follows the tree with fixes/C14-*.patch and "
            "fixes/C15-*.patch applied.",
    "technique": "Lean 4 proof: refinement of every operation to an abstract persistent map + identity invariant by induction over "
                 "histories; two-thread small-step semantics verified for all schedules by a kernel-evaluated reachability closure; "
                 "differential correspondence (sequential histories, exhaustive two-thread interleavings) with the real class",
}
ASSUMPTIONS = [
    "sha256 is injective on the identifiers used (files are keyed by the identifier in the model)",
    "the JSON round trip preserves every metamodel attribute (property C03); the tie observes a version number stored in a Property",
    "CPython: a WeakValueDictionary entry of an object in a reference cycle survives until gc.collect(); the harness disables automatic gc",
    "thread switches happen only at the modelled yield points (lock acquire/release, cache __contains__/__getitem__/__setitem__); "
    "the operations between two yield points are atomic (GIL + lock)",
    "all store instances are opened on the same directory string; the application does not edit `source` or `id` of stored objects",
]

# (round 6) ... and two spellings of one text that are canonically equivalent (composed / decomposed) but different identifiers
IDS = ["a", "A", "b", "dir/../x", "ü/€\\𝒳 ?#%", "https://example.org/sm/1?x=1#frag", "caf\u00e9", "cafe\u0301"]
MORE_IDS = ["/", "..", "a/", ".json", "a ", "‮abc", "x" * 300, "json", "nosj."]


GEN_BACKENDS = os.path.join(C.LEAN_DIR, "Basyx", "Gen", "Backends.lean")


def translate_backends(ctx=None) -> List[str]:
    """identifier -> document name mappings of the two persistent stores and the decorators of get_backend (Gen/Backends.lean)"""
    from translate import backend_tables as B
    data = B.build(C.REPO)
    text = B.emit_lean(data)
    if not os.path.exists(GEN_BACKENDS) or open(GEN_BACKENDS, encoding="utf-8").read() != text:
        with open(GEN_BACKENDS, "w", encoding="utf-8") as f:
            f.write(text)
    return [f"unrecognised source construct: {u}" for u in data["unrecognised"]]


def translate(ctx: C.Ctx) -> List[str]:
    return translate_backends(ctx)


# ------------------------------------------------------------------------------------------------ implementation side

def _sdk():
    from basyx.aas import model
    from basyx.aas.backend import local_file
    return model, local_file


def make_obj(i: str, v: int):
    """content of an object = a version number plus an (initially empty) ordered list of digits; both are folded into ONE
    number, which is what the model stores as the object's content (it treats content as opaque)"""
    model, _ = _sdk()
    return model.Submodel(i, submodel_element=[model.Property("v", model.datatypes.Int, v),
                                               model.SubmodelElementList("L", model.Property, value_type_list_element=model.datatypes.Int),
                                               _rel(False)])


def _rel(annotated: bool):
    """element "r": a relationship, plain or annotated (sub-/superclass of each other)"""
    model, _ = _sdk()
    a = model.ExternalReference((model.Key(model.KeyTypes.GLOBAL_REFERENCE, "urn:a"),))
    if annotated:
        return model.AnnotatedRelationshipElement("r", a, a, annotation=[model.Property("n", model.datatypes.Int, 1)])
    return model.RelationshipElement("r", a, a)


def fold(v: int, digits: List[int], annotated: bool = False) -> int:
    return v + (500 if annotated else 0) + 1000 * int("".join(map(str, digits)) or "0")


def unfold3(c: int) -> Tuple[int, List[int], bool]:
    return c % 500, ([int(ch) for ch in str(c // 1000)] if c >= 1000 else []), (c % 1000) >= 500


def unfold(c: int) -> Tuple[int, List[int]]:
    return unfold3(c)[:2]


def ledit_ref(c: int, how: str, x: int) -> int:
    """reference semantics of an edit on folded content"""
    v, ds, ann = unfold3(c)
    if how == "ins0" and len(ds) < 4:
        ds = [x] + ds
    elif how == "app" and len(ds) < 4:
        ds = ds + [x]
    elif how == "pop0" and ds:
        ds = ds[1:]
    elif how == "rel":
        ann = not ann
    return fold(v, ds, ann)


def ver_of(o) -> Any:
    try:
        model, _ = _sdk()
        return fold(o.get_referable("v").value, [p.value for p in o.get_referable("L").value],
                    type(o.get_referable("r")) is model.AnnotatedRelationshipElement)
    except Exception as e:  # pragma: no cover
        return "no-version:" + type(e).__name__


def ver_of_json(data: dict) -> int:
    els = {e.get("idShort"): e for e in data["submodelElements"]}
    return fold(int(els["v"]["value"]), [int(p["value"]) for p in els["L"].get("value", [])],
                els["r"]["modelType"] == "AnnotatedRelationshipElement")


def hash_of(i: str) -> str:
    return hashlib.sha256(i.encode("utf-8")).hexdigest()


DIRNAMES = ["store", "store", "line#3", "what?now", "sp ace", "100%done", "ünï", "a&b=c", "semi;colon", "file:localhost"]


class World:
    """One directory, several LocalFileObjectStore instances, the objects the application holds."""

    def __init__(self, tag: str = ""):
        _, lf = _sdk()
        self.lf = lf
        self.base = tempfile.mkdtemp(prefix="verif-c14-")
        # the store directory is any directory name the file system allows (chosen by the history, so replays agree)
        self.dir = os.path.join(self.base, DIRNAMES[int(hashlib.sha256(tag.encode()).hexdigest(), 16) % len(DIRNAMES)])
        os.makedirs(self.dir)
        self.stores: List[Any] = []
        self.strong: List[Any] = []          # ref number -> object or None
        self.weak: List[Any] = []            # ref number -> weakref
        self.order: List[str] = []           # ids in file creation order (only to number the new objects of one iteration)
        self.known: Dict[str, str] = {}      # hash -> id
        self.nstore = None
        self.nheld: Dict[str, Any] = {}

    def close(self):
        self.strong = []
        self.stores = []
        shutil.rmtree(self.base, ignore_errors=True)

    def spelling(self, k: int) -> str:
        return self.dir

    def neighbour(self, op):
        """A store on ANOTHER directory of the same process that holds objects with the same identifiers and is used in between:
        store instances are independent objects, nothing the neighbour does may show in the stores under test."""
        try:
            if self.nstore is None:
                self.ndir = os.path.join(self.base, "neighbour")
                os.makedirs(self.ndir)
                self.nstore = self.lf.LocalFileObjectStore(self.ndir)
            i = None
            if op[0] == "new":
                i = op[1]
                if i not in self.nstore:
                    self.nstore.add(make_obj(i, 999))
            elif op[0] in ("get", "contains_id"):
                i = op[2]
            elif op[0] in ("add", "discard", "commit", "update", "setver", "ledit"):
                o = self.obj(op[2] if op[0] in ("add", "discard") else op[1])
                i = o.id if o is not None else None
                del o
            if i is not None and i in self.nstore:
                self.nheld[i] = self.nstore.get_identifiable(i)          # kept alive, like an application would
        except Exception:
            pass                                                         # the neighbour's own fate is not observed

    def store(self, k: int):
        while len(self.stores) <= k:
            self.stores.append(self.lf.LocalFileObjectStore(self.dir))
        return self.stores[k]

    def ref_of(self, o) -> int:
        for r, w in enumerate(self.weak):
            if w() is o:
                self.strong[r] = o
                return r
        self.strong.append(o)
        self.weak.append(weakref.ref(o))
        return len(self.strong) - 1

    def obj(self, r: int):
        if not isinstance(r, int) or r < 0 or r >= len(self.strong) or self.strong[r] is None:
            return None
        return self.strong[r]

    def present(self, i: str) -> bool:
        return os.path.exists(os.path.join(self.dir, hash_of(i) + ".json"))

    def _sync_order(self, i: str):
        p = self.present(i)
        if p and i not in self.order:
            self.order.append(i)
        if not p and i in self.order:
            self.order.remove(i)

    def step(self, op: List[Any]) -> Any:
        r = self._step(op)
        self.neighbour(op)
        return r

    def _step(self, op: List[Any]) -> Any:
        k = op[0]
        try:
            if k == "new":
                self.known[hash_of(op[1])] = op[1]
                return ["obj", self.ref_of(make_obj(op[1], op[2]))]
            if k == "gc":
                gc.collect()
                return ["unit"]
            if k in ("setver", "drop", "commit", "update", "ledit"):
                o = self.obj(op[1])
                if o is None:
                    return ["bad-ref"]
                if k == "setver":
                    o.get_referable("v").value = op[2]
                elif k == "ledit":
                    model, _ = _sdk()
                    lst = o.get_referable("L").value
                    if op[2] == "ins0" and len(lst) < 4:
                        lst.insert(0, model.Property(None, model.datatypes.Int, op[3]))
                    elif op[2] == "app" and len(lst) < 4:
                        lst.add(model.Property(None, model.datatypes.Int, op[3]))
                    elif op[2] == "pop0" and len(lst) > 0:
                        lst.pop(0)
                    elif op[2] == "rel":
                        old = o.get_referable("r")
                        o.submodel_element.remove(old)
                        o.submodel_element.add(_rel(type(old) is not model.AnnotatedRelationshipElement))
                elif k == "drop":
                    self.strong[op[1]] = None
                elif k == "commit":
                    try:
                        # every other commit enters through a contained element (commits the document of the stored object)
                        child = o.get_referable("v")
                        if (child.value or 0) % 2 == 1:
                            child.commit()
                        else:
                            o.commit()
                    finally:
                        self._sync_order(o.id)
                else:
                    # every other refresh enters through a contained element
                    child = o.get_referable("v")
                    if (child.value or 0) % 2 == 0:
                        child.update()
                    else:
                        o.update()
                del o
                return ["unit"]
            if k in ("add", "discard", "contains_obj"):
                o = self.obj(op[2])
                if o is None:
                    return ["bad-ref"]
                s = self.store(op[1])
                try:
                    if k == "add":
                        # every other add is a bulk insertion fed from a one-shot generator (AbstractObjectStore.update)
                        if (o.get_referable("v").value or 0) % 2 == 1:
                            s.update(x for x in [o])
                        else:
                            s.add(o)
                    elif k == "discard":
                        s.discard(o)
                    else:
                        return ["bool", o in s]
                finally:
                    self._sync_order(o.id)
                return ["unit"]
            if k == "addmany":
                # the bulk insertion inherited from AbstractObjectStore: store.update(iterable of several objects)
                objs = [self.obj(r) for r in op[2]]
                if any(o is None for o in objs):
                    return ["bad-ref"]
                try:
                    self.store(op[1]).update(objs if len(objs) % 2 else iter(objs))
                finally:
                    for o in objs:
                        self._sync_order(o.id)
                return ["unit"]
            if k == "get":
                self.known[hash_of(op[2])] = op[2]
                return ["obj", self.ref_of(self.store(op[1]).get_identifiable(op[2]))]
            if k == "contains_id":
                return ["bool", op[2] in self.store(op[1])]
            if k == "len":
                return ["nat", len(self.store(op[1]))]
            if k == "iter":
                objs = list(self.store(op[1]))
                new = [o for o in objs if not any(w() is o for w in self.weak)]
                new.sort(key=lambda o: self.order.index(o.id) if o.id in self.order else 10 ** 6)
                for o in new:
                    self.ref_of(o)
                return ["objs", sorted(self.ref_of(o) for o in objs)]
        except KeyError:
            return ["raise", "KeyError"]
        except Exception as e:
            return ["raise", type(e).__name__]
        raise ValueError(op)

    def uri(self, i: str) -> str:
        return "file://localhost/{}/{}.json".format(self.dir, hash_of(i))

    def uris(self, i: str) -> List[str]:
        return ["file://localhost/{}/{}.json".format(self.spelling(k), hash_of(i)) for k in range(4)]

    def view(self, n: int) -> Any:
        disk = []
        for name in sorted(os.listdir(self.dir)):
            h = name[:-5] if name.endswith(".json") else name
            i = self.known.get(h, "?" + name) if name.endswith(".json") else "?" + name
            try:
                with open(os.path.join(self.dir, name), "rb") as f:
                    d = json.loads(f.read().decode("utf-8"))
                v = ver_of_json(d["data"]) if d["data"]["id"] == i else "id-mismatch"
            except Exception:
                v = "corrupt"
            disk.append([i, v])
        heap = []
        for r, o in enumerate(self.strong):
            if o is not None:
                src = o.source
                heap.append([r, o.id, ver_of(o), True if src in self.uris(o.id) else (False if src == "" else src)])
        caches = []
        for k in range(n):
            if k < len(self.stores):
                ents = []
                for i, o in list(self.stores[k]._object_cache.items()):
                    rr = [r for r, w in enumerate(self.weak) if w() is o]
                    ents.append([i, rr[0] if rr else -1])
                caches.append(sorted(ents))
            else:
                caches.append([])
        return [sorted(disk), heap, caches]


def canon_model(line: List[Any], out: Any) -> Any:
    if line[0] == "view":
        return [sorted(out[0]), out[1], [sorted(c) for c in out[2]]]
    if isinstance(out, list) and out and out[0] == "objs":
        return ["objs", sorted(out[1])]
    return out


# ---------------------------------------------------------------------------------------------- history generation

def gen_history(rng: random.Random, w: World, length: int, ninst: int, ids: List[str]) -> List[Tuple[List[Any], Any]]:
    """Generate a history online against the implementation; returns [(op, impl output)]."""
    hist = []
    ver = [0]

    def live():
        return [r for r, o in enumerate(w.strong) if o is not None]

    for _ in range(length):
        lv = live()
        x = rng.random()
        k = rng.randrange(ninst) if rng.random() < 0.9 else ninst  # now and then an instance opened later
        if x < 0.12 or not lv:
            ver[0] += 1
            op = ["new", rng.choice(ids), ver[0]]
        elif x < 0.27:
            op = ["add", k, rng.choice(lv)]
            if rng.random() < 0.25 and len(lv) >= 2:
                op = ["addmany", k, rng.sample(lv, rng.choice([2, 2, 3]) if len(lv) >= 3 else 2)]
        elif x < 0.47:
            op = ["get", k, rng.choice(ids)]
        elif x < 0.55:
            op = ["discard", k, rng.choice(lv)]
        elif x < 0.59:
            ver[0] += 1
            op = ["setver", rng.choice(lv), ver[0]]
        elif x < 0.63:
            op = ["ledit", rng.choice(lv), rng.choice(["ins0", "ins0", "app", "pop0", "rel", "rel"]), rng.randint(1, 9)]
        elif x < 0.71:
            op = ["commit", rng.choice(lv)]
        elif x < 0.78:
            op = ["update", rng.choice(lv)]
        elif x < 0.84:
            op = ["drop", rng.choice(lv)]
        elif x < 0.89:
            op = ["gc"]
        elif x < 0.92:
            op = ["contains_id", k, rng.choice(ids)]
        elif x < 0.94:
            op = ["contains_obj", k, rng.choice(lv)]
        elif x < 0.96:
            op = ["len", k]
        else:
            op = ["iter", k]
        hist.append((op, w.step(op)))
    return hist


def nontrivial(ops: List[List[Any]]) -> bool:
    insts = {op[1] for op in ops if op[0] in ("add", "addmany", "get", "discard", "iter")}
    return len(insts) >= 2 or any(op[0] == "gc" for op in ops)


def correspond_seq(ctx: C.Ctx, cov: C.Coverage, lines, impl_out, index, cases):
    rng = ctx.rng
    n_hist = ctx.budget(200, 1200)
    for hi in range(n_hist):
        ninst = rng.choice([1, 2, 2, 2, 3])
        ids = rng.sample(IDS, rng.choice([1, 2, 3])) if rng.random() < 0.8 else rng.sample(IDS + MORE_IDS, 3)
        length = rng.randint(4, 30 if ctx.tier == "quick" else 60)
        w = World(f"seq{hi}")
        ops: List[List[Any]] = []
        try:
            lines.append(["reset"])
            impl_out.append(["reset"])
            index.append((len(cases), -1))
            # generate step by step so that the view after every call is recorded
            sub = random.Random(rng.random())
            for oi in range(length):
                (op, out), = gen_history(sub, w, 1, ninst, ids) if oi else gen_history(sub, w, 1, ninst, ids)
                ops.append(op)
                if op[0] in ("ledit", "setver"):
                    # for the model (content is opaque) an edit is an assignment of the resulting content
                    o_ = w.obj(op[1])
                    lines.append(["setver", op[1], ver_of(o_) if o_ is not None else 0])
                    del o_
                else:
                    lines.append(op)
                impl_out.append(out)
                index.append((len(cases), oi))
                lines.append(["view", ninst + 1])
                impl_out.append(w.view(ninst + 1))
                index.append((len(cases), oi))
                cov.hit(op[0])
                if out[0] == "raise":
                    cov.hit("raise:" + out[1])
        finally:
            w.close()
            gc.collect()
        cases.append({"kind": "seq", "ops": ops})
        cov.evaluations += 1
        if nontrivial(ops):
            cov.nontrivial.add(C.sha(ops))
        if hi < 2:
            cov.samples.append(ops[:14])


# ------------------------------------------------------------------------------------------ two threads, scheduler

class Stuck(Exception):
    pass


class Sched:
    """Deterministic scheduler: exactly one worker runs at a time; a worker hands control back at every yield point."""

    def __init__(self):
        self.cv = threading.Condition()
        self.turn: Optional[int] = None
        self.at: Dict[int, str] = {}
        self.workers: Dict[int, int] = {}     # thread ident -> worker number
        self.holder: Optional[int] = None     # lock holder

    def me(self) -> Optional[int]:
        return self.workers.get(threading.get_ident())

    def yield_(self, label: str):
        t = self.me()
        if t is None:
            return
        with self.cv:
            self.at[t] = label
            self.turn = None
            self.cv.notify_all()
            if not self.cv.wait_for(lambda: self.turn == t, timeout=20):
                raise Stuck(label)

    def finished(self, t: int):
        with self.cv:
            self.at[t] = "done"
            self.turn = None
            self.cv.notify_all()

    def step(self, t: int):
        with self.cv:
            if self.at.get(t) == "done":
                return
            self.turn = t
            self.cv.notify_all()
            if not self.cv.wait_for(lambda: self.turn is None, timeout=20):
                raise Stuck("scheduler")


class ILock:
    """Stands in for threading.Lock: yield points before acquire (stuttering while held) and before release."""

    def __init__(self, sched: Sched, post: bool = False):
        self.s = sched
        self.post = post          # oracle only: one more yield point AFTER the release (what follows a `with lock:` block is not atomic with it)

    def acquire(self, *a, **kw):
        self.s.yield_("acq")
        while self.s.holder is not None and self.s.me() is not None:
            self.s.yield_("acq")
        self.s.holder = self.s.me() if self.s.me() is not None else -1
        return True

    def release(self):
        self.s.yield_("rel")
        self.s.holder = None
        if self.post:
            self.s.yield_("post")

    def __enter__(self):
        self.acquire()
        return self

    def __exit__(self, *a):
        self.release()
        return False


def make_icache(sched: Sched, log: List[Any]):
    class ICache(weakref.WeakValueDictionary):
        def __contains__(self, key):
            sched.yield_("contains")
            return super().__contains__(key)

        def __getitem__(self, key):
            sched.yield_("getitem")
            return super().__getitem__(key)

        def __setitem__(self, key, value):
            sched.yield_("setitem")
            if sched.me() is not None:
                log.append((sched.me(), value))
            return super().__setitem__(key, value)

        def __delitem__(self, key):
            sched.yield_("delitem")
            return super().__delitem__(key)

        def pop(self, key, *args):
            sched.yield_("pop")
            return super().pop(key, *args)
    return ICache()


CONC_ID = "id/π"


def run_schedule(cfg: Dict[str, Any], sched_list: List[int], fine: bool = False) -> Dict[str, Any]:
    """cfg = {file, cache, bound0, fresh0, p0, p1}.  Runs the two calls on ONE store instance under the schedule."""
    _, lf = _sdk()
    d = tempfile.mkdtemp(prefix="verif-c14c-")
    try:
        setup = lf.LocalFileObjectStore(d)
        store = lf.LocalFileObjectStore(d)
        path = os.path.join(d, hash_of(CONC_ID) + ".json")
        base = make_obj(CONC_ID, 7)
        r0 = None
        if cfg["file"] or cfg["cache"]:
            setup.add(base)
        if cfg["cache"]:
            r0 = store.get_identifiable(CONC_ID)
            if not cfg["fresh0"]:
                base.get_referable("v").value = 8
                base.commit()
            if not cfg["bound0"]:
                r0.source = ""
        if not cfg["file"] and os.path.exists(path):
            os.remove(path)
        xs = [make_obj(CONC_ID, 20), make_obj(CONC_ID, 21)]
        sch = Sched()
        log: List[Any] = []
        ic = make_icache(sch, log)
        if r0 is not None:
            weakref.WeakValueDictionary.__setitem__(ic, CONC_ID, r0)
        store._object_cache = ic
        store._object_cache_lock = ILock(sch, post=fine)
        results: Dict[int, Any] = {}
        loaded_by: Dict[int, int] = {}

        def name(o) -> Any:
            if o is None:
                return None
            if o is r0:
                return "r0"
            if o is xs[0]:
                return "x0"
            if o is xs[1]:
                return "x1"
            for t, v in log:
                if v is o:
                    return "l%d" % t
            return "l%d" % loaded_by.get(id(o), 9)

        def body(t: int, prog: str):
            sch.workers[threading.get_ident()] = t
            try:
                sch.yield_("start")
                if prog == "get":
                    o = store.get_identifiable(CONC_ID)
                    loaded_by.setdefault(id(o), t)
                    results[t] = ("obj", o)
                else:
                    store.add(xs[t])
                    results[t] = ("unit", None)
            except KeyError:
                results[t] = ("raise", "KeyError")
            except Stuck:
                results[t] = ("raise", "Stuck")
            except BaseException as e:
                results[t] = ("raise", type(e).__name__)
            finally:
                sch.finished(t)

        ths = [threading.Thread(target=body, args=(t, cfg["p%d" % t]), daemon=True) for t in (0, 1)]
        for t, th in enumerate(ths):
            with sch.cv:
                th.start()
                if not sch.cv.wait_for(lambda: t in sch.at, timeout=20):
                    raise Stuck("startup")
        trace = []

        def snap():
            cur = weakref.WeakValueDictionary.get(ic, CONC_ID)
            return [sch.at[0], sch.at[1], sch.holder, name(cur), os.path.exists(path)]
        for t in sched_list:
            sch.step(t)
            trace.append(snap())
        for t in [0] * 10 + [1] * 10 + [0] * 10:
            sch.step(t)
        done = sch.at[0] == "done" and sch.at[1] == "done"
        for th in ths:
            th.join(timeout=5)

        def res(t):
            kind, val = results.get(t, ("none", None))
            if kind == "obj":
                return ["obj", name(val)]
            if kind == "unit":
                return ["unit"]
            if kind == "raise":
                return ["raise", val]
            return None
        cur = weakref.WeakValueDictionary.get(ic, CONC_ID)
        filever = None
        if os.path.exists(path):
            with open(path) as f:
                filever = ver_of_json(json.load(f)["data"])
        fresh0 = cfg["fresh0"] if r0 is None else (ver_of(r0) == filever if filever is not None else cfg["fresh0"])
        objs = [results[t][1] for t in (0, 1) if results.get(t, ("", None))[0] == "obj"]
        return {"trace": trace, "res": [res(0), res(1)], "cache": name(cur), "fresh0": bool(fresh0),
                "boundX": [xs[0].source != "", xs[1].source != ""], "done": done,
                "same": (len(objs) < 2 or objs[0] is objs[1]),
                "cached_is_result": all(o is cur for o in objs),
                "refreshed": all(ver_of(o) == filever for o in objs),
                "filever": filever,
                # an add that returned normally made ITS object the live one: a retrieval that returns an object returns that one
                "added_is_result": all(o is xs[t] for t in (0, 1) if results.get(t, ("", None))[0] == "unit" for o in objs),
                "added_is_cached": all(cur is xs[t] for t in (0, 1) if results.get(t, ("", None))[0] == "unit")}
    finally:
        shutil.rmtree(d, ignore_errors=True)


def conc_configs(tier: str) -> List[Dict[str, Any]]:
    cfgs = []
    for file in (True, False):
        for p0 in ("get", "add"):
            for p1 in ("get", "add"):
                for cache, b0, f0 in [(False, False, False), (True, True, True), (True, True, False), (True, False, True),
                                      (True, False, False)]:
                    cfgs.append({"file": file, "cache": cache, "bound0": b0, "fresh0": f0, "p0": p0, "p1": p1})
    if tier == "quick":
        cfgs = [c for c in cfgs if (c["file"] and c["p0"] == "get" and c["p1"] == "get") or
                (not c["cache"] and (c["p0"], c["p1"]) in (("add", "get"), ("get", "add"), ("add", "add")))]
    return cfgs


def interleavings(n0: int, n1: int) -> List[List[int]]:
    out = []
    for pos in itertools.combinations(range(n0 + n1), n0):
        s = [1] * (n0 + n1)
        for p in pos:
            s[p] = 0
        out.append(s)
    return out


def conc_line(cfg, sched):
    # the fresh0 flag of the model only matters when something is cached
    return ["conc", "fixed", cfg["file"], cfg["cache"], cfg["bound0"], cfg["fresh0"], cfg["p0"], cfg["p1"], sched]


def conc_impl_out(cfg, r):
    tr = [[a, b, h, c, f] for a, b, h, c, f in r["trace"]]
    return [tr, r["res"][0], r["res"][1], r["cache"], r["fresh0"], r["boundX"][0], r["boundX"][1], r["done"]]


def conc_plan(tier: str, rng: random.Random, oracle_side: bool) -> List[Tuple[Dict[str, Any], List[List[int]]]]:
    """Which schedules are run for which start configuration.
    central = both calls retrieve a stored identifier: EVERY interleaving (quick 2 x 6 steps when nothing is cached, thorough
    2 x 7 steps for all five cache states); the other configurations: every interleaving of 2 x 6 steps (thorough, the quick
    selection) or a seeded sample."""
    s6, s7 = interleavings(6, 6), interleavings(7, 7)
    plan = []
    quick_sel = conc_configs("quick")
    for cfg in conc_configs(tier):
        central = cfg["file"] and cfg["p0"] == "get" and cfg["p1"] == "get"
        if tier == "quick":
            use = s6 if (central and not cfg["cache"]) else rng.sample(s6, 60 if oracle_side else 150)
        elif oracle_side:
            use = s6 if central else rng.sample(s6, 100)
        else:
            use = s7 if central else (s6 if cfg in quick_sel else rng.sample(s7, 200))
        plan.append((cfg, use))
    return plan


def correspond_conc(ctx: C.Ctx, cov: C.Coverage, lines, impl_out, index, cases):
    plan = conc_plan(ctx.tier, ctx.rng, False)
    for cfg, use in plan:
        for s in use:
            r = run_schedule(cfg, s)
            lines.append(conc_line(cfg, s))
            impl_out.append(conc_impl_out(cfg, r))
            index.append((len(cases), 0))
            cases.append({"kind": "conc", "cfg": cfg, "sched": s})
            cov.evaluations += 1
            cov.hit("schedule:%s|%s" % (cfg["p0"], cfg["p1"]))
            # non-trivial: both threads are past the cache check before either has inserted, or one had to wait for the lock
            tr = r["trace"]
            if any(a == b == "acq" for a, b, *_ in tr) or any(h is not None and (a == "acq" or b == "acq") for a, b, h, *_ in tr):
                cov.nontrivial.add(C.sha([cfg, s]))
    cov.extra["schedules_run"] = sum(len(u) for _, u in plan)
    cov.extra["thread_configurations"] = len(plan)
    cov.extra["exhaustive_interleavings"] = {"2x6 steps": len(interleavings(6, 6)), "2x7 steps": len(interleavings(7, 7))}


def correspond(ctx: C.Ctx, cov: C.Coverage) -> List[C.Disagreement]:
    cov.rule = ("sequential: seeded histories (4-60 calls) over 1-3 store instances on one temp directory, identifiers with path "
                "separators/non-ASCII/astral characters, Submodel payloads carrying a version number, explicit drop/gc steps; after "
                "EVERY call the output and the complete state (documents, every held object's version and source, every instance's "
                "cache by identity) are compared with the model.  concurrent: every interleaving of two threads (6 resp. 7 scheduler "
                "steps each, then run to completion) over the start configurations {document present?} x {get,add}^2 x {nothing "
                "cached, replica cached bound/unbound x fresh/stale}; the state after every step and the results are compared. "
                "non-trivial = history uses >= 2 instances or a gc step; schedule in which a thread waits for the lock")
    lines: List[Any] = []
    impl_out: List[Any] = []
    index: List[Tuple[int, int]] = []
    cases: List[Any] = []
    was = gc.isenabled()
    gc.disable()
    try:
        correspond_seq(ctx, cov, lines, impl_out, index, cases)
        gc.collect()
        correspond_conc(ctx, cov, lines, impl_out, index, cases)
    finally:
        if was:
            gc.enable()
        gc.collect()
    cov.exhaustive = True
    model_out = C.run_model("C14", lines)
    dis: List[C.Disagreement] = []
    if len(model_out) != len(impl_out):
        return [C.Disagreement("driver output length", None, len(model_out), len(impl_out))]
    for k, (m, i) in enumerate(zip(model_out, impl_out)):
        line = lines[k]
        if line[0] == "conc":
            m = m[:8]
        else:
            m = canon_model(line, m)
        if m != i:
            ci, oi = index[k]
            case = cases[ci] if ci < len(cases) else None
            if case and case["kind"] == "seq":
                case = {"kind": "seq", "ops": case["ops"][: oi + 1]}
            dis.append(C.Disagreement(f"filestore line {json.dumps(line)[:120]}", case, m, i))
            if len(dis) >= 5:
                break
    return dis


# ------------------------------------------------------------------------------------------------------- oracle

def check_sequence(ops: List[List[Any]]) -> Optional[C.Failing]:
    """The property over the implementation: a persistent map id -> version, plus identity of live replicas."""
    was = gc.isenabled()
    gc.disable()
    w = World(C.sha(ops))
    try:
        m: Dict[str, int] = {}                 # the persistent map
        local: Dict[int, int] = {}             # expected version held by each live object
        attached: Dict[int, bool] = {}         # object is bound to its document (after add/get, until discarded through it)
        ident: Dict[Tuple[int, str], int] = {}  # (instance, id) -> the live retrieved object
        oid: Dict[int, str] = {}

        def fail(sig, what, oi, obs=None, req=None):
            return C.Failing("lfs:" + sig, what, {"kind": "seq", "ops": ops[: oi + 1]}, obs, req)

        for oi, op in enumerate(ops):
            k = op[0]
            if k in ("setver", "drop", "commit", "update", "ledit") and w.obj(op[1]) is None:
                continue
            if k in ("add", "discard", "contains_obj") and w.obj(op[2]) is None:
                continue
            if k == "addmany" and any(w.obj(r) is None for r in op[2]):
                continue
            out = w.step(op)
            if k == "new":
                r = out[1]
                local[r], attached[r], oid[r] = op[2], False, op[1]
            elif k == "setver":
                local[op[1]] = fold(op[2], *unfold3(local[op[1]])[1:])
            elif k == "ledit":
                local[op[1]] = ledit_ref(local[op[1]], op[2], op[3])
            elif k == "drop":
                for key in [key for key, r in ident.items() if r == op[1]]:
                    del ident[key]
            elif k == "add":
                r, i = op[2], oid[op[2]]
                if i in m:
                    if out != ["raise", "KeyError"]:
                        return fail("add:duplicate-not-rejected", f"add of stored id {i!r} gave {out}", oi, out, ["raise", "KeyError"])
                else:
                    if out != ["unit"]:
                        return fail("add:raises:" + str(out[-1]), f"add of new id {i!r} gave {out}", oi, out, ["unit"])
                    m[i] = local[r]
                    attached[r] = True
                    if w.obj(r).source == "":
                        return fail("add:source-not-set", "source empty after add", oi)
            elif k == "addmany":
                # reference: one add after the other; the first duplicate is reported, what came before it is stored, nothing after it
                dup = False
                for r in op[2]:
                    i = oid[r]
                    if i in m:
                        dup = True
                        break
                    m[i] = local[r]
                    attached[r] = True
                    if w.obj(r).source == "":
                        return fail("addmany:source-not-set", f"object #{r} of a bulk insertion was stored but has no source", oi)
                if dup and out != ["raise", "KeyError"]:
                    return fail("addmany:duplicate-not-reported", f"bulk insertion {op[2]} meets the stored id {i!r} but gave {out}", oi, out,
                                ["raise", "KeyError"])
                if not dup and out != ["unit"]:
                    return fail("addmany:raises:" + str(out[-1]), f"bulk insertion of new ids gave {out}", oi, out, ["unit"])
            elif k == "get":
                i = op[2]
                if i not in m:
                    if out != ["raise", "KeyError"]:
                        return fail("get:missing-no-keyerror", f"get of missing id {i!r} gave {out}", oi, out, ["raise", "KeyError"])
                    continue
                if out[0] != "obj":
                    return fail("get:raises:" + str(out[-1]), f"get of stored id {i!r} gave {out}", oi, out)
                r = out[1]
                o = w.obj(r)
                if o.id != i or ver_of(o) != m[i]:
                    return fail("get:wrong-content", f"get({i!r}) returned id {o.id!r} version {ver_of(o)}, stored {m[i]}", oi,
                                ver_of(o), m[i])
                exp = ident.get((op[1], i))
                if exp is not None and w.obj(exp) is not None and exp != r:
                    return fail("get:second-copy", f"retrieved object #{exp} of {i!r} is alive but instance {op[1]} returned another "
                                                   f"object #{r}", oi, r, exp)
                ident[(op[1], i)] = r
                local[r], attached[r], oid[r] = m[i], True, i
            elif k == "discard":
                r, i = op[2], oid[op[2]]
                if i not in m:
                    if out != ["raise", "KeyError"]:
                        return fail("discard:missing-no-keyerror", f"discard of missing id {i!r} gave {out}", oi, out)
                    continue
                gone = not w.present(i)
                if out != ["unit"]:
                    return fail("discard:raises-after-delete" if gone else "discard:raises",
                                f"discard of stored id {i!r} through instance {op[1]} gave {out}; document removed: {gone}", oi, out,
                                ["unit"])
                del m[i]
                attached[r] = False
                if w.obj(r).source != "":
                    return fail("discard:source-kept", "source still set after discard", oi)
                for key in [key for key in ident if key[1] == i]:
                    del ident[key]
            elif k == "commit":
                r, i = op[1], oid[op[1]]
                if attached.get(r):
                    if i in m:
                        if out != ["unit"]:
                            return fail("commit:raises:" + str(out[-1]), f"commit gave {out}", oi, out)
                        m[i] = local[r]
                    else:
                        # the document was discarded through another object: not judged (neutral), resynchronise
                        if w.present(i):
                            m[i] = local[r]
                elif out != ["unit"]:
                    return fail("commit:unstored-raises", f"commit of an unstored object gave {out}", oi, out)
            elif k == "update":
                r, i = op[1], oid[op[1]]
                if attached.get(r) and i in m:
                    if out != ["unit"]:
                        return fail("update:raises:" + str(out[-1]), f"update gave {out}", oi, out)
                    if ver_of(w.obj(r)) != m[i]:
                        return fail("update:stale", f"after update() object #{r} of {i!r} holds {ver_of(w.obj(r))}, stored {m[i]}", oi,
                                    ver_of(w.obj(r)), m[i])
                    local[r] = m[i]
                elif not attached.get(r) and out != ["unit"]:
                    return fail("update:unstored-raises", f"update of an unstored object gave {out}", oi, out)
            elif k in ("contains_id", "contains_obj"):
                i = op[2] if k == "contains_id" else oid[op[2]]
                if out != ["bool", i in m]:
                    return fail("contains:wrong", f"{i!r} in store gave {out}, stored: {i in m}", oi, out, i in m)
            elif k == "len":
                if out != ["nat", len(m)]:
                    return fail("len:wrong", f"len gave {out}, stored {len(m)}", oi, out, len(m))
            elif k == "iter":
                if out[0] != "objs":
                    return fail("iter:raises:" + str(out[-1]), f"iteration gave {out}", oi, out)
                objs = [w.obj(r) for r in out[1]]
                if sorted(o.id for o in objs) != sorted(m):
                    return fail("iter:wrong-ids", f"iteration yielded {sorted(o.id for o in objs)}, stored {sorted(m)}", oi)
                for r in out[1]:
                    o = w.obj(r)
                    if ver_of(o) != m[o.id]:
                        return fail("iter:wrong-content", f"iteration yielded version {ver_of(o)} of {o.id!r}, stored {m[o.id]}", oi)
                    exp = ident.get((op[1], o.id))
                    if exp is not None and w.obj(exp) is not None and exp != r:
                        return fail("iter:second-copy", f"retrieved object #{exp} of {o.id!r} is alive but iteration returned #{r}", oi)
                    ident[(op[1], o.id)] = r
                    local[r], attached[r], oid[r] = m[o.id], True, o.id
            # a later-opened instance must see the same map
            if k in ("add", "addmany", "commit", "discard") and oi % 3 == 0:
                late = w.lf.LocalFileObjectStore(w.dir)
                for i in set(m) | {oid[r] for r in oid}:
                    if (i in late) != (i in m):
                        return fail("late-instance:contains", f"fresh instance: {i!r} contained={i in late}, stored={i in m}", oi)
                    if i in m:
                        try:
                            o = late.get_identifiable(i)
                        except Exception as e:
                            return fail("late-instance:get-raises:" + type(e).__name__, repr(e), oi)
                        if ver_of(o) != m[i]:
                            return fail("late-instance:wrong-content", f"fresh instance reads version {ver_of(o)} of {i!r}, stored {m[i]}",
                                        oi, ver_of(o), m[i])
        return None
    finally:
        w.close()
        gc.collect()
        if was:
            gc.enable()


def check_schedule(cfg: Dict[str, Any], sched: List[int], fine: bool = False) -> Optional[C.Failing]:
    """`fine`: with a yield point after every lock release as well (finer than the model's steps; oracle only)"""
    was = gc.isenabled()
    gc.disable()
    try:
        r = run_schedule(cfg, sched, fine)
    finally:
        if was:
            gc.enable()
    case = {"kind": "conc", "cfg": cfg, "sched": sched}
    if fine:
        case["fine"] = True
    tag = f"{cfg['p0']}-{cfg['p1']}"
    if not r["done"]:
        return C.Failing(f"lfs:conc:{tag}:not-terminating", "a thread did not finish", case, r["res"])
    for t in (0, 1):
        if r["res"][t] and r["res"][t][0] == "raise" and not (r["res"][t][1] == "KeyError"):
            return C.Failing(f"lfs:conc:{tag}:raises:{r['res'][t][1]}", f"thread {t} raised {r['res'][t][1]}", case, r["res"])
    if cfg["file"]:
        for t in (0, 1):
            if cfg["p%d" % t] == "get" and r["res"][t][0] == "raise":
                return C.Failing(f"lfs:conc:{tag}:keyerror-for-stored-id", f"thread {t}: get of a stored id raised", case, r["res"])
    if not r["same"]:
        return C.Failing(f"lfs:conc:{tag}:two-copies", f"the two retrievals returned different live objects {r['res']}", case, r["res"],
                         "the same object")
    if not r["cached_is_result"]:
        return C.Failing(f"lfs:conc:{tag}:result-not-cached", f"a retrieval returned {r['res']} but the instance now caches {r['cache']}: "
                         "the next retrieval yields a second live copy", case, [r["res"], r["cache"]])
    if not r["refreshed"]:
        return C.Failing(f"lfs:conc:{tag}:not-refreshed", "a retrieval returned an object that does not hold the stored version", case,
                         r["res"], r["filever"])
    if [x for x in r["res"] if x and x[0] == "unit"] and not (r["added_is_result"] and r["added_is_cached"]):
        return C.Failing(f"lfs:conc:{tag}:added-object-not-the-live-one", f"add() returned normally, but the retrieval returned {r['res']} and the "
                         f"instance caches {r['cache']}: a second live copy beside the added object", case, [r["res"], r["cache"]])
    return None


def _oracle_histories(ctx: C.Ctx) -> List[List[List[Any]]]:
    """Histories generated online against the implementation (the generator needs to know which references are live)."""
    rng = random.Random(f"C14-oracle:{ctx.seed}")
    out = []
    was = gc.isenabled()
    gc.disable()
    try:
        for _ in range(ctx.budget(150, 800)):
            w = World()
            try:
                ninst = rng.choice([1, 2, 2, 3])
                ids = rng.sample(IDS, rng.choice([1, 2, 3]))
                h = gen_history(rng, w, rng.randint(4, 40), ninst, ids)
                out.append([op for op, _ in h])
            finally:
                w.close()
                gc.collect()
    finally:
        if was:
            gc.enable()
    # directed: discard through an instance that never fetched the object; stale replica; re-fetch after gc
    out.append([["new", "a", 1], ["add", 0, 0], ["get", 1, "a"], ["discard", 1, 0]])
    out.append([["new", "a", 1], ["add", 0, 0], ["discard", 1, 0], ["contains_id", 0, "a"], ["len", 1]])
    out.append([["new", "a", 1], ["add", 0, 0], ["get", 1, "a"], ["setver", 1, 5], ["commit", 1], ["update", 0], ["get", 0, "a"]])
    out.append([["new", "a", 1], ["add", 0, 0], ["drop", 0], ["gc"], ["get", 0, "a"], ["get", 0, "a"], ["iter", 0], ["get", 2, "a"]])
    # (round 5) every short edit script of the ordered list (front insertions, appends, removals at the front - after which the list's
    # private item names are no longer "in sequence"), committed, then refreshed through the same instance (retrieval, update()),
    # committed again and read by another instance: the ORDER of a list is stored data
    edits = [["ins0", 1], ["app", 2], ["pop0", 0], ["ins0", 3]]
    for n in (1, 2, 3):
        for script in itertools.product(edits, repeat=n):
            if ctx.tier == "quick" and n == 3 and script[0][0] == "app" and script[1][0] == "app":
                continue
            h = [["new", "a", 1], ["add", 0, 0], ["ledit", 0, "app", 7], ["ledit", 0, "app", 8], ["commit", 0]]
            h += [["ledit", 0, how, x] for how, x in script]
            h += [["commit", 0], ["get", 0, "a"], ["update", 0], ["get", 1, "a"], ["commit", 0], ["get", 2, "a"]]
            out.append(h)
    return out


def oracle(ctx: C.Ctx, cov: C.Coverage) -> List[C.Failing]:
    out: List[C.Failing] = []
    sigs = set()
    for h in _oracle_histories(ctx):
        f = check_sequence(h)
        if f and f.sig not in sigs:
            sigs.add(f.sig)
            sig = f.sig
            small = C.ddmin(f.case["ops"], lambda ops: (lambda g: g is not None and g.sig == sig)(check_sequence(ops)), max_tests=120)
            g = check_sequence(small)
            out.append(g if g is not None and g.sig == sig else f)
    rng = random.Random(f"C14-oracle-conc:{ctx.seed}")
    for cfg, use in conc_plan(ctx.tier, rng, True):
        for s in use:
            f = check_schedule(cfg, s)
            if f and f.sig not in sigs:
                sigs.add(f.sig)
                out.append(f)
        if "add" in (cfg["p0"], cfg["p1"]):
            # (round 6) finer than the model's steps: a yield point after every lock release too; one thread runs k steps, then the
            # other one to its end, then the first one finishes - for every k, both ways round, plus a sample of interleavings
            directed = [[a] * k + [1 - a] * 12 for a in (0, 1) for k in range(1, 10)]
            for s in directed + rng.sample(use, min(len(use), 25)):
                f = check_schedule(cfg, s, fine=True)
                if f and f.sig not in sigs:
                    sigs.add(f.sig)
                    out.append(f)
    cov.extra["oracle_histories"] = ctx.budget(150, 800) + 4
    n_rich = ctx.budget(20, 600)
    for i in range(-1, n_rich):
        f = check_rich(ctx.seed, i)
        if f and f.sig not in sigs:
            sigs.add(f.sig)
            out.append(f)
    cov.extra["oracle_rich_payloads"] = n_rich + 1
    return out


def check_rich(seed: int, index: int) -> Optional[C.Failing]:
    """(round 5) "what was added or last committed is what any instance reads back, equal in every metamodel attribute": the
    histories above abstract an object's content to a version number; here the content is an identifiable of the C03 generator
    (index -1: the deterministic zoo of every edge value of every XSD type - empty strings, 0, false, b"" ...), compared
    attribute by attribute (vf.canon) at every step: a later instance reads it; the adding instance hands out the very object,
    refreshed but unchanged; update() leaves it unchanged; an edit + commit() is what a third instance reads."""
    from props import c03
    from vf import canon
    model, local_file = _sdk()
    c03._quiet()
    obj = c03._make(seed, index, 3, 0.35)[0]
    if not isinstance(obj, model.Identifiable):
        return None
    case = {"kind": "rich", "seed": seed, "index": index}
    want = canon.canon(obj)
    d = tempfile.mkdtemp(prefix="c14-rich-")
    try:
        a = local_file.LocalFileObjectStore(d)
        a.check_directory(create=True)
        try:
            a.add(obj)
        except Exception as e:
            return C.Failing("rich:add:raises:" + type(e).__name__, f"add() of a generated {type(obj).__name__} raised {e!r}"[:200], case)
        steps = [("later-instance", lambda: local_file.LocalFileObjectStore(d).get_identifiable(obj.id)),
                 ("same-instance", lambda: a.get_identifiable(obj.id)),
                 ("iteration", lambda: next(o for o in a if o.id == obj.id))]
        for name, get in steps:
            try:
                got = get()
            except Exception as e:
                return C.Failing(f"rich:{name}:raises:" + type(e).__name__, f"{name} read of {obj.id!r} raised {e!r}"[:200], case)
            if name != "later-instance" and got is not obj:
                return C.Failing(f"rich:{name}:other-object", f"{name}: the store that added the object hands out another object", case)
            df = canon.diff(want, canon.canon(got))
            if df:
                return C.Failing(f"rich:{name}:differs:" + c03.sig_of(df, "file", want).split(":", 2)[-1], f"{name} read differs from what was added: {df[:200]}", case)
        try:
            obj.update()
        except Exception as e:
            return C.Failing("rich:update:raises:" + type(e).__name__, f"update() raised {e!r}"[:200], case)
        df = canon.diff(want, canon.canon(obj))
        if df:
            return C.Failing("rich:update:differs:" + c03.sig_of(df, "file", want).split(":", 2)[-1], f"update() with nothing written in between changed the object: {df[:200]}", case)
        # (round 8) another instance replaces content that hangs BELOW an attribute value, twice: the second administration
        # compares == to the first in Python (AdministrativeInformation.__eq__ looks at version / revision / creator / template
        # id only) but carries other data specifications - a refresh must take it over all the same
        def _adm(pn, unit):
            return model.AdministrativeInformation(version="7", revision="1", embedded_data_specifications=[
                model.EmbeddedDataSpecification(
                    model.ExternalReference((model.Key(model.KeyTypes.GLOBAL_REFERENCE, "urn:ds:iec"),)),
                    model.DataSpecificationIEC61360(model.PreferredNameTypeIEC61360({"en": pn}), unit=unit))])
        for rnd, (pn, unit) in enumerate((("first", None), ("second", "m"))):
            for how in ("update", "get"):
                try:
                    b = local_file.LocalFileObjectStore(d)
                    ob = b.get_identifiable(obj.id)
                    ob.administration = _adm(pn + "-" + how, unit)
                    ob.commit()
                    want_b = canon.canon(ob)
                    if how == "update":
                        obj.update()
                    else:
                        a.get_identifiable(obj.id)
                except Exception as e:
                    return C.Failing(f"rich:refresh-below-attribute:{how}:raises:" + type(e).__name__, f"{how} after another instance's commit raised {e!r}"[:200], case)
                df = canon.diff(want_b, canon.canon(obj))
                if df:
                    return C.Failing(f"rich:refresh-below-attribute:{how}:stale", "another instance committed an administration that differs from the live one only in its "
                                     f"embedded data specifications; after {how} the live object still differs from the stored one: {df[:160]}", case)
        obj.category = "PARAMETER" if obj.category != "PARAMETER" else None
        want2 = canon.canon(obj)
        try:
            obj.commit()
            got = local_file.LocalFileObjectStore(d).get_identifiable(obj.id)
        except Exception as e:
            return C.Failing("rich:commit:raises:" + type(e).__name__, f"commit()/read raised {e!r}"[:200], case)
        df = canon.diff(want2, canon.canon(got))
        if df:
            return C.Failing("rich:commit:differs:" + c03.sig_of(df, "file", want).split(":", 2)[-1], f"a later instance reads something else than was committed: {df[:200]}", case)
    finally:
        shutil.rmtree(d, ignore_errors=True)
    return None


def search(ctx: C.Ctx, disagreements, broken) -> List[C.Failing]:
    out = []
    for d in disagreements:
        if isinstance(d.case, dict):
            f = replay(d.case)
            if f:
                out.append(f)
    if out:
        return out
    big = C.Ctx(ctx.prop, "thorough", ctx.seed + 1, random.Random(f"search:{ctx.seed}"), ctx.t0, ctx.jobs)
    return oracle(big, C.Coverage())


def replay(case) -> Optional[C.Failing]:
    if case.get("kind") == "conc":
        return check_schedule(case["cfg"], case["sched"], case.get("fine", False))
    if case.get("kind") == "rich":
        return check_rich(case["seed"], case["index"])
    return check_sequence(case["ops"])
