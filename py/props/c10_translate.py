"""T-gen for C10/C11: tables extracted from sdk/basyx/aas/adapter/http.py by `ast` (never by importing it)
-> lean/Basyx/Gen/Routes.lean.  Deterministic text; an unrecognised construct is reported as a broken tie."""
from __future__ import annotations

import ast
import os
from typing import Any, Dict, List, Optional, Tuple

from vf import common as C

GEN_PATH = os.path.join(C.LEAN_DIR, "Basyx", "Gen", "Routes.lean")


def _name(n: ast.AST) -> str:
    if isinstance(n, ast.Name):
        return n.id
    if isinstance(n, ast.Attribute):
        return n.attr
    if isinstance(n, ast.Subscript):
        return _name(n.value)
    if isinstance(n, ast.Call):
        return _name(n.func)
    raise ValueError(ast.dump(n)[:80])


def _const(n: ast.AST) -> Any:
    if isinstance(n, ast.Constant):
        return n.value
    raise ValueError("not a constant: " + ast.dump(n)[:80])


def _rules(node: ast.AST, prefix: str, out: List[Tuple[str, Optional[List[str]], str]], problems: List[str]):
    """node: an ast.List of Rule(...) / Submount(prefix, [...]) calls."""
    if not isinstance(node, ast.List):
        problems.append("route table: expected a list literal")
        return
    for el in node.elts:
        if not isinstance(el, ast.Call):
            problems.append("route table: element is not a call")
            continue
        fn = _name(el.func)
        if fn == "Submount":
            # the outermost Submount is the configurable base path (a parameter, not a literal): patterns are kept relative to it
            sub = el.args[0].value if isinstance(el.args[0], ast.Constant) else ""
            _rules(el.args[1], prefix + sub, out, problems)
        elif fn == "Rule":
            path = prefix + _const(el.args[0])
            methods = None
            endpoint = None
            for kw in el.keywords:
                if kw.arg == "methods":
                    methods = [_const(e) for e in kw.value.elts]  # type: ignore[attr-defined]
                elif kw.arg == "endpoint":
                    endpoint = _name(kw.value)
                else:
                    problems.append(f"route table: Rule keyword {kw.arg} not understood")
            if endpoint is None:
                problems.append(f"route table: Rule {path} without endpoint")
                continue
            out.append((path, methods, endpoint))
        else:
            problems.append(f"route table: unknown constructor {fn}")


def _handler_action(h: ast.ExceptHandler, problems: List[str], where: str) -> Tuple[str, str, str, int]:
    """Classify the body of an except clause: (act, a, b, cid) with act in raise | reraise | return | pass | continue | cid."""
    body = [s for s in h.body if not (isinstance(s, ast.Expr) and isinstance(s.value, ast.Constant))]

    def raised(s: ast.Raise) -> Tuple[str, str]:
        return ("reraise", "") if s.exc is None else ("raise", _name(s.exc))
    if len(body) == 1 and isinstance(body[0], ast.Raise):
        act, a = raised(body[0])
        return (act, a, "", 0)
    if len(body) == 1 and isinstance(body[0], ast.Pass):
        return ("pass", "", "", 0)
    if len(body) == 1 and isinstance(body[0], ast.Return):
        return ("return", "", "", 0)
    if len(body) == 1 and isinstance(body[0], ast.Continue):
        return ("continue", "", "", 0)
    # `if e.constraint_id != N: raise [X]` followed by `raise Y(...)`
    if (len(body) == 2 and isinstance(body[0], ast.If) and isinstance(body[1], ast.Raise)
            and isinstance(body[0].test, ast.Compare) and len(body[0].test.ops) == 1
            and isinstance(body[0].test.ops[0], ast.NotEq) and isinstance(body[0].test.left, ast.Attribute)
            and body[0].test.left.attr == "constraint_id" and len(body[0].body) == 1
            and isinstance(body[0].body[0], ast.Raise) and not body[0].orelse and body[1].exc is not None):
        cid = _const(body[0].test.comparators[0])
        act_b, b = raised(body[0].body[0])
        return ("cid", _name(body[1].exc), b if act_b == "raise" else "reraise", int(cid))
    # xml(): walk the __cause__ chain, then raise
    if body and isinstance(body[-1], ast.Raise) and all(isinstance(s, (ast.Assign, ast.AnnAssign, ast.While)) for s in body[:-1]):
        act, a = raised(body[-1])
        return (act, a, "", 0)
    # clean-up before the raise (round 4: the attachment upload takes the stored file back): statements without any transfer of control
    # (no raise / return / break / continue anywhere inside them), then the raise every path through the body ends in
    def no_transfer(s: ast.stmt) -> bool:
        return isinstance(s, (ast.Assign, ast.AnnAssign, ast.Expr, ast.If)) and not any(
            isinstance(n, (ast.Raise, ast.Return, ast.Break, ast.Continue, ast.FunctionDef, ast.Lambda, ast.Try)) for n in ast.walk(s))
    if len(body) >= 2 and isinstance(body[-1], ast.Raise) and all(no_transfer(s) for s in body[:-1]):
        act, a = raised(body[-1])
        return (act, a, "", 0)
    problems.append(f"except clause in {where} has an unrecognised body")
    return ("unknown", "", "", 0)


def _exc_names(h: ast.ExceptHandler) -> List[str]:
    if h.type is None:
        return ["BaseException"]
    if isinstance(h.type, ast.Tuple):
        return [_name(e) for e in h.type.elts]
    return [_name(h.type)]


class _Fn(ast.NodeVisitor):
    """Per function: except clauses, direct raises, commit calls, request_body / response_t call shapes."""

    def __init__(self, problems: List[str]):
        self.problems = problems
        self.catches: Dict[str, List[Tuple[List[str], Tuple[str, str, str, int]]]] = {}
        self.raises: Dict[str, List[str]] = {}
        self.commits: Dict[str, int] = {}
        self.decodes: Dict[str, List[Tuple[str, str]]] = {}
        self.responses: Dict[str, List[Tuple[str, str, bool]]] = {}
        self.stack: List[str] = []

    def visit_ClassDef(self, node: ast.ClassDef):
        self.stack.append(node.name)
        self.generic_visit(node)
        self.stack.pop()

    def visit_FunctionDef(self, node: ast.FunctionDef):
        fn = node.name
        self.stack.append(fn)
        self.catches.setdefault(fn, [])
        self.raises.setdefault(fn, [])
        self.commits.setdefault(fn, 0)
        self._walk(fn, node.body, in_handler=False)
        self.stack.pop()

    def _strip_mode(self, n: Optional[ast.AST]) -> str:
        if n is None:
            return "never"
        if isinstance(n, ast.Constant) and n.value is True:
            return "always"
        if isinstance(n, ast.Constant) and n.value is False:
            return "never"
        if isinstance(n, ast.Call) and _name(n.func) == "is_stripped_request":
            return "core"
        self.problems.append("stripped argument not understood: " + ast.dump(n)[:60])
        return "unknown"

    def _walk(self, fn: str, stmts: List[ast.stmt], in_handler: bool):
        for s in stmts:
            if isinstance(s, (ast.FunctionDef, ast.ClassDef)):
                continue
            if isinstance(s, ast.Try):
                self._walk(fn, s.body, in_handler)
                for h in s.handlers:
                    self.catches[fn].append((_exc_names(h), _handler_action(h, self.problems, fn)))
                    self._walk(fn, h.body, True)
                self._walk(fn, s.orelse, in_handler)
                self._walk(fn, s.finalbody, in_handler)
                continue
            if isinstance(s, ast.Raise) and not in_handler and s.exc is not None:
                self.raises[fn].append(_name(s.exc))
            for sub in ast.iter_child_nodes(s):
                if isinstance(sub, list):
                    continue
            # calls anywhere in this statement (not descending into nested statement lists twice)
            for field in ("body", "orelse", "finalbody"):
                if hasattr(s, field) and isinstance(getattr(s, field), list) and not isinstance(s, ast.Try):
                    self._walk(fn, getattr(s, field), in_handler)
            for expr in self._own_exprs(s):
                for c in ast.walk(expr):
                    if isinstance(c, ast.Call):
                        self._call(fn, c)

    @staticmethod
    def _own_exprs(s: ast.stmt):
        for name, val in ast.iter_fields(s):
            if name in ("body", "orelse", "finalbody", "handlers"):
                continue
            if isinstance(val, ast.AST):
                yield val
            elif isinstance(val, list):
                for v in val:
                    if isinstance(v, ast.AST):
                        yield v

    def _call(self, fn: str, c: ast.Call):
        try:
            name = _name(c.func)
        except ValueError:
            return
        if name == "commit" and isinstance(c.func, ast.Attribute):
            self.commits[fn] += 1
        elif name == "request_body" and len(c.args) >= 3:
            self.decodes.setdefault(fn, []).append((_name(c.args[1]), self._strip_mode(c.args[2])))
        elif name == "response_t":
            status = "default"
            stripped = None
            loc = False
            for kw in c.keywords:
                if kw.arg == "status":
                    status = str(_const(kw.value))
                elif kw.arg == "stripped":
                    stripped = kw.value
                elif kw.arg == "headers":
                    loc = isinstance(kw.value, ast.Dict) and any(isinstance(k, ast.Constant) and k.value == "Location" for k in kw.value.keys)
            if not c.args:
                status = "204" if status == "default" else status
            elif status == "default":
                status = "200"
            self.responses.setdefault(fn, []).append((status, self._strip_mode(stripped), loc))


def extract(repo: str) -> Tuple[Dict[str, Any], List[str]]:
    src = open(os.path.join(repo, "sdk", "basyx", "aas", "adapter", "http.py"), encoding="utf-8").read()
    tree = ast.parse(src)
    problems: List[str] = []
    rules: List[Tuple[str, Optional[List[str]], str]] = []
    converters: List[str] = []
    strict_slashes = None
    constructables: List[str] = []
    valid_cts: List[str] = []
    resp_types: List[str] = []
    for node in ast.walk(tree):
        if isinstance(node, ast.Call) and isinstance(node.func, ast.Attribute) and node.func.attr == "Map" and node.args:
            _rules(node.args[0], "", rules, problems)
            for kw in node.keywords:
                if kw.arg == "converters" and isinstance(kw.value, ast.Dict):
                    converters = [_const(k) + "=" + _name(v) for k, v in zip(kw.value.keys, kw.value.values)]  # type: ignore[arg-type]
                if kw.arg == "strict_slashes":
                    strict_slashes = _const(kw.value)
        if isinstance(node, ast.Assign) and len(node.targets) == 1 and isinstance(node.targets[0], ast.Name):
            t = node.targets[0].id
            if t == "type_constructables_map" and isinstance(node.value, ast.Dict):
                constructables = [_name(k) for k in node.value.keys]  # type: ignore[arg-type]
            if t == "valid_content_types" and isinstance(node.value, ast.Tuple):
                valid_cts = [_const(e) for e in node.value.elts]
        if isinstance(node, ast.AnnAssign) and isinstance(node.target, ast.Name) and node.target.id == "response_types" \
                and isinstance(node.value, ast.Dict):
            resp_types = [_const(k) for k in node.value.keys]  # type: ignore[arg-type]
    if not rules:
        problems.append("route table not found")
    if not constructables:
        problems.append("type_constructables_map not found")
    if not valid_cts:
        problems.append("valid_content_types not found")
    if not resp_types:
        problems.append("response_types not found")
    if strict_slashes is not False:
        problems.append("strict_slashes is not False")
    v = _Fn(problems)
    v.visit(tree)
    return {"rules": rules, "converters": converters, "constructables": constructables, "valid_cts": valid_cts,
            "resp_types": resp_types, "catches": v.catches, "raises": v.raises, "commits": v.commits,
            "decodes": v.decodes, "responses": v.responses}, problems


def probe_update_from(repo: str) -> Dict[str, bool]:
    """Behavioural constants of model.base.update_from / update_nss_from that the handler model depends on.  They are
    regenerated on every run so that the model follows a repair of base.py made for C12 (update_from is shared ground):
      qualifierValueUpdated      is the value of an already present qualifier replaced?
      classChangeReplaces        is a contained element whose class differs replaced (removed, then the new one added)
                                 instead of being updated in place (which raises on this SDK's original tree)?"""
    from basyx.aas import model
    a = model.Submodel("x", qualifier=[model.Qualifier("t", model.datatypes.String, "1")])
    b = model.Submodel("x", qualifier=[model.Qualifier("t", model.datatypes.String, "2")])
    try:
        a.update_from(b)
        upd = a.get_qualifier_by_type("t").value == "2"
    except Exception:
        upd = False
    a = model.Submodel("x", submodel_element=[model.Property("p", model.datatypes.String, "v")])
    b = model.Submodel("x", submodel_element=[model.SubmodelElementCollection("p", [model.Property("q", model.datatypes.String, "v")])])
    try:
        a.update_from(b)
        repl = isinstance(a.get_referable("p"), model.SubmodelElementCollection) and len(a.submodel_element) == 1
    except Exception:
        repl = False
    return {"qualifierValueUpdated": upd, "classChangeReplaces": repl}


def _s(x: str) -> str:
    return '"' + x.replace("\\", "\\\\").replace('"', '\\"') + '"'


def _l(xs) -> str:
    return "[" + ", ".join(xs) + "]"


def render(t: Dict[str, Any], flags: Dict[str, bool]) -> str:
    o: List[str] = []
    o.append("/- GENERATED by py/props/c10_translate.py from sdk/basyx/aas/adapter/http.py (ast) — do not edit. -/")
    o.append("namespace Basyx.Gen.Routes")
    o.append("")
    o.append("/-- (full path pattern below the base path, methods (`none` = any), endpoint method name), in source order -/")
    o.append("def rules : List (String × Option (List String) × String) := [")
    rows = []
    for path, methods, ep in t["rules"]:
        m = "none" if methods is None else "some " + _l(_s(x) for x in methods)
        rows.append(f"  ({_s(path)}, {m}, {_s(ep)})")
    o.append(",\n".join(rows))
    o.append("]")
    o.append("")
    o.append(f"def converters : List String := {_l(_s(x) for x in t['converters'])}")
    o.append(f"def constructables : List String := {_l(_s(x) for x in t['constructables'])}")
    o.append(f"def validContentTypes : List String := {_l(_s(x) for x in t['valid_cts'])}")
    o.append(f"def responseTypes : List String := {_l(_s(x) for x in t['resp_types'])}")
    o.append("")
    o.append("/-- function ↦ its except clauses in source order: (exception class names, act, a, b, cid): act = raise (class a) | reraise | return | pass | continue | cid (constraint_id == cid: raise a, otherwise raise b / reraise) -/")
    o.append("def catches : List (String × List (List String × String × String × String × Nat)) := [")
    rows = []
    for fn in sorted(t["catches"]):
        if t["catches"][fn]:
            rows.append(f"  ({_s(fn)}, {_l('(' + _l(_s(n) for n in names) + ', ' + _s(a[0]) + ', ' + _s(a[1]) + ', ' + _s(a[2]) + ', ' + str(a[3]) + ')' for names, a in t['catches'][fn])})")
    o.append(",\n".join(rows))
    o.append("]")
    o.append("")
    o.append("/-- function ↦ exception classes raised directly (outside except clauses), in source order -/")
    o.append("def raises : List (String × List String) := [")
    o.append(",\n".join(f"  ({_s(fn)}, {_l(_s(x) for x in t['raises'][fn])})" for fn in sorted(t["raises"]) if t["raises"][fn]))
    o.append("]")
    o.append("")
    o.append("/-- function ↦ number of `.commit()` calls in its body -/")
    o.append("def commits : List (String × Nat) := [")
    o.append(",\n".join(f"  ({_s(fn)}, {t['commits'][fn]})" for fn in sorted(t["commits"]) if t["commits"][fn]))
    o.append("]")
    o.append("")
    o.append("/-- function ↦ `HTTPApiDecoder.request_body(request, model.<T>, <stripped>)` calls: (T, never | core | always) -/")
    o.append("def decodes : List (String × List (String × String)) := [")
    o.append(",\n".join(f"  ({_s(fn)}, {_l('(' + _s(a) + ', ' + _s(b) + ')' for a, b in t['decodes'][fn])})" for fn in sorted(t["decodes"])))
    o.append("]")
    o.append("")
    o.append("/-- function ↦ `response_t(...)` calls: (status, stripped mode, has Location header) -/")
    o.append("def responses : List (String × List (Nat × String × Bool)) := [")
    o.append(",\n".join(f"  ({_s(fn)}, {_l('(' + str(int(a)) + ', ' + _s(b) + ', ' + ('true' if c else 'false') + ')' for a, b, c in t['responses'][fn])})"
                        for fn in sorted(t["responses"])))
    o.append("]")
    o.append("")
    o.append("/-- behaviour of `Referable.update_from` probed on the current tree: is the value of an already present qualifier replaced? -/")
    o.append(f"def qualifierValueUpdated : Bool := {'true' if flags['qualifierValueUpdated'] else 'false'}")
    o.append("/-- does `update_nss_from` replace a contained element of another class (remove, then add the new one; removals before additions)? -/")
    o.append(f"def classChangeReplaces : Bool := {'true' if flags['classChangeReplaces'] else 'false'}")
    o.append("")
    o.append("end Basyx.Gen.Routes")
    return "\n".join(o) + "\n"


def translate(ctx) -> List[str]:
    t, problems = extract(C.REPO)
    flags = probe_update_from(C.REPO)
    txt = render(t, flags)
    old = open(GEN_PATH, encoding="utf-8").read() if os.path.exists(GEN_PATH) else None
    if old != txt:
        os.makedirs(os.path.dirname(GEN_PATH), exist_ok=True)
        tmp = GEN_PATH + ".tmp"
        with open(tmp, "w", encoding="utf-8") as f:
            f.write(txt)
        os.replace(tmp, GEN_PATH)
    return problems + translate_body_readers()


def translate_body_readers() -> List[str]:
    """which reader HTTPApiDecoder uses for a request body (Gen/SelectHttp.lean), and the selection tables of the readers
    themselves (Gen/Select.lean) - the obligation c11_body_readers_strict is about both"""
    from translate import select_tables as S
    out: List[str] = []
    for path, text, unrec in ((os.path.join(C.LEAN_DIR, "Basyx", "Gen", "SelectHttp.lean"),) + (lambda d: (S.emit_lean_http(d), d["unrecognised"]))(S.build_http(C.REPO)),
                              (os.path.join(C.LEAN_DIR, "Basyx", "Gen", "Select.lean"),) + (lambda d: (S.emit_lean(d), d["unrecognised"]))(S.build(C.REPO))):
        if not os.path.exists(path) or open(path, encoding="utf-8").read() != text:
            with open(path, "w", encoding="utf-8") as f:
                f.write(text)
        out += [f"unrecognised source construct: {u}" for u in unrec]
    return out
