"""C17 — update()/commit() reach exactly the right backends with resolvable paths (Model/Tree.lean vs base.py/backends.py)."""
from __future__ import annotations

import copy
import itertools
import random
import re
from collections import Counter
from typing import Any, Dict, List, Optional, Tuple

from vf import common as C
from vf import treegen as T

ID = "C17"
LEAN_MODULE = "Basyx.Props.C17"
LEVEL = "proof"

MANIFEST = {
    "text": "Lean theorems over ALL referable trees, ALL placements of source strings on their nodes, every target node and both "
            "values of `recursive`: the calls commit() makes are exactly one per sourced proper ancestor (store = ancestor, object = "
            "node, path = segments between them), one for the node if sourced, one per sourced descendant (store = object = "
            "descendant, empty path), no duplicates, nothing else; update() consults the node's own source, else its nearest sourced "
            "ancestor, plus every sourced descendant iff recursive; every relative path of a commit() call and of an own-source/"
            "descendant update() call resolves from the store object to the object by get_referable (the C07 resolver); the first "
            "consulted source whose scheme is missing/unregistered aborts the walk with ValueError/UnknownBackendException and the "
            "calls before it have been made. Tie: recording Backend classes registered for private schemes, exhaustive small shapes x "
            "all placements x all targets plus generated trees over every container kind."
            " That get_backend consults the registry on every call (no memoising decorator) is regenerated from the source (c17_backend_lookup_not_memoised).",
    "note": "developed against /repo + fixes/C17-list-index-path-segment.patch (path segment of a list child = its index, not the "
            "generated id_short). Known finding (pinned by ReferableTest.test_update, not repairable with the suite unedited): the path "
            "update() hands over via find_source() starts with the store object's own id_short, so it does not resolve from the store "
            "object - c17_update_path_partial proves that its tail does, c17_update_path_witness proves the negation of the full claim.",
    "technique": "Lean 4 proof by induction over parent chains and (mutual) structural induction over trees of an executable transcription "
                 "of update/find_source/commit/_direct_source_commit/get_backend; differential correspondence with a recording backend",
}
ASSUMPTIONS = [
    "a Backend's update_object/commit_object does not itself change sources or the tree (the recording backend does not)",
    "get_backend is free of side effects, so `walk then look up backends in order, stop at the first failure` equals the interleaved code",
    "NamespaceSet iteration order = insertion order (CPython dict); only id_short namespace sets hold Referables",
    "the scheme regex is transcribed for ASCII input",
]
NEUTRAL = ["which of ValueError / UnknownBackendException reports a source WITHOUT a scheme (backends.get_backend raises ValueError, "
           "pinned by test_backends; update()'s docstring promises a BackendError)",
           "schemes containing digits (RFC 3986 allows them, RE_URI_SCHEME does not) are not generated"]

SCHEMES = ["vfa", "vf.b+c-d"]
GOOD_SOURCES = ["vfa:one", "vfa://host/x?y#z", "vf.b+c-d:zz"]
UNKNOWN_SOURCES = ["vfunknown:x", "vfa.x://y", "VFA:upper"]
NOSCHEME_SOURCES = ["noscheme", ":x", "vfa", "vf_a:x", " vfa:x", "-vfa:x",
                    # letters that case-insensitive matching folds onto ASCII ones (long s, Kelvin sign): not scheme characters
                    "\u017ftore://x", "\u212a:x"]
ODD_SCHEMES = ["\u017ftore", "\u212a"]         # backends registered under these names must never be reached

_LOG: List[Any] = []


_GEN = [0]
_RUNS = [0]


def register():
    """(Re-)register a fresh backend class for every scheme.  An application may replace the backend of a scheme at any time;
    the class that is registered when update()/commit() runs is the one that must be called: a call that lands in a class of an
    earlier registration is logged under `<scheme>@stale`."""
    from basyx.aas.backend import backends
    _GEN[0] += 1
    made = {}
    for sc in SCHEMES:
        def mk(sc=sc, gen=_GEN[0]):
            class Rec(backends.Backend):
                scheme = sc

                @classmethod
                def _name(cls):
                    return cls.scheme if gen == _GEN[0] else cls.scheme + "@stale"

                @classmethod
                def commit_object(cls, committed_object, store_object, relative_path):
                    _LOG.append(("commit", cls._name(), store_object, committed_object, list(relative_path)))

                @classmethod
                def update_object(cls, updated_object, store_object, relative_path):
                    _LOG.append(("update", cls._name(), store_object, updated_object, list(relative_path)))
            return Rec
        made[sc] = mk()
        backends.register_backend(sc, made[sc])
    for sc in ODD_SCHEMES:
        def mk2(sc=sc):
            class Odd(backends.Backend):
                @classmethod
                def commit_object(cls, committed_object, store_object, relative_path):
                    _LOG.append(("commit", sc, store_object, committed_object, list(relative_path)))

                @classmethod
                def update_object(cls, updated_object, store_object, relative_path):
                    _LOG.append(("update", sc, store_object, updated_object, list(relative_path)))
            return Odd
        backends.register_backend(sc, mk2())
    return made


def unregister():
    from basyx.aas.backend import backends
    for sc in SCHEMES + ODD_SCHEMES:
        backends._backends_map.pop(sc, None)


def canon_exc(e: BaseException) -> List[Any]:
    from basyx.aas.backend import backends
    if isinstance(e, backends.UnknownBackendException):
        return ["raise", "UnknownBackendException"]
    for k in (KeyError, ValueError, TypeError, AttributeError, AssertionError, IndexError):
        if isinstance(e, k):
            return ["raise", k.__name__]
    return ["raise", "Other:" + type(e).__name__]


class Built:
    def __init__(self, desc):
        self.desc = copy.deepcopy(desc)
        self.objs: Dict[Tuple[int, ...], Any] = {}
        T.build(self.desc, self.objs)
        self._churn()
        self.ident = {id(o): p for p, o in self.objs.items()}
        self.paths = [p for p, _ in T.nodes_of(self.desc)]

    def _churn(self):
        """(round 5) a history that leaves the tree as it is: "every sourced ancestor / descendant" is about the tree as it stands
        after ANY history.  Removing / discarding an object that merely looks like a member (same idShort, another object - the
        matching element of a second replica, say) is refused and changes nothing; the first item of a list is taken out and put
        back in place."""
        from basyx.aas import model
        for p in sorted(self.objs):
            o = self.objs[p]
            if isinstance(o, model.Operation):
                # the three variable sets share one idShort scope: a rename onto a variable of another set is refused, nothing changes
                sets = [s_ for s_ in (o.input_variable, o.output_variable, o.in_output_variable) if len(s_)]
                if len(sets) >= 2:
                    a, b = next(iter(sets[0])), next(iter(sets[-1]))
                    for x, y in ((a, b), (b, a)):
                        try:
                            x.id_short = y.id_short
                        except Exception:
                            pass
            if isinstance(o, model.SubmodelElementList):
                if len(o.value) >= 2:
                    x = o.value.pop(0)
                    o.value.insert(0, x)
                if len(o.value) >= 1:
                    # a slice assignment that is refused (an item of a class the list does not take) leaves the list as it was
                    wrong = model.Capability(None) if o.type_value_list_element is not model.Capability else model.ReferenceElement(None)
                    try:
                        o.value[0:1] = [wrong]
                    except Exception:
                        pass
                continue
            for attr in ("submodel_element", "value", "statement", "annotation", "input_variable", "output_variable", "in_output_variable"):
                ns = getattr(o, attr, None)
                if isinstance(ns, model.NamespaceSet) and len(ns) >= 1:
                    member = next(iter(ns))
                    twin = model.Capability(member.id_short)
                    try:
                        ns.remove(twin)
                    except KeyError:
                        pass
                    ns.discard(twin)

    def place(self, sources: List[str]):
        for p, s in zip(self.paths, sources):
            self.objs[p].source = s
            T.node_at(self.desc, p)[3] = s

    def run(self, op: str, target, recursive: bool) -> Tuple[List[Any], Optional[List[Any]], List[Any]]:
        """-> (calls as [scheme, store path, object path, rel], error, raw log)"""
        del _LOG[:]
        err = None
        _RUNS[0] += 1
        if _RUNS[0] % 7 == 0:
            register()               # the application swaps the backend classes between two calls
        try:
            o = self.objs[tuple(target)]
            if op == "commit":
                o.commit()
            else:
                o.update(recursive=recursive)
        except Exception as e:
            err = canon_exc(e)
        raw = list(_LOG)
        calls = []
        for kind, sc, st, ob, rel in raw:
            calls.append([sc, list(self.ident.get(id(st), (-1,))), list(self.ident.get(id(ob), (-1,))), rel,
                          kind])
        return calls, err, raw


def strip_generated(d):
    out = [d[0], d[1], d[2], d[3], [strip_generated(c) for c in d[4]]] + list(d[5:])
    if d[0] == "SubmodelElementList":
        for c in out[4]:
            c[2] = None
    return out


# ------------------------------------------------------------------------------------------------ generation

def gen_sources(rng: random.Random, n: int, bad: bool) -> List[str]:
    dens = rng.choice([0.2, 0.5, 0.8])
    out = []
    for _ in range(n):
        if rng.random() < dens:
            if bad and rng.random() < 0.25:
                out.append(rng.choice(UNKNOWN_SOURCES + NOSCHEME_SOURCES))
            else:
                out.append(rng.choice(GOOD_SOURCES))
        else:
            out.append("")
    return out


def workloads(ctx: C.Ctx, rng: random.Random):
    """Yields (desc, list of source placements, exhaustive?)"""
    max_nodes = 3 if ctx.tier == "quick" else 4
    shapes = T.enum_shapes(max_nodes)
    for d in shapes:
        n = len(T.nodes_of(d))
        placements = [[("vfa:one" if b else "") for b in bits] for bits in itertools.product([0, 1], repeat=n)]
        # two schemes: a few mixed placements per shape
        for _ in range(2):
            placements.append([rng.choice(["", "vfa:one", "vf.b+c-d:zz"]) for _ in range(n)])
        yield d, placements, True
    for k in range(ctx.budget(60, 1500)):
        d = T.gen_desc(rng, rng.randint(2, 4), 3, uid=k)
        n = len(T.nodes_of(d))
        if n > 40:
            continue
        placements = [gen_sources(rng, n, bad=(j % 3 == 2)) for j in range(ctx.budget(3, 6))]
        if n <= 8 and ctx.tier == "thorough" and rng.random() < 0.2:
            placements += [[("vfa:one" if b else "") for b in bits] for bits in itertools.product([0, 1], repeat=n)]
        yield d, placements, False


def model_calls(calls) -> List[Any]:
    return [[sc, st, ob, rel] for sc, st, ob, rel, _ in calls]


def translate(ctx: C.Ctx) -> List[str]:
    """The shared tree model reads two extracted flags (see c07.translate); C17 itself does not depend on them."""
    from props import c07, c14
    c07.translate(ctx)
    return c14.translate_backends(ctx)


def correspond(ctx: C.Ctx, cov: C.Coverage) -> List[C.Disagreement]:
    rng = random.Random(f"C17:{ctx.seed}")
    cov.rule = ("every submodel tree with <= N element nodes over {collection, list, property} (N=3 quick, 4 thorough) x ALL 2^n source "
                "placements (+ mixed two-scheme placements) x every node as target x {commit, update recursive, update non-recursive}; "
                "plus generated trees over every container kind (lists of lists, operations, entities, annotated relationships) with "
                "random placements incl. unknown-scheme / scheme-less sources; compared: the ordered list of backend invocations "
                "(scheme, store object, object, relative_path) made before a raise, and the exception kind. non-trivial = >= 2 sourced "
                "nodes on one root-to-leaf path or a list on the path or a raised error; distinct = (shape, placement, target, op)")
    lines: List[Any] = []
    impl: List[Any] = []
    index: List[Any] = []
    for s in GOOD_SOURCES + UNKNOWN_SOURCES + NOSCHEME_SOURCES + ["", "a:", "a+-.:x", "ab c:x", "é:x", "a1:x"]:
        m = re.match(r"^([a-zA-Z][a-zA-Z+\-\.]*):", s)
        lines.append(["scheme", s]); impl.append(m[1] if m else None); index.append(None)
    register()
    try:
        nshapes = 0
        for d, placements, exhaustive in workloads(ctx, rng):
            b = Built(d)
            nshapes += 1
            for pl in placements:
                b.place(pl)
                lines.append(["reset"]); impl.append(["reset"]); index.append(None)
                lines.append(["tree", 0, T.model_desc(b.desc)]); impl.append(["unit"]); index.append(None)
                sourced = {p for p, s in zip(b.paths, pl) if s}
                for p in b.paths:
                    for op, rec in (("commit", False), ("update", True), ("update", False)):
                        calls, err, _ = b.run(op, p, rec)
                        case = {"desc": strip_generated(b.desc), "target": list(p), "op": op, "recursive": rec}
                        if op == "commit":
                            lines.append(["commit", SCHEMES, 0, list(p)])
                        else:
                            lines.append(["update", SCHEMES, 0, list(p), rec])
                        impl.append([model_calls(calls), err]); index.append(case)
                        cov.evaluations += 1
                        cov.hit(op + ("" if op == "commit" else (":rec" if rec else ":nonrec")) + ("!" + err[1] if err else ""))
                        on_path = sum(1 for k in range(len(p) + 1) if p[:k] in sourced)
                        under_list = any(T.node_at(b.desc, p[:k])[0] == "SubmodelElementList" for k in range(len(p)))
                        if on_path >= 2 or under_list or err:
                            cov.nontrivial.add(C.sha(case))
        cov.extra["shapes"] = nshapes
    finally:
        unregister()
    cov.exhaustive = True
    cov.extra["neutral_zones"] = NEUTRAL
    cov.samples = [x for x in index if x][:3]
    out = C.run_model("C17", lines)
    if len(out) != len(impl):
        return [C.Disagreement("driver output length", None, len(out), len(impl))]
    dis: List[C.Disagreement] = []
    for k, (m, i) in enumerate(zip(out, impl)):
        if m != i:
            dis.append(C.Disagreement(f"line {lines[k]}", index[k], m, i))
            if len(dis) >= 5:
                break
    return dis


# ------------------------------------------------------------------------------------------------ oracle

RFC_SCHEME = re.compile(r"^[A-Za-z][A-Za-z+.\-]*:")


def follow(store, rel):
    """backends.py: `obj = store_object; for i in relative_path: obj = obj.get_referable(i)`"""
    obj = store
    for i in rel:
        obj = obj.get_referable(i)
    return obj


def check(case) -> Optional[C.Failing]:
    """The property over the implementation for one (tree, placement, target, op)."""
    b = Built(case["desc"])
    srcs = [T.node_at(b.desc, p)[3] for p in b.paths]
    b.place(srcs)
    p = tuple(case["target"])
    op, rec = case["op"], case["recursive"]
    src = {q: s for q, s in zip(b.paths, srcs)}
    anc = [p[:k] for k in range(len(p) - 1, -1, -1)]           # nearest first
    desc_ = [q for q in b.paths if len(q) > len(p) and q[:len(p)] == p]
    # which (store, object) pairs must be served
    if op == "commit":
        want = [(a, p) for a in anc if src[a]] + ([(p, p)] if src[p] else []) + [(q, q) for q in desc_ if src[q]]
    else:
        if src[p]:
            want = [(p, p)]
        else:
            near = next((a for a in anc if src[a]), None)
            want = [(near, p)] if near is not None else []
        if rec:
            want += [(q, q) for q in desc_ if src[q]]
    consulted = [src[st] for st, _ in want]

    def good(s):
        m = RFC_SCHEME.match(s)
        return bool(m) and m[0][:-1] in SCHEMES
    bad = [s for s in consulted if not good(s)]
    calls, err, raw = b.run(op, p, rec)
    tag = op if op == "commit" else "update"
    got = Counter((sc, tuple(st), tuple(ob)) for sc, st, ob, rel, kind in calls)
    for sc, st, ob, rel, kind in calls:
        if kind != tag:
            return C.Failing(f"c17:{tag}:wrong-backend-method", f"{kind}_object called during {tag}()", case, calls)
    if not bad:
        if err is not None:
            return C.Failing(f"c17:{tag}:raises-without-bad-source:{err[1]}", f"{tag}() raised {err} although every consulted source has a registered scheme", case, err)
        exp = Counter((RFC_SCHEME.match(src[st])[0][:-1], st, ob) for st, ob in want)
        if got != exp:
            missing = sorted((exp - got).elements()); extra = sorted((got - exp).elements())
            kind = "missing" if missing and not extra else ("extra" if extra and not missing else "different")
            rel_kind = []
            for (_, st, ob) in (missing + extra)[:1]:
                rel_kind.append("ancestor" if len(st) < len(ob) else ("own" if ob == p else "descendant"))
            return C.Failing(f"c17:{tag}{'' if op == 'commit' else (':rec' if rec else ':nonrec')}:calls:{kind}:{'+'.join(rel_kind)}",
                             f"{tag}() served {sorted(got.elements())}, required {sorted(exp.elements())}", case,
                             sorted(got.elements()), sorted(exp.elements()))
    else:
        if err is None:
            return C.Failing(f"c17:{tag}:bad-source-not-reported", f"{tag}() consulted sources {bad} without raising", case)
        allowed = ["UnknownBackendException"] if all(RFC_SCHEME.match(s) for s in bad) else ["UnknownBackendException", "ValueError"]
        if err[1] not in allowed:
            return C.Failing(f"c17:{tag}:bad-source:wrong-error:{err[1]}", f"sources {bad} reported by {err}, documented: {allowed}", case, err)
        exp = Counter((RFC_SCHEME.match(src[st])[0][:-1], st, ob) for st, ob in want if good(src[st]))
        if got - exp:
            return C.Failing(f"c17:{tag}:calls:extra-before-error", f"{sorted((got - exp).elements())}", case)
    # every relative path leads from the store object to the object
    for kind, sc, st, ob, rel in raw:
        ok = False
        try:
            ok = follow(st, rel) is ob
        except Exception:
            ok = False
        if ok:
            continue
        stp, obp = b.ident.get(id(st)), b.ident.get(id(ob))
        tail_ok = False
        if op == "update" and st is not ob and len(rel) >= 1:
            try:
                tail_ok = follow(st, rel[1:]) is ob
            except Exception:
                tail_ok = False
        if tail_ok:
            sig = "c17:update:path:starts-with-store-object"
        elif any(isinstance(x, str) and x.startswith("generated_submodel_list_hack_") for x in rel):
            sig = f"c17:{tag}:path:list-child-generated-idshort"
        else:
            sig = f"c17:{tag}:path:unresolvable"
        return C.Failing(sig, f"{tag}(): relative_path {rel} does not lead from store {stp} to object {obp}", case, rel)
    return None


def oracle(ctx: C.Ctx, cov: C.Coverage) -> List[C.Failing]:
    rng = random.Random(f"C17:{ctx.seed}")
    out: List[C.Failing] = []
    sigs = set()
    register()
    try:
        for d, placements, exhaustive in workloads(ctx, rng):
            b0 = Built(d)
            stride = 1 if (not exhaustive or ctx.tier == "thorough") else 1
            for pl in placements[::stride]:
                b0.place(pl)
                for p in b0.paths:
                    for op, rec in (("commit", False), ("update", True), ("update", False)):
                        case = {"desc": strip_generated(b0.desc), "target": list(p), "op": op, "recursive": rec}
                        f = check(case)
                        if f and f.sig not in sigs:
                            sigs.add(f.sig)
                            out.append(minimise(f))
    finally:
        unregister()
    return out


def minimise(f: C.Failing) -> C.Failing:
    """Prune subtrees and sources while the same signature fails."""
    best = f
    cur = copy.deepcopy(f.case)
    changed = True
    while changed:
        changed = False
        nodes = sorted(T.nodes_of(cur["desc"]), key=lambda x: -len(x[0]))
        for p, nd in nodes:
            tgt = tuple(cur["target"])
            # clear a source
            if nd[3]:
                cand = copy.deepcopy(cur)
                T.node_at(cand["desc"], p)[3] = ""
                g = _same(cand, f.sig)
                if g:
                    cur, best, changed = cand, g, True
                    break
            if not p or tgt[:len(p)] == p:
                continue
            cand = copy.deepcopy(cur)
            par = T.node_at(cand["desc"], p[:-1])
            del par[4][p[-1]]
            if par[0] == "Operation" and len(par) > 5 and par[5] is not None:
                del par[5][p[-1]]
            # the target's path shifts if an earlier sibling of one of its ancestors-or-self was removed
            t2 = list(tgt)
            if len(tgt) >= len(p) and tgt[:len(p) - 1] == p[:-1] and tgt[len(p) - 1] > p[-1]:
                t2[len(p) - 1] -= 1
            cand["target"] = t2
            g = _same(cand, f.sig)
            if g:
                cur, best, changed = cand, g, True
                break
    return best


def _same(case, sig) -> Optional[C.Failing]:
    try:
        g = check(case)
    except Exception:
        return None
    return g if g is not None and g.sig == sig else None


def search(ctx: C.Ctx, disagreements, broken) -> List[C.Failing]:
    out: List[C.Failing] = []
    register()
    try:
        for d in disagreements:
            if isinstance(d.case, dict) and "desc" in d.case:
                f = check(d.case)
                if f:
                    out.append(minimise(f))
    finally:
        unregister()
    if out:
        return out
    big = C.Ctx(ctx.prop, "thorough", ctx.seed + 1, random.Random(), ctx.t0, ctx.jobs)
    return oracle(big, C.Coverage())


def replay(case) -> Optional[C.Failing]:
    register()
    try:
        return check(case)
    finally:
        unregister()
