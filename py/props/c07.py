"""C07 — references built from elements resolve to exactly those elements (Model/Tree.lean vs base.py/provider.py)."""
from __future__ import annotations

import copy
import random
from typing import Any, Dict, List, Optional, Tuple

from vf import common as C
from vf import treegen as T

ID = "C07"
LEAN_MODULE = "Basyx.Props.C07"
LEVEL = "proof"

MANIFEST = {
    "text": "Lean theorems over ALL referable trees (any shape, depth, width; every container kind, lists anywhere), every node, every "
            "key chain / idShort-index path and every arrangement of stores behind a multiplexer: from_referable succeeds and its keys "
            "satisfy AASd-123..128; resolve(from_referable(x)) = x; the idShort/index path from any ancestor resolves to x; soundness "
            "(whatever resolve/get_referable returns is the element whose steps match the keys, and it is unique); every failure is one "
            "of the documented kinds for a stated reason (TypeError below a non-namespace, ValueError for a non-integer under a list, "
            "KeyError for unknown idShort / out-of-range or negative index / unknown identifier); Key, Reference, SpecificAssetId: "
            "eq implies equal hash input, attribute assignment raises. Tie: generated trees, every node, every prefix/suffix/"
            "perturbation of its chain and path, 1-3 stores, model vs implementation outcome (object identity or exception kind).",
    "note": "developed against /repo + fixes/C07-negative-list-index.patch (negative list index must raise KeyError); known finding: "
            "SpecificAssetId.supplemental_semantic_id is handed out as a mutable list; int()/isnumeric() modelled on ASCII + one "
            "non-ASCII digit block; inspect.getmro order and KEY_TYPES_CLASSES compared exhaustively per class on every run",
    "technique": "Lean 4 proof by induction over paths/key chains of an executable transcription of Key/ModelReference/get_referable/"
                 "provider lookup; differential correspondence; implementation oracle on object identity",
}
ASSUMPTIONS = [
    "CPython int(str) and str.isnumeric() as transcribed in Model/Tree.lean (ASCII digits, sign, underscores, ASCII whitespace, "
    "ARABIC-INDIC digits, SUPERSCRIPT TWO); other Unicode digit blocks are not generated",
    "inspect.getmro order and KEY_TYPES_CLASSES as written in Model/Tree.lean - compared with the real classes on every run (op `classes`)",
    "object identity = (uid of the root object, child positions); NamespaceSet iteration order = insertion order (CPython dict)",
    "hash(): equal arguments of hash() give equal hashes (the model compares the tuples that are hashed)",
]
NEUTRAL = ["list index spellings '+1', ' 1 ', '01', '1_0', non-ASCII digits in idShort paths (DESIGN 7.3): outcome not judged by the oracle",
           "del on attributes of value objects is not judged (only assignment)"]

SEG_POOL_LIST = ["-1", "-2", "+1", " 1 ", "01", "1_0", "١", "²", "x", "1.0", "--1", "1 1", "_1", "1_", "", "99", "- 1", "\t0\n"]
SEG_POOL_NS = ["nope", "0", "-1", "a", "A", "b", "", "generated_submodel_list_hack_0"]


def canon_exc(e: BaseException) -> List[Any]:
    from basyx.aas import model
    from basyx.aas.backend import backends
    if isinstance(e, model.AASConstraintViolation):
        return ["raise", "AASCV", e.constraint_id]
    if isinstance(e, model.UnexpectedTypeError):
        return ["raise", "UnexpectedTypeError"]
    for k in (KeyError, ValueError, TypeError, AttributeError, AssertionError, IndexError):
        if isinstance(e, k):
            return ["raise", k.__name__]
    if isinstance(e, backends.UnknownBackendException):
        return ["raise", "UnknownBackendException"]
    return ["raise", "Other:" + type(e).__name__]


# ------------------------------------------------------------------------------------------------ cases

def _rejected_slice(lst) -> None:
    """a slice assignment that is refused (an item of a class the list does not take): an exception, and the list as before"""
    from basyx.aas import model
    wrong = model.Capability(None) if lst.type_value_list_element is not model.Capability else model.ReferenceElement(None)
    try:
        lst.value[0:1] = [wrong]
    except Exception:
        pass


def _refused_rename(op) -> None:
    """an Operation's three variable sets share one idShort scope: renaming a variable to the idShort of a variable of ANOTHER set is
    refused (AASd-022) and leaves everything as it was"""
    sets = [s for s in (op.input_variable, op.output_variable, op.in_output_variable) if len(s)]
    if len(sets) >= 2:
        a, b = next(iter(sets[0])), next(iter(sets[-1]))
        for x, y in ((a, b), (b, a)):
            try:
                x.id_short = y.id_short
            except Exception:
                pass


class Case:
    """A set of root objects (descriptions + real objects), and a provider arrangement."""
    def __init__(self, descs: List[Any], stores: List[List[int]], churn: bool = False):
        self.descs = descs              # uid = index
        self.stores = stores            # store -> list of uids
        self.churn = churn              # lists went through a content-neutral mutation history before being referenced
        self.objs: List[Dict[Tuple[int, ...], Any]] = []
        self.ident: Dict[int, Tuple[int, Tuple[int, ...]]] = {}
        for u, d in enumerate(descs):
            m: Dict[Tuple[int, ...], Any] = {}
            T.build(d, m)
            if churn:
                self._churn(m)
            self.objs.append(m)
            for p, o in m.items():
                self.ident[id(o)] = (u, p)

    @staticmethod
    def _churn(m):
        """A history that leaves every list as it was: take the first item out and put it back in place, then pop() the most
        recently added item (that same one) and put it back again.  "Contained at any depth" holds after any history."""
        from basyx.aas import model
        for p in sorted(m):
            o = m[p]
            if isinstance(o, model.SubmodelElementList) and len(o.value) >= 2:
                x = o.value.pop(0)
                o.value.insert(0, x)
                y = o.value.pop()
                o.value.insert(0, y)
                # deleting the last position and putting the element back (if the deletion took effect at all)
                n, last = len(o.value), o.value[-1]
                del o.value[-1]
                if len(o.value) < n:
                    o.value.add(last)
                _rejected_slice(o)
            elif isinstance(o, model.Operation):
                _refused_rename(o)
            elif isinstance(o, model.SubmodelElementCollection) and len(o.value) >= 1:
                # removing an element that merely LOOKS like a member (same idShort, another object) is refused
                member = next(iter(o.value))
                try:
                    o.value.remove(model.Capability(member.id_short))
                except KeyError:
                    pass

    def provider(self, stores=None):
        from basyx.aas import model
        sts = [model.DictObjectStore([self.objs[u][()] for u in s]) for s in (self.stores if stores is None else stores)]
        if len(sts) == 1:
            return sts[0]
        if len(sts) % 2 == 0:
            if sum(len(x) for x in (self.stores if stores is None else stores)) % 2 == 0:
                return model.ObjectProviderMultiplexer(sts)
            # the caller's (still empty) registry list is handed over first and filled afterwards: the code keeps that very
            # list (`registries if registries is not None else []`), so the multiplexer sees what is registered later.
            # The oracle only judges objects the provider actually returns (`held`), the correspondence compares with the
            # model, in which the multiplexer consults the stores of the line.
            regs: list = []
            mux = model.ObjectProviderMultiplexer(regs)
            regs.extend(sts)
            return mux
        # constructed without an argument and filled afterwards; a second multiplexer constructed the same way stays empty
        mux = model.ObjectProviderMultiplexer()
        for st in sts:
            mux.providers.append(st)
        self.bystander = model.ObjectProviderMultiplexer()
        return mux

    def node_json(self, o) -> List[Any]:
        u, p = self.ident[id(o)]
        return ["node", u, list(p)]

    def json(self):
        return {"descs": [strip_generated(d) for d in self.descs], "stores": self.stores, "churn": self.churn}


def strip_generated(d):
    """Replayable description: generated id_shorts of list children removed again."""
    out = [d[0], d[1], d[2], d[3], [strip_generated(c) for c in d[4]]] + list(d[5:])
    if d[0] == "SubmodelElementList":
        for c in out[4]:
            c[2] = None
    return out


class Rejected(Exception):
    """The implementation refused to build a tree that the model regards as a legal one (every generated tree is)."""
    def __init__(self, descs, stores, exc):
        super().__init__(f"{type(exc).__name__}: {exc}")
        self.case = {"descs": [strip_generated(d) for d in descs], "stores": stores}


def gen_case(rng: random.Random, depth: int, width: int) -> Case:
    n = rng.choice([1, 1, 2, 3])
    descs = []
    for u in range(n):
        rk = ("Submodel",) if u == 0 or rng.random() < 0.6 else ("AssetAdministrationShell", "ConceptDescription", "Submodel")
        # sometimes two roots share an identifier (they then live in different stores: shadowing behind a multiplexer)
        ident = "urn:vf:0" if (u > 0 and rng.random() < 0.3) else None
        descs.append(T.gen_desc(rng, rng.randint(1, depth), width, root_kinds=rk, uid=u, ident=ident))
    k = rng.choice([1, 2, 3])
    stores: List[List[int]] = [[] for _ in range(k)]
    for u, d in enumerate(descs):
        cands = [s for s in range(k) if all(descs[v][1] != d[1] for v in stores[s])]
        if cands and rng.random() < 0.92:
            stores[rng.choice(cands)].append(u)
    if rng.random() < 0.5:
        rng.shuffle(stores)
    try:
        return Case(descs, stores, churn=rng.random() < 0.4)
    except Exception as e:
        raise Rejected(descs, stores, e)


def expected_keys(desc, path) -> List[List[str]]:
    """Specification side: key chain of the node at `path` (type from the metamodel table, value = id / index / idShort)."""
    keys = [[T.SPEC_KEY_TYPE[desc[0]], desc[1]]]
    d = desc
    for i in path:
        c = d[4][i]
        keys.append([T.SPEC_KEY_TYPE[c[0]], str(i) if d[0] == "SubmodelElementList" else c[2]])
        d = c
    return keys


def perturbations(rng: random.Random, desc, path, keys) -> List[Tuple[str, List[List[str]], str]]:
    """(label, key chain, type_ name) variants of a correct chain."""
    kind = T.node_at(desc, path)[0]
    out: List[Tuple[str, List[List[str]], str]] = []
    for L in range(1, len(keys)):
        out.append(("prefix", keys[:L], T.node_at(desc, path[:L - 1])[0]))
    for L in range(1, min(len(keys), 3)):
        out.append(("suffix", keys[L:], kind))
    out.append(("type:wrong", keys, rng.choice([k for k in T.ELEMENTS + T.IDENTIFIABLES if k != kind])))
    out.append(("type:abstract", keys, rng.choice(["Referable", "SubmodelElement", "DataElement", "Identifiable", "UniqueIdShortNamespace", "EventElement"])))
    if len(keys) >= 2:
        # the element named by the key type of an abstract class it specialises (every submodel element is a SubmodelElement ...)
        for abstract in ["SUBMODEL_ELEMENT"] + (["DATA_ELEMENT"] if kind in T.DATA_ELEMENTS else []) + (["EVENT_ELEMENT"] if kind == "BasicEventElement" else []):
            out.append(("keytype:abstract", keys[:-1] + [[abstract, keys[-1][1]]], kind))
    out.append(("root:unknown", [[keys[0][0], "urn:vf:none"]] + keys[1:], kind))
    out.append(("trailing", keys + [["PROPERTY", rng.choice(["a", "0", "nope"])]], "Property"))
    out.append(("trailing:frag", keys + [["FRAGMENT_REFERENCE", "frag"]], kind))
    out.append(("trailing:frag2", keys + [["FRAGMENT_REFERENCE", "frag"], ["FRAGMENT_REFERENCE", "g"]], kind))
    d = desc
    for pos, i in enumerate(path):
        under_list = d[0] == "SubmodelElementList"
        pool = SEG_POOL_LIST + [str(len(d[4])), str((i + 1) % max(1, len(d[4]))), d[4][i][2] or "q"] if under_list \
            else SEG_POOL_NS + [s[2] for s in d[4] if s[2]] + [(d[4][i][2] or "q").swapcase()]
        for v in rng.sample(pool, min(len(pool), 5)):
            ks = copy.deepcopy(keys)
            ks[pos + 1][1] = v
            out.append(("value@%s" % ("list" if under_list else "ns"), ks, kind))
            if under_list:
                # hide the list from AASd-128 by a wrong parent key type: resolve() itself must then cope with the value
                ks2 = copy.deepcopy(ks)
                ks2[pos][0] = "SUBMODEL_ELEMENT_COLLECTION" if pos > 0 else ks2[pos][0]
                out.append(("value@list:type-spoofed", ks2, kind))
        ks = copy.deepcopy(keys)
        ks[pos + 1][0] = rng.choice(["GLOBAL_REFERENCE", "SUBMODEL", "FRAGMENT_REFERENCE", "BLOB", "SUBMODEL_ELEMENT_LIST", "SUBMODEL_ELEMENT"])
        out.append(("keytype", ks, kind))
        d = d[4][i]
    return out


def path_perturbations(rng: random.Random, desc, start, rel_path) -> List[Tuple[str, List[str]]]:
    segs = [k[1] for k in expected_keys(desc, tuple(start) + tuple(rel_path))[1 + len(start):]]
    out: List[Tuple[str, List[str]]] = [("exact", segs)]
    for L in range(len(segs)):
        out.append(("prefix", segs[:L]))
    out.append(("trailing", segs + [rng.choice(["a", "0", "nope", "-1"])]))
    d = T.node_at(desc, start)
    for pos, i in enumerate(rel_path):
        under_list = d[0] == "SubmodelElementList"
        pool = SEG_POOL_LIST + [str(len(d[4])), d[4][i][2] or "q"] if under_list \
            else SEG_POOL_NS + [s[2] for s in d[4] if s[2]] + [(d[4][i][2] or "q").swapcase()]
        for v in rng.sample(pool, min(len(pool), 6)):
            s2 = list(segs)
            s2[pos] = v
            out.append(("seg@%s" % ("list" if under_list else "ns"), s2))
        d = d[4][i]
    return out


# ------------------------------------------------------------------------------------------------ implementation side

def impl_from(case: Case, u: int, p) -> List[Any]:
    from basyx.aas import model
    try:
        r = model.ModelReference.from_referable(case.objs[u][tuple(p)])
        return ["ref", [[k.type.name, k.value] for k in r.key], r.type.__name__]
    except Exception as e:
        return canon_exc(e)


def cls_of(name: str):
    from basyx.aas import model
    return getattr(model, name)


def impl_resolve(case: Case, stores, keys, ty) -> List[Any]:
    from basyx.aas import model
    try:
        ks = tuple(model.Key(getattr(model.KeyTypes, t), v) for t, v in keys)
        r = model.ModelReference(ks, cls_of(ty))
        return case.node_json(r.resolve(case.provider(stores)))
    except Exception as e:
        return canon_exc(e)


def impl_getref(case: Case, u: int, start, segs) -> List[Any]:
    try:
        from basyx.aas import model
        return case.node_json(model.UniqueIdShortNamespace.get_referable(case.objs[u][tuple(start)], list(segs)))
    except Exception as e:
        return canon_exc(e)


def impl_getref1(case: Case, u: int, start, seg) -> List[Any]:
    """the bare-string argument form: get_referable("x")"""
    try:
        from basyx.aas import model
        return case.node_json(model.UniqueIdShortNamespace.get_referable(case.objs[u][tuple(start)], seg))
    except Exception as e:
        return canon_exc(e)


def impl_follow(case: Case, u: int, start, segs) -> List[Any]:
    """obj = start; for seg in path: obj = obj.get_referable(seg)  — through the object's own (bound) method"""
    try:
        o = case.objs[u][tuple(start)]
        for seg in segs:
            o = o.get_referable(seg)
        return case.node_json(o)
    except AttributeError as e:
        # a leaf has no get_referable at all: the unbound call raises TypeError for it (not a namespace)
        from basyx.aas import model
        if not isinstance(o, model.UniqueIdShortNamespace):
            return ["raise", "TypeError"]
        return canon_exc(e)
    except Exception as e:
        return canon_exc(e)


def impl_classes() -> List[Any]:
    import inspect
    from basyx.aas import model
    from basyx.aas.model import KEY_TYPES_CLASSES
    rel = list(KEY_TYPES_CLASSES) + [model.Referable, model.Identifiable, model.UniqueIdShortNamespace]
    out = []
    for name in ["AssetAdministrationShell", "ConceptDescription", "Submodel", "SubmodelElementCollection",
                 "SubmodelElementList", "Entity", "Operation", "AnnotatedRelationshipElement", "RelationshipElement",
                 "Property", "MultiLanguageProperty", "Range", "Blob", "File", "ReferenceElement", "Capability",
                 "BasicEventElement"]:
        c = getattr(model, name)
        mro = inspect.getmro(c)
        kt = next((KEY_TYPES_CLASSES[t] for t in mro if t in KEY_TYPES_CLASSES), model.KeyTypes.PROPERTY)
        rt = next((t for t in mro if t in KEY_TYPES_CLASSES), model.Referable)
        out.append([name, kt.name, rt.__name__, [t.__name__ for t in mro if t in rel],
                    issubclass(c, model.UniqueIdShortNamespace), issubclass(c, model.Identifiable)])
    return out


def impl_keytypes() -> List[Any]:
    from basyx.aas import model
    return [[t.name, t.is_aas_identifiable, t.is_generic_globally_identifiable, t.is_generic_fragment_key,
             t.is_aas_submodel_element, t.is_fragment_key_element, t.is_globally_identifiable]
            for t in model.KeyTypes if not t.name.startswith("_")]


KEYTYPE_ORDER = ["ASSET_ADMINISTRATION_SHELL", "CONCEPT_DESCRIPTION", "SUBMODEL", "ANNOTATED_RELATIONSHIP_ELEMENT",
                 "BASIC_EVENT_ELEMENT", "BLOB", "CAPABILITY", "DATA_ELEMENT", "ENTITY", "EVENT_ELEMENT", "FILE",
                 "MULTI_LANGUAGE_PROPERTY", "OPERATION", "PROPERTY", "RANGE", "REFERENCE_ELEMENT", "RELATIONSHIP_ELEMENT",
                 "SUBMODEL_ELEMENT", "SUBMODEL_ELEMENT_COLLECTION", "SUBMODEL_ELEMENT_LIST", "GLOBAL_REFERENCE",
                 "FRAGMENT_REFERENCE"]

# --- value objects

KEY_POOL = [["SUBMODEL", "urn:a"], ["SUBMODEL", "urn:b"], ["PROPERTY", "urn:a"], ["GLOBAL_REFERENCE", "urn:a"],
            ["SUBMODEL_ELEMENT_LIST", "l"], ["PROPERTY", "0"], ["FRAGMENT_REFERENCE", "f"], ["BLOB", "b"], ["GLOBAL_REFERENCE", "g"]]


def gen_refv(rng: random.Random, depth=2) -> Any:
    """[class, keys, type_, referred_semantic_id] of a constructible reference."""
    rsi = gen_refv(rng, depth - 1) if depth > 0 and rng.random() < 0.4 else None
    if rng.random() < 0.5:
        keys = [rng.choice([["GLOBAL_REFERENCE", "urn:a"], ["GLOBAL_REFERENCE", "g"]])]
        if rng.random() < 0.5:
            keys.append(rng.choice([["GLOBAL_REFERENCE", "g"], ["FRAGMENT_REFERENCE", "f"], ["GLOBAL_REFERENCE", "urn:a"]]))
        return ["ExternalReference", keys, "Referable", rsi]
    keys = [rng.choice([["SUBMODEL", "urn:a"], ["SUBMODEL", "urn:b"], ["ASSET_ADMINISTRATION_SHELL", "urn:a"]])]
    for _ in range(rng.randint(0, 2)):
        keys.append(rng.choice([["PROPERTY", "a"], ["SUBMODEL_ELEMENT_COLLECTION", "a"], ["PROPERTY", "b"], ["BLOB", "a"]]))
    return ["ModelReference", keys, rng.choice(["Submodel", "Property", "Referable"]), rsi]


def mk_refv(j):
    from basyx.aas import model
    if j is None:
        return None
    keys = tuple(model.Key(getattr(model.KeyTypes, t), v) for t, v in j[1])
    if j[0] == "ExternalReference":
        return model.ExternalReference(keys, mk_refv(j[3]))
    return model.ModelReference(keys, getattr(model, j[2]), mk_refv(j[3]))


def gen_sai(rng: random.Random) -> Any:
    def ext():
        r = gen_refv(rng, 1)
        while r[0] != "ExternalReference":
            r = gen_refv(rng, 1)
        return r
    sem = gen_refv(rng, 1) if rng.random() < 0.6 else None
    sup = [gen_refv(rng, 0) for _ in range(rng.randint(0, 2))] if sem is not None else []
    return [rng.choice(["n", "m"]), rng.choice(["v", "w"]), ext() if rng.random() < 0.5 else None, sem, sup]


def mk_sai(j):
    from basyx.aas import model
    return model.SpecificAssetId(j[0], j[1], mk_refv(j[2]), mk_refv(j[3]), [mk_refv(x) for x in j[4]])


SETATTR = [("Key", ["type", "value", "foo", "_x", "key"]), ("Reference", ["key", "type", "referred_semantic_id", "foo", "_x"]),
           ("SpecificAssetId", ["name", "value", "external_subject_id", "semantic_id", "supplemental_semantic_id", "parent",
                                "foo", "_semantic_id", "_supplemental_semantic_id", "_x"])]


def impl_setattr(cls: str, name: str, is_none: bool) -> List[Any]:
    from basyx.aas import model
    if cls == "Key":
        o: Any = model.Key(model.KeyTypes.SUBMODEL, "urn:a")
    elif cls == "Reference":
        o = model.ModelReference((model.Key(model.KeyTypes.SUBMODEL, "urn:a"),), model.Submodel)
    else:
        o = model.SpecificAssetId("n", "v")
    val: Any = None
    if not is_none:
        val = "x"
        if name == "_supplemental_semantic_id":
            val = model.ConstrainedList([])
    try:
        setattr(o, name, val)
        return ["assigned"]
    except Exception as e:
        return canon_exc(e)


# ------------------------------------------------------------------------------------------------ correspondence

def case_lines(rng: random.Random, case: Case, cov: Optional[C.Coverage]) -> Tuple[List[Any], List[Any], List[Any]]:
    lines: List[Any] = [["reset"]]
    impl: List[Any] = [["reset"]]
    tags: List[Any] = ["reset"]
    for u, d in enumerate(case.descs):
        lines.append(["tree", u, T.model_desc(d)]); impl.append(["unit"]); tags.append("tree")
    arrangements = [case.stores]
    if len(case.stores) > 1:
        arrangements.append(list(reversed(case.stores)))
        arrangements.append(case.stores[:1])
    for u, d in enumerate(case.descs):
        for p, nd in T.nodes_of(d):
            lines.append(["from", u, list(p)]); impl.append(impl_from(case, u, p)); tags.append("from")
            keys = expected_keys(d, p)
            variants = [("exact", keys, nd[0])] + perturbations(rng, d, p, keys)
            for label, ks, ty in variants:
                for st in arrangements if label in ("exact", "root:unknown") else arrangements[:1]:
                    r = impl_resolve(case, st, ks, ty)
                    lines.append(["resolve", st, ks, ty]); impl.append(r); tags.append("resolve:" + label)
                    if cov is not None:
                        cov.hit("resolve:" + label + ("!" + r[1] if r[0] == "raise" else ""))
                        if len(p) >= 2 or "list" in label or label != "exact" or any(
                                T.node_at(d, p[:k])[0] == "SubmodelElementList" for k in range(len(p))):
                            cov.nontrivial.add(C.sha([shape_sig(d, p), label, r[:2]]))
            # id_short / index paths from every ancestor
            for k in range(len(p) + 1):
                start, rel = p[:k], p[k:]
                for label, segs in path_perturbations(rng, d, start, rel) if (k == 0 or rng.random() < 0.4) else [("exact", [x[1] for x in keys[1 + k:]])]:
                    r = impl_getref(case, u, start, segs)
                    lines.append(["getref", u, list(start), segs]); impl.append(r); tags.append("getref:" + label)
                    if cov is not None:
                        cov.hit("getref:" + label + ("!" + r[1] if r[0] == "raise" else ""))
                        cov.nontrivial.add(C.sha([shape_sig(d, p), "path", label, k, r[:2]]))
                    if len(segs) == 1:
                        r1 = impl_getref1(case, u, start, segs[0])
                        lines.append(["getref1", u, list(start), segs[0]]); impl.append(r1); tags.append("getref1:" + label)
                        if cov is not None:
                            cov.hit("getref1:" + label + ("!" + r1[1] if r1[0] == "raise" else ""))
                    if segs and (k == 0 or label != "exact"):
                        rf = impl_follow(case, u, start, segs)
                        lines.append(["follow", u, list(start), segs]); impl.append(rf); tags.append("follow:" + label)
                        if cov is not None:
                            cov.hit("follow:" + label + ("!" + rf[1] if rf[0] == "raise" else ""))
    return lines, impl, tags


def shape_sig(d, p) -> List[str]:
    out = [d[0]]
    for i in p:
        d = d[4][i]
        out.append(d[0])
    return out


def static_lines(rng: random.Random, n_values: int) -> Tuple[List[Any], List[Any], List[Any]]:
    from basyx.aas import model
    lines: List[Any] = [["classes"], ["keytypes"]]
    kt = {r[0]: r for r in impl_keytypes()}
    impl: List[Any] = [impl_classes(), [kt[n] for n in KEYTYPE_ORDER if n in kt]]
    tags: List[Any] = ["classes", "keytypes"]
    for s in SEG_POOL_LIST + ["0", "7", "12", "007", "1__0", "+", "-", " ", "5 ", "٣٠"]:
        try:
            r: Any = ["int", int(s)]
        except ValueError:
            r = ["raise", "ValueError"]
        lines.append(["pyint", s]); impl.append(r); tags.append("pyint")
    for a in KEY_POOL:
        for b in KEY_POOL:
            ka, kb = (model.Key(getattr(model.KeyTypes, t), v) for t, v in (a, b))
            lines.append(["keyeq", a, b]); impl.append([ka == kb, hash(ka) == hash(kb)]); tags.append("keyeq")
    for _ in range(n_values):
        a = gen_refv(rng)
        b = rng.choice([gen_refv(rng), copy.deepcopy(a), mutate_refv(rng, a)])
        ra, rb = mk_refv(a), mk_refv(b)
        lines.append(["refeq", a, b]); impl.append([ra == rb, hash(ra) == hash(rb)]); tags.append("refeq")
        sa = gen_sai(rng)
        sb = rng.choice([gen_sai(rng), copy.deepcopy(sa), mutate_sai(rng, sa)])
        xa, xb = mk_sai(sa), mk_sai(sb)
        lines.append(["saieq", sa, sb]); impl.append([xa == xb, hash(xa) == hash(xb)]); tags.append("saieq")
        r = gen_refv(rng, 0)
        try:
            xa.supplemental_semantic_id.append(mk_refv(r))
            out: Any = ["len", len(xa.supplemental_semantic_id)]
        except Exception as e:
            out = canon_exc(e)
        lines.append(["sai_append", sa, r]); impl.append(out); tags.append("sai_append")
    for cls, names in SETATTR:
        for n in names:
            for is_none in (True, False):
                lines.append(["setattr", cls, n, is_none]); impl.append(impl_setattr(cls, n, is_none)); tags.append("setattr")
    return lines, impl, tags


def mutate_refv(rng, a):
    b = copy.deepcopy(a)
    r = rng.random()
    if r < 0.3:
        b[2] = "Referable" if b[2] != "Referable" else ("Submodel" if b[0] == "ModelReference" else "Referable")
    elif r < 0.6:
        b[3] = gen_refv(rng, 0) if b[3] is None else None
    elif r < 0.8 and len(b[1]) > 1:
        b[1] = b[1][:-1]
    else:
        b[1][-1] = [b[1][-1][0], b[1][-1][1] + "x"]
    return b


def mutate_sai(rng, a):
    b = copy.deepcopy(a)
    r = rng.random()
    if r < 0.3:
        b[3] = gen_refv(rng, 0) if (b[3] is None or not b[4]) else b[3]
    elif r < 0.6 and b[3] is not None:
        b[4] = b[4] + [gen_refv(rng, 0)]
    elif r < 0.8:
        b[2] = None if b[2] is not None else ["ExternalReference", [["GLOBAL_REFERENCE", "g"]], "Referable", None]
    else:
        b[0] = b[0] + "x"
    return b


def budgets(ctx: C.Ctx):
    return {"trees": ctx.budget(60, 1500), "depth": 4 if ctx.tier == "quick" else 5, "width": 3 if ctx.tier == "quick" else 4,
            "values": ctx.budget(300, 5000)}


def translate(ctx: C.Ctx) -> List[str]:
    """Extract which variants of the AASd-126 / AASd-128 checks ModelReference.__init__ uses (both are C02's subject and
    have pending repairs there); written to lean/Basyx/Gen/TreeCfg.lean. Unknown shapes are reported as a broken tie."""
    import os
    import re
    src = open(os.path.join(C.REPO, "sdk/basyx/aas/model/base.py"), encoding="utf-8").read()
    broken: List[str] = []
    m = re.search(r"pk\.type == KeyTypes\.SUBMODEL_ELEMENT_LIST and not k\.value\.(\w+)\(\)", src)
    meth = m.group(1) if m else None
    if meth not in ("isnumeric", "isdecimal"):
        broken.append(f"AASd-128 check in ModelReference.__init__ not recognised (method {meth!r})")
    lenient = re.search(r"if not key\[-1\]\.type\.is_generic_fragment_key:\s+for k in key\[:-1\]:\s+if k\.type\.is_generic_fragment_key:", src)
    strict = re.search(r"\n        for k in key\[:-1\]:\s+if k\.type\.is_generic_fragment_key:", src)
    if not lenient and not strict:
        broken.append("AASd-126 check in ModelReference.__init__ not recognised")
    text = f"""/- REGENERATED on every run by py/props/c07.py::translate from sdk/basyx/aas/model/base.py (ModelReference.__init__).
   Do not edit. -/
namespace Basyx.Gen.TreeCfg

/-- AASd-128 check: `true` = `k.value.isdecimal()`, `false` = `k.value.isnumeric()` -/
def aasd128Decimal : Bool := {"true" if meth == "isdecimal" else "false"}

/-- AASd-126 check: `true` = every generic fragment key before the last one is rejected, `false` = only when the last
    key is not a generic fragment key itself -/
def aasd126Strict : Bool := {"true" if (strict and not lenient) else "false"}

end Basyx.Gen.TreeCfg
"""
    path = os.path.join(C.LEAN_DIR, "Basyx", "Gen", "TreeCfg.lean")
    old = open(path, encoding="utf-8").read() if os.path.exists(path) else None
    if old != text:
        with open(path, "w", encoding="utf-8") as f:
            f.write(text)
    return broken


def correspond(ctx: C.Ctx, cov: C.Coverage) -> List[C.Disagreement]:
    rng = random.Random(f"C07:{ctx.seed}")
    b = budgets(ctx)
    cov.rule = ("generated object sets (1-3 identifiables incl. shadowed ids, 1-3 stores, every container kind, lists at any level incl. "
                "lists of lists and lists directly under a submodel); for EVERY referable: from_referable, resolve of the exact chain "
                "under each provider arrangement, every prefix, suffixes, wrong/abstract type_, unknown root, trailing keys, per-position "
                "value perturbations (other index, out of range, negative, non-numeric, spellings, unknown/sibling/case-changed idShort), "
                "key-type perturbations, list hidden from AASd-128; the same for idShort/index paths from every ancestor. Compared: "
                "object identity (uid, path) or exception kind. non-trivial = target at depth>=2 or under a list, or chain/path perturbed; "
                "distinct = (class chain to the target, perturbation label, outcome)")
    lines, impl, tags = static_lines(rng, b["values"])
    index: List[Any] = [("static", None)] * len(lines)
    cases: List[Case] = []
    rejected: List[C.Disagreement] = []
    for ci in range(b["trees"]):
        try:
            case = gen_case(rng, b["depth"], b["width"])
        except Rejected as e:
            rejected.append(C.Disagreement("tree that the model accepts is rejected by the implementation", e.case, ["unit"], ["raise", str(e)[:200]]))
            cov.hit("tree-rejected")
            continue
        ci = len(cases)
        cases.append(case)
        l, i, t = case_lines(rng, case, cov)
        lines += l; impl += i; tags += t
        index += [("case", ci)] * len(l)
        cov.evaluations += len(l)
    cov.extra["trees"] = sum(len(c.descs) for c in cases)
    cov.extra["referables"] = sum(len(T.nodes_of(d)) for c in cases for d in c.descs)
    cov.extra["neutral_zones"] = NEUTRAL
    cov.samples = [cases[0].json() if cases else None, lines[len(lines) // 2]]
    out = C.run_model("C07", lines)
    if len(out) != len(impl):
        return [C.Disagreement("driver output length", None, len(out), len(impl))]
    dis: List[C.Disagreement] = []
    for k, (m, i) in enumerate(zip(out, impl)):
        if m != i:
            kind, ci = index[k]
            case_json = cases[ci].json() if kind == "case" else None
            dis.append(C.Disagreement(f"{tags[k]} line {lines[k]}", {"case": case_json, "line": strip_line(lines[k])}, m, i))
            if len(dis) >= 5:
                break
    return dis + rejected[:3]


def strip_line(l):
    return l


# ------------------------------------------------------------------------------------------------ oracle

def spec_follow(desc, segs) -> Tuple[str, Any]:
    """Reference resolver over the DESCRIPTION: ('node', path) | ('raise', kind) | ('neutral', None)."""
    d = desc
    path: List[int] = []
    for s in segs:
        if d[0] not in T.NAMESPACES:
            return ("raise", "TypeError")
        if d[0] == "SubmodelElementList":
            if s.isascii() and s.isdigit() and (s == "0" or not s.startswith("0")):
                i = int(s)
                if i >= len(d[4]):
                    return ("raise", "KeyError")
                path.append(i); d = d[4][i]
                continue
            if s.startswith("-") and s[1:].isascii() and s[1:].isdigit():
                return ("raise", "KeyError")           # names no position (DESIGN 7.3: not neutral)
            try:
                int(s)
            except ValueError:
                return ("raise", "ValueError")
            return ("neutral", None)                   # '+1', ' 1 ', '01', '1_0', non-ASCII digits
        hit = [i for i, c in enumerate(d[4]) if c[2] == s]
        if not hit:
            return ("raise", "KeyError")
        path.append(hit[0]); d = d[4][hit[0]]
    return ("node", path)


def spec_constraints(keys: List[List[str]]) -> Optional[int]:
    """AASd-123/125/126/127/128 from their texts. Returns the violated constraint or None."""
    ident = {"ASSET_ADMINISTRATION_SHELL", "CONCEPT_DESCRIPTION", "SUBMODEL"}
    generic_fragment = {"FRAGMENT_REFERENCE"}
    fragment = set(T.SPEC_KEY_TYPE.values()) - ident | {"DATA_ELEMENT", "EVENT_ELEMENT", "SUBMODEL_ELEMENT"} | generic_fragment
    if keys[0][0] not in ident:
        return 123
    if any(k[0] not in fragment for k in keys[1:]):
        return 125
    if any(k[0] in generic_fragment for k in keys[:-1]):
        return 126
    for pk, k in zip(keys, keys[1:]):
        if k[0] == "FRAGMENT_REFERENCE" and pk[0] not in ("FILE", "BLOB"):
            return 127
        if pk[0] == "SUBMODEL_ELEMENT_LIST" and not (k[1].isascii() and k[1].isdigit()):
            return 128
    return None


def check_case(case_json, rng: Optional[random.Random] = None) -> Optional[C.Failing]:
    """The property, stated over the implementation: every referable of every identifiable the provider returns."""
    from basyx.aas import model
    rng = rng or random.Random(0)
    case = Case(copy.deepcopy(case_json["descs"]), case_json["stores"], case_json.get("churn", False))
    prov = case.provider()
    cj = case.json()
    for u, d in enumerate(case.descs):
        root = case.objs[u][()]
        try:
            held = prov.get_identifiable(d[1]) is root
        except KeyError:
            held = False
        for p, nd in T.nodes_of(d):
            x = case.objs[u][p]
            where = {"case": cj, "uid": u, "path": list(p)}
            # (a) construction + constraints
            try:
                ref = model.ModelReference.from_referable(x)
            except Exception as e:
                return C.Failing("ref:from_referable:raises:" + type(e).__name__, f"from_referable of {shape_sig(d, p)} raised {e!r}", where)
            got = [[k.type.name, k.value] for k in ref.key]
            want = expected_keys(d, p)
            v = spec_constraints(got)
            if v is not None:
                return C.Failing(f"ref:from_referable:violates-AASd-{v}", f"keys {got}", where, got)
            if got != want:
                sig = "ref:from_referable:key-values" if [k[1] for k in got] != [k[1] for k in want] else "ref:from_referable:key-types"
                return C.Failing(sig, f"from_referable gave {got}, the element's chain is {want}", where, got, want)
            if not held:
                continue
            # (b) resolve gives the very element
            try:
                r = ref.resolve(prov)
            except Exception as e:
                return C.Failing("ref:resolve:raises:" + type(e).__name__, f"resolve(from_referable(x)) raised {e!r} for {shape_sig(d, p)}", where)
            if r is not x:
                return C.Failing("ref:resolve:other-element", f"resolve(from_referable(x)) is {case.ident.get(id(r))}, not x={u, p}", where)
            # (c) the idShort/index path from every ancestor
            for k in range(len(p) + 1):
                start = case.objs[u][p[:k]]
                segs = [kk[1] for kk in want[1 + k:]]
                if not segs and not isinstance(start, model.UniqueIdShortNamespace):
                    continue
                try:
                    r = model.UniqueIdShortNamespace.get_referable(start, segs)
                except Exception as e:
                    return C.Failing("path:exact:raises:" + type(e).__name__, f"get_referable({segs}) from depth {k} raised {e!r}", where)
                if r is not x:
                    return C.Failing("path:exact:other-element", f"get_referable({segs}) from depth {k} is not the element", where)
            # (d) perturbed paths and chains: documented error, never a different element
            for label, segs in path_perturbations(rng, d, (), p):
                f = judge_path(case, u, d, root, segs, dict(where, segs=segs))
                if f:
                    return f
            for label, ks, ty in perturbations(rng, d, p, want):
                f = judge_chain(case, prov, u, d, ks, ty, dict(where, keys=ks, type=ty))
                if f:
                    return f
    by = getattr(case, "bystander", None)
    if by is not None:
        for u, d in enumerate(case.descs):
            try:
                by.get_identifiable(d[1])
                return C.Failing("mux:bystander-knows", f"a multiplexer that was given no provider returns identifiable {d[1]!r}", {"case": cj, "uid": u, "path": []})
            except KeyError:
                pass
    # (e) the provider is a live object: after an identifiable is taken out of its store, references into it no longer
    #     resolve; after a rebuilt copy is put in, they resolve to the elements of the COPY (never to the old ones)
    stores = list(prov.providers) if isinstance(prov, model.ObjectProviderMultiplexer) else [prov]
    for u, d in enumerate(case.descs):
        root = case.objs[u][()]
        holder = next((st for st in stores if root in st), None)
        try:
            if holder is None or prov.get_identifiable(d[1]) is not root:
                continue
        except KeyError:
            continue
        refs = {p: model.ModelReference.from_referable(case.objs[u][p]) for p, _ in T.nodes_of(d)}
        where = {"case": cj, "uid": u, "path": []}
        holder.discard(root)
        shadow = None
        try:
            shadow = prov.get_identifiable(d[1])          # another store may hold an identifiable with the same id
        except KeyError:
            pass
        if shadow is root:
            return C.Failing("ref:resolve:after-discard:still-resolves", f"the provider still returns identifiable {d[1]!r} after it was "
                             f"discarded from its store", where)
        if shadow is None:
            for p, ref in refs.items():
                try:
                    r = ref.resolve(prov)
                    return C.Failing("ref:resolve:after-discard:still-resolves", f"reference to {shape_sig(d, p)} resolves to "
                                     f"{case.ident.get(id(r))} after its identifiable was discarded from the store", dict(where, path=list(p)))
                except KeyError:
                    pass
                except Exception as e:
                    return C.Failing("ref:resolve:after-discard:raises:" + type(e).__name__, repr(e)[:160], dict(where, path=list(p)))
        m2: Dict[Tuple[int, ...], Any] = {}
        T.build(copy.deepcopy(case_json["descs"][u]), m2)
        holder.add(m2[()])
        if shadow is None:
            for p, ref in refs.items():
                try:
                    r = ref.resolve(prov)
                except Exception as e:
                    return C.Failing("ref:resolve:after-replace:raises:" + type(e).__name__, repr(e)[:160], dict(where, path=list(p)))
                if r is not m2[p]:
                    return C.Failing("ref:resolve:after-replace:old-element", f"reference to {shape_sig(d, p)} does not resolve to the "
                                     f"element of the identifiable that is in the store now", dict(where, path=list(p)))
        holder.discard(m2[()])
        holder.add(root)
    return None


def neg_sig(seg_kind: str, exp: str, got: str) -> str:
    return f"path:{seg_kind}:expected-{exp}:got-{got}"


def classify_seg(desc, segs) -> str:
    """Which kind of step decides the outcome (for signatures)."""
    d = desc
    for s in segs:
        if d[0] not in T.NAMESPACES:
            return "below-leaf"
        if d[0] == "SubmodelElementList":
            if not (s.isascii() and s.isdigit()):
                return "list:negative-index" if (s.startswith("-") and s[1:].isdigit()) else "list:non-numeric"
            if int(s) >= len(d[4]):
                return "list:out-of-range"
            d = d[4][int(s)]
        else:
            hit = [c for c in d[4] if c[2] == s]
            if not hit:
                return "ns:unknown-idshort"
            d = hit[0]
    return "exact"


def judge_path(case: Case, u: int, d, root, segs, where) -> Optional[C.Failing]:
    from basyx.aas import model
    kind, exp = spec_follow(d, segs)
    if kind == "neutral":
        return None
    if not segs and not isinstance(root, model.UniqueIdShortNamespace):
        return None
    try:
        r = model.UniqueIdShortNamespace.get_referable(root, list(segs))
        got: Any = ("node", list(case.ident[id(r)][1]) if case.ident[id(r)][0] == u else "other-root")
    except Exception as e:
        got = ("raise", canon_exc(e)[1])
    if kind == "node":
        if got != ("node", exp):
            return C.Failing("path:" + classify_seg(d, segs) + ":wrong-result", f"get_referable({segs}) = {got}, expected node {exp}", where, got, exp)
    elif got != ("raise", exp):
        return C.Failing(neg_sig(classify_seg(d, segs), exp, "element" if got[0] == "node" else got[1]),
                         f"get_referable({segs}) gave {got}, documented: {exp}", where, got, exp)
    if not segs:
        return None
    # "following its idShort/index path from the root", one segment at a time, each a call with a bare string
    o: Any = root
    try:
        for seg in segs:
            if not isinstance(o, model.UniqueIdShortNamespace):
                raise TypeError("not a namespace")        # an element that cannot have children has no get_referable
            o = o.get_referable(seg)
        got2: Any = ("node", list(case.ident[id(o)][1]) if id(o) in case.ident and case.ident[id(o)][0] == u else "other-root")
    except Exception as e:
        got2 = ("raise", canon_exc(e)[1])
    if kind == "node":
        if got2 != ("node", exp):
            return C.Failing("path:stepwise:" + classify_seg(d, segs) + ":wrong-result",
                             f"following {segs} one segment at a time (get_referable(<str>)) = {got2}, expected node {exp}", where, got2, exp)
    elif got2 != ("raise", exp):
        return C.Failing("path:stepwise:" + neg_sig(classify_seg(d, segs), exp, "element" if got2[0] == "node" else got2[1]),
                         f"following {segs} one segment at a time gave {got2}, documented: {exp}", where, got2, exp)
    return None


def judge_chain(case: Case, prov, u: int, d, ks, ty, where) -> Optional[C.Failing]:
    from basyx.aas import model
    try:
        keys = tuple(model.Key(getattr(model.KeyTypes, t), v) for t, v in ks)
        ref = model.ModelReference(keys, cls_of(ty))
    except (ValueError, model.AASConstraintViolation) as e:
        # construction of malformed references is C02's subject - but a chain that AASd-123..128 (from their texts) allow, e.g.
        # one that names an element by the key type of an abstract class it specialises, is a reference to resolve
        if isinstance(e, model.AASConstraintViolation) and spec_constraints(ks) is None:
            return C.Failing(f"ref:construct:legal-chain-rejected:aasd{e.constraint_id}", f"ModelReference over {ks} is rejected with AASd-{e.constraint_id}, "
                             f"the constraints allow the chain", where, ["raise", "AASCV", e.constraint_id], "a reference")
        return None
    # which root does the provider hold under the first key?
    root_desc = None
    root_uid = None
    for s in case.stores:
        hit = [v for v in s if case.descs[v][1] == ks[0][1]]
        if hit:
            root_uid, root_desc = hit[0], case.descs[hit[0]]
            break
    try:
        r = ref.resolve(prov)
        ru, rp = case.ident[id(r)]
        got: Any = ("node", ru, list(rp))
    except Exception as e:
        got = ("raise", canon_exc(e)[1])
    if root_desc is None:
        exp: Any = ("raise", "KeyError")
        cls = "unknown-identifier"
    else:
        kind, e2 = spec_follow(root_desc, [k[1] for k in ks[1:]])
        if kind == "neutral":
            return None
        cls = classify_seg(root_desc, [k[1] for k in ks[1:]])
        if kind == "node":
            tgt = T.node_at(root_desc, e2)[0]
            if issubclass(cls_of(tgt), cls_of(ty)):
                exp = ("node", root_uid, e2)
            else:
                exp = ("raise", "UnexpectedTypeError"); cls = "wrong-type"
        else:
            exp = ("raise", e2)
    if got != exp:
        return C.Failing(f"ref:resolve:{cls}:expected-{exp[1] if exp[0] == 'raise' else 'element'}:got-{got[1] if got[0] == 'raise' else 'element'}",
                         f"resolve of {ks} gave {got}, required {exp}", where, got, exp)
    return None


def check_values(rng: random.Random, n: int) -> List[C.Failing]:
    """eq/hash agreement and immutability of Key, Reference, SpecificAssetId on the implementation."""
    from basyx.aas import model
    out: List[C.Failing] = []

    def add(f):
        if f.sig not in {x.sig for x in out}:
            out.append(f)
    objs: List[Tuple[str, Any, Any]] = []
    for a in KEY_POOL:
        objs.append(("Key", a, model.Key(getattr(model.KeyTypes, a[0]), a[1])))
    for _ in range(n):
        a = gen_refv(rng); objs.append(("Reference", a, mk_refv(a)))
        b = mutate_refv(rng, a); objs.append(("Reference", b, mk_refv(b)))
        objs.append(("Reference", a, mk_refv(a)))
        s = gen_sai(rng); objs.append(("SpecificAssetId", s, mk_sai(s)))
        s2 = mutate_sai(rng, s); objs.append(("SpecificAssetId", s2, mk_sai(s2)))
        objs.append(("SpecificAssetId", s, mk_sai(s)))
    rng2 = random.Random(rng.random())
    pairs = [(objs[i], objs[j]) for i in range(len(objs)) for j in (i, (i + 1) % len(objs), (i + 2) % len(objs), rng2.randrange(len(objs)))]
    for (ca, ja, a), (cb, jb, b) in pairs:
        try:
            eq = (a == b)
            if eq and hash(a) != hash(b):
                add(C.Failing(f"value:{ca}:eq-without-equal-hash", f"{ja} == {jb} but hashes differ", ["values", ca, ja, jb]))
            if ca == cb and ja == jb and not eq:
                add(C.Failing(f"value:{ca}:equal-construction-not-equal", f"two {ca} built from {ja} are not ==", ["values", ca, ja, jb]))
            if eq != (b == a):
                add(C.Failing(f"value:{ca}:eq-not-symmetric", f"{ja} vs {jb}", ["values", ca, ja, jb]))
        except Exception as e:
            add(C.Failing(f"value:{ca}:eq-or-hash-raises", repr(e), ["values", ca, ja, jb]))
    # immutability: assignment to every public attribute raises and leaves the value unchanged
    public = {"Key": ["type", "value"], "Reference": ["key", "type", "referred_semantic_id"],
              "SpecificAssetId": ["name", "value", "external_subject_id", "semantic_id", "supplemental_semantic_id"]}
    for cls, j, o in objs[:60]:
        for name in public[cls] + ["brand_new_attribute"]:
            before = (snapshot(o), hash(o))
            for val in (None, "x", 1):
                try:
                    setattr(o, name, val)
                    raised = False
                except AttributeError:
                    raised = True
                except Exception as e:
                    add(C.Failing(f"value:{cls}:setattr:{name}:raises-{type(e).__name__}", repr(e), ["setattr", cls, j, name]))
                    raised = True
                if not raised or (snapshot(o), hash(o)) != before:
                    add(C.Failing(f"value:{cls}:setattr:{name}:accepted", f"assignment to {cls}.{name} did not raise / changed the value",
                                  ["setattr", cls, j, name]))
    for cls, j, o in objs:
        if cls == "SpecificAssetId":
            f = check_sai_list(j)
            if f:
                add(f)
    return out


def snapshot(o) -> Any:
    from basyx.aas import model
    if isinstance(o, model.Key):
        return ("K", o.type.name, o.value)
    if isinstance(o, model.Reference):
        return (type(o).__name__, tuple(snapshot(k) for k in o.key), getattr(getattr(o, "type", None), "__name__", None),
                None if o.referred_semantic_id is None else snapshot(o.referred_semantic_id))
    if isinstance(o, model.SpecificAssetId):
        return ("S", o.name, o.value, None if o.external_subject_id is None else snapshot(o.external_subject_id),
                None if o.semantic_id is None else snapshot(o.semantic_id), tuple(snapshot(r) for r in o.supplemental_semantic_id))
    return o


def check_sai_list(j) -> Optional[C.Failing]:
    """A SpecificAssetId is a value: nothing reachable through its public attributes may change it."""
    from basyx.aas import model
    o = mk_sai(j)
    twin = mk_sai(j)
    before = snapshot(o)
    extra = model.ExternalReference((model.Key(model.KeyTypes.GLOBAL_REFERENCE, "urn:vf:extra"),))
    try:
        o.supplemental_semantic_id.append(extra)
    except Exception:
        pass
    if snapshot(o) != before or o != twin:
        return C.Failing("value:SpecificAssetId:supplemental_semantic_id:list-mutable",
                         "sai.supplemental_semantic_id.append(ref) changes an existing SpecificAssetId (it stops being == to an "
                         "identically built one; its hash does not change)", ["sai-list", j])
    return None


def oracle(ctx: C.Ctx, cov: C.Coverage) -> List[C.Failing]:
    rng = random.Random(f"C07:oracle:{ctx.seed}")
    b = budgets(ctx)
    out: List[C.Failing] = []
    sigs = set()
    for _ in range(b["trees"]):
        try:
            case = gen_case(rng, b["depth"], b["width"])
        except Rejected:
            continue                      # reported by the correspondence; the property itself speaks about built trees
        f = check_case(case.json(), random.Random(rng.random()))
        if f and f.sig not in sigs:
            sigs.add(f.sig)
            out.append(minimise(f))
    for f in check_values(rng, ctx.budget(40, 400)):
        if f.sig not in sigs:
            sigs.add(f.sig); out.append(f)
    return out


def minimise(f: C.Failing) -> C.Failing:
    """Shrink the failing case: drop other roots, prune subtrees not on the path, while the same signature fails."""
    case = f.case.get("case") if isinstance(f.case, dict) else None
    if case is None:
        return f

    def fails(cj) -> Optional[C.Failing]:
        try:
            for seed in range(3):
                g = check_case(cj, random.Random(seed))
                if g is not None and g.sig == f.sig:
                    return g
        except Exception:
            return None
        return None
    best = f
    cur = copy.deepcopy(case)
    changed = True
    rounds = 0
    while changed and rounds < 6:
        changed = False
        rounds += 1
        # drop roots
        for u in range(len(cur["descs"]) - 1, -1, -1):
            if len(cur["descs"]) <= 1:
                break
            cand = {"descs": cur["descs"][:u] + cur["descs"][u + 1:],
                    "stores": [[v - (v > u) for v in s if v != u] for s in cur["stores"]], "churn": cur.get("churn", False)}
            g = fails(cand)
            if g:
                cur, best, changed = cand, g, True
        # prune children
        for u, d in enumerate(cur["descs"]):
            for p, nd in sorted(T.nodes_of(d), key=lambda x: -len(x[0])):
                if not p:
                    continue
                cand = copy.deepcopy(cur)
                par = T.node_at(cand["descs"][u], p[:-1])
                if p[-1] >= len(par[4]):
                    continue
                del par[4][p[-1]]
                if par[0] == "Operation" and len(par) > 5 and par[5] is not None:
                    del par[5][p[-1]]
                g = fails(cand)
                if g:
                    cur, best, changed = cand, g, True
                    break
    return best


def search(ctx: C.Ctx, disagreements, broken) -> List[C.Failing]:
    out: List[C.Failing] = []
    for d in disagreements:
        cj = d.case.get("case") if isinstance(d.case, dict) else None
        if cj:
            for seed in range(4):
                f = check_case(cj, random.Random(seed))
                if f:
                    out.append(minimise(f)); break
    if out:
        return out
    big = C.Ctx(ctx.prop, "thorough", ctx.seed + 1, random.Random(), ctx.t0, ctx.jobs)
    return oracle(big, C.Coverage())


def _mk_value(cls, j):
    from basyx.aas import model
    if cls == "Key":
        return model.Key(getattr(model.KeyTypes, j[0]), j[1])
    return mk_refv(j) if cls == "Reference" else mk_sai(j)


def replay_values(case) -> Optional[C.Failing]:
    _, cls, ja, jb = case
    a, b = _mk_value(cls, ja), _mk_value(cls, jb)
    try:
        eq = (a == b)
        if eq and hash(a) != hash(b):
            return C.Failing(f"value:{cls}:eq-without-equal-hash", f"{ja} == {jb} but hashes differ", case)
        if ja == jb and not eq:
            return C.Failing(f"value:{cls}:equal-construction-not-equal", f"two {cls} built from {ja} are not ==", case)
        if eq != (b == a):
            return C.Failing(f"value:{cls}:eq-not-symmetric", f"{ja} vs {jb}", case)
    except Exception as e:
        return C.Failing(f"value:{cls}:eq-or-hash-raises", repr(e), case)
    return None


def replay_setattr(case) -> Optional[C.Failing]:
    _, cls, j, name = case
    o = _mk_value(cls, j)
    before = (snapshot(o), hash(o))
    for val in (None, "x", 1):
        try:
            setattr(o, name, val)
            raised = False
        except AttributeError:
            raised = True
        except Exception as e:
            return C.Failing(f"value:{cls}:setattr:{name}:raises-{type(e).__name__}", repr(e), case)
        if not raised or (snapshot(o), hash(o)) != before:
            return C.Failing(f"value:{cls}:setattr:{name}:accepted", f"assignment to {cls}.{name} did not raise / changed the value", case)
    return None


def replay(case) -> Optional[C.Failing]:
    if isinstance(case, list) and case and case[0] == "sai-list":
        return check_sai_list(case[1])
    if isinstance(case, list) and case and case[0] == "values":
        return replay_values(case)
    if isinstance(case, list) and case and case[0] == "setattr":
        return replay_setattr(case)
    if isinstance(case, dict) and "case" in case:
        for seed in range(4):
            f = check_case(case["case"], random.Random(seed))
            if f:
                return f
        # directed: the recorded path / chain itself
        c = Case(copy.deepcopy(case["case"]["descs"]), case["case"]["stores"], case["case"].get("churn", False))
        u = case.get("uid", 0)
        if "segs" in case:
            return judge_path(c, u, c.descs[u], c.objs[u][()], case["segs"], case)
        if "keys" in case:
            return judge_chain(c, c.provider(), u, c.descs[u], case["keys"], case["type"], case)
    return None
