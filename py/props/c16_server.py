"""In-process fake CouchDB for C16: a line-by-line Python transcription of `Basyx.Couch.serve` (lean/Basyx/Model/Couch.lean)
plus the HTTP glue (URL parsing, JSON rendering) needed to put it behind `couchdb._http_pool_manager` or behind a real
`http.server` on 127.0.0.1.  It is tied to the Lean server on every run: the harness compares this server's request log
(request, response) and its document table with the Lean model's after every operation.

Abstract values (same as the model): Ident = tuple of UTF-8 bytes, Quoted = str (ASCII), Rev n <-> "<n>-r",
Data n <-> a serialised Submodel whose idShort is "v<n>".
"""
from __future__ import annotations

import json
import threading
from typing import Any, Dict, List, Optional, Tuple

DB = "db"
NOT_JSON = b"<html><body>oops</body></html>"
ERR_NAMES = {400: "bad_request", 401: "unauthorized", 404: "not_found", 405: "method_not_allowed", 409: "conflict",
             412: "file_exists", 500: "internal_server_error"}


# ------------------------------------------------------------------------------------------- quoting (model: quote / unquote)

def unreserved(b: int) -> bool:
    return (65 <= b <= 90) or (97 <= b <= 122) or (48 <= b <= 57) or b in (95, 46, 45, 126)


def hex_digit(n: int) -> int:
    return 48 + n if n < 10 else 55 + n


def quote(ident: Tuple[int, ...]) -> str:
    out: List[int] = []
    for b in ident:
        out += [b] if unreserved(b) else [37, hex_digit(b // 16), hex_digit(b % 16)]
    return "".join(map(chr, out))


def hex_val(c: int) -> Optional[int]:
    if 48 <= c <= 57:
        return c - 48
    if 65 <= c <= 70:
        return c - 55
    if 97 <= c <= 102:
        return c - 87
    return None


def unquote(q: str) -> Tuple[int, ...]:
    cs = [ord(c) for c in q]
    out: List[int] = []
    k = 0
    while k < len(cs):
        c = cs[k]
        if c == 37 and k + 2 <= len(cs) - 1:
            x, y = hex_val(cs[k + 1]), hex_val(cs[k + 2])
            if x is not None and y is not None:
                out.append((x * 16 + y) % 256)
                k += 3
                continue
        if c < 256:
            out.append(c % 256)
        k += 1
    return tuple(out)


def rev_str(n: int) -> str:
    return f"{n}-r"


def rev_num(s: Optional[str]) -> Optional[int]:
    """abstract revision of a revision string; strings this server never issued map to distinct negative numbers"""
    if s is None:
        return None
    if s.endswith("-r") and s[:-2].isdigit() and rev_str(int(s[:-2])) == s:
        return int(s[:-2])
    return -1 - (hash(s) % 1000)


# ------------------------------------------------------------------------------------------- the server (model: serve)

class Server:
    def __init__(self):
        self.docs: List[List[Any]] = []     # [ident, gen, body|None] in order of first creation

    def lookup(self, i):
        for d in self.docs:
            if d[0] == i:
                return d
        return None

    def gen_of(self, i) -> int:
        d = self.lookup(i)
        return d[1] if d is not None else 0

    def live(self, i):
        d = self.lookup(i)
        if d is not None and d[2] is not None:
            return (d[1], d[2])
        return None

    def write(self, i, b) -> None:
        g = self.gen_of(i) + 1
        d = self.lookup(i)
        if d is not None:
            d[1], d[2] = g, b
        else:
            self.docs.append([i, g, b])

    def live_ids(self):
        return [d[0] for d in self.docs if d[2] is not None]

    def serve(self, method: str, target, rev: Optional[int], data) -> Tuple[int, bool, Any, Optional[int]]:
        """-> (status, json content type, body, etag); body is an abstract Body as in the model"""
        def err(status):
            return (status, True, ["error"], None)
        if target == "db":
            if method == "GET":
                return (200, True, ["dbinfo", len(self.live_ids())], None)
            if method == "HEAD":
                return (200, True, ["empty"], None)
            return err(405)
        if target == "_all_docs":
            if method == "GET":
                return (200, True, ["rows", self.live_ids()], None)
            return err(405)
        q = target[1]
        if "/" in q:
            return err(404)
        i = unquote(q)
        cur = self.live(i)
        if method == "GET":
            if cur is not None:
                return (200, True, ["doc", i, cur[0], cur[1]], cur[0])
            return err(404)
        if method == "HEAD":
            if cur is not None:
                return (200, True, ["empty"], cur[0])
            return (404, True, ["empty"], None)
        if method == "PUT":
            if data is None:
                return err(400)
            if cur is not None:
                if rev == cur[0]:
                    self.write(i, data)
                    return (201, True, ["written", i, cur[0] + 1], cur[0] + 1)
                return err(409)
            if rev is None:
                g = self.gen_of(i) + 1
                self.write(i, data)
                return (201, True, ["written", i, g], g)
            return err(409)
        if method == "DELETE":
            if cur is not None:
                if rev == cur[0]:
                    self.write(i, None)
                    return (200, True, ["written", i, cur[0] + 1], cur[0] + 1)
                return err(409)
            return err(404)
        return err(405)

    # the external writer (model: extPut / extDelete)
    def ext_put(self, i, data) -> None:
        cur = self.live(i)
        self.serve("PUT", ["doc", quote(i)], cur[0] if cur else None, data)

    def ext_delete(self, i) -> None:
        cur = self.live(i)
        self.serve("DELETE", ["doc", quote(i)], cur[0] if cur else None, None)


# ------------------------------------------------------------------------------------------- HTTP glue

def data_num(doc_data: Any) -> Any:
    """abstract payload number of a stored `data` member (a serialised Submodel with idShort 'v<n>')"""
    try:
        s = doc_data["idShort"]
        return int(s[1:]) if s.startswith("v") else ["opaque", s]
    except Exception:
        return ["opaque", repr(doc_data)[:40]]


def submodel_json(ident: Tuple[int, ...], n: int) -> Dict[str, Any]:
    return {"idShort": f"v{n}", "modelType": "Submodel", "id": bytes(ident).decode("utf-8")}


class Http:
    """Parses requests into the model's `Req`, lets `Server.serve` (or the planned fault) answer, renders the response and keeps
    the log `[method, target, rev, data#, wire]` of the SDK client's requests."""

    def __init__(self, base: str):
        self.base = base                      # "http://host:port"
        self.server = Server()
        self.plan: List[Any] = []             # per SDK operation: one entry per request (None | fault)
        self.log: List[Any] = []
        self.lock = threading.Lock()

    def begin(self, plan):
        self.plan = list(plan)
        self.log = []

    def parse(self, method: str, path: str, body: Optional[bytes]):
        """path = everything after the base URL, starting with '/'"""
        rest = path[1:] if path.startswith("/") else path
        query = None
        if "?" in rest:
            rest, query = rest.split("?", 1)
        parts = rest.split("/", 1)
        rev = None
        data = None
        if query is not None and query.startswith("rev="):
            rev = query[4:]
        if body:
            try:
                j = json.loads(body.decode("utf-8"))
                if isinstance(j, dict):
                    data = j.get("data")
                    if "_rev" in j:
                        rev = j["_rev"]
            except Exception:
                data = None
        if parts[0] != DB:
            return ("GET", "nodb", None, None)
        if len(parts) == 1:
            target: Any = "db"
        elif parts[1] == "_all_docs":
            target = "_all_docs"
        else:
            target = ["doc", parts[1]]
        return (method, target, rev_num(rev), data)

    @staticmethod
    def abs_body(body):
        if body[0] == "doc":
            return ["doc", list(body[1]), body[2], data_num(body[3])]
        if body[0] == "written":
            return ["written", list(body[1]), body[2]]
        if body[0] == "rows":
            return ["rows", [list(i) for i in body[1]]]
        return list(body)

    def render(self, status, is_json, body, etag) -> Tuple[int, Dict[str, str], bytes]:
        headers = {"Content-type": "application/json" if is_json else "text/html"}
        if etag is not None:
            headers["ETag"] = '"' + rev_str(etag) + '"'
        k = body[0]
        if k == "doc":
            payload: Any = {"_id": bytes(body[1]).decode("utf-8"), "_rev": rev_str(body[2]), "data": body[3]}
        elif k == "written":
            payload = {"ok": True, "id": bytes(body[1]).decode("utf-8"), "rev": rev_str(body[2])}
        elif k == "dbinfo":
            payload = {"db_name": DB, "doc_count": body[1]}
        elif k == "rows":
            payload = {"total_rows": len(body[1]), "offset": 0,
                       "rows": [{"id": bytes(i).decode("utf-8"), "key": bytes(i).decode("utf-8"), "value": {}} for i in body[1]]}
        elif k == "error":
            payload = {"error": ERR_NAMES.get(status, "error"), "reason": "injected or refused"}
        elif k == "empty":
            return status, headers, b""
        else:
            return status, headers, NOT_JSON
        return status, headers, json.dumps(payload).encode("utf-8")

    def handle(self, method: str, path: str, body: Optional[bytes]):
        """-> ("resp", status, headers, bytes) | ("fail", kind).  One SDK request."""
        with self.lock:
            m, target, rev, data = self.parse(method, path, body)
            if target == "nodb":
                return ("resp",) + self.render(404, True, ["error"], None)
            fault = self.plan.pop(0) if self.plan else None
            entry = [m, target, rev, None if data is None else data_num(data)]
            if fault is None:
                status, is_json, b, etag = self.server.serve(m, target, rev, data)
                self.log.append(entry + [["resp", status, is_json, self.abs_body(b), etag]])
                return ("resp",) + self.render(status, is_json, b, etag)
            processed = fault[-1]
            if processed:
                self.server.serve(m, target, rev, data)
            if fault[0] == "status":
                _, code, jt, jb, _p = fault
                b = ["error"] if jb else ["notjson"]
                self.log.append(entry + [["resp", code, jt, b, None]])
                return ("resp",) + self.render(code, jt, b, None)
            self.log.append(entry + [["fail", fault[1]]])
            return ("fail", fault[1])

    def docs_view(self):
        return [[list(d[0]), d[1], None if d[2] is None else data_num(d[2])] for d in self.server.docs]


# ------------------------------------------------------------------------------------------- transport 1: pool manager stand-in

class FakeResponse:
    def __init__(self, status: int, headers: Dict[str, str], data: bytes):
        import urllib3
        self.status = status
        self.headers = urllib3.HTTPHeaderDict(headers)
        self.data = data


class FakePoolManager:
    """Replaces `couchdb._http_pool_manager` from outside; `request` has urllib3's signature as used by do_request."""

    def __init__(self, http: Http):
        self.http = http

    def request(self, method, url, headers=None, body=None, **kw):
        import urllib3
        if not url.startswith(self.http.base):
            raise urllib3.exceptions.MaxRetryError(None, url, "unknown host")
        r = self.http.handle(method, url[len(self.http.base):], body)
        if r[0] == "fail":
            k = r[1]
            if k == "timeout":
                raise urllib3.exceptions.ReadTimeoutError(None, url, "Read timed out.")
            if k == "ssl":
                raise urllib3.exceptions.SSLError("bad handshake")
            if k == "protocol":
                raise urllib3.exceptions.ProtocolError("Connection aborted.", ConnectionResetError(104, "reset"))
            raise urllib3.exceptions.MaxRetryError(None, url, "too many retries")
        return FakeResponse(r[1], r[2], r[3])


# ------------------------------------------------------------------------------------------- transport 2: real sockets on loopback

def start_loopback(http_factory):
    """Starts an http.server on 127.0.0.1 (ephemeral port) serving the fake CouchDB; returns (Http, shutdown())."""
    import http.server

    state: Dict[str, Any] = {}

    class Handler(http.server.BaseHTTPRequestHandler):
        protocol_version = "HTTP/1.1"
        disable_nagle_algorithm = True      # headers and body are written separately: avoid the 40 ms Nagle / delayed-ACK stall

        def log_message(self, *a):
            pass

        def _do(self):
            n = int(self.headers.get("Content-Length") or 0)
            body = self.rfile.read(n) if n else None
            h: Http = state["http"]
            if self.headers.get("X-Ext") == "1":
                # the external writer: a different client, not planned, not logged
                with h.lock:
                    m, target, rev, data = h.parse(self.command, self.path, body)
                    status, headers, payload = h.render(*h.server.serve(m, target, rev, data))
            else:
                key = (self.command, self.path, body)
                if state.get("absorb") and state["absorb"][0] == key and state["absorb"][1] > 0:
                    # urllib3 retrying a request whose connection we dropped: drop again, it is the same logical request
                    state["absorb"][1] -= 1
                    self.close_connection = True
                    self.connection.close()
                    return
                r = h.handle(self.command, self.path, body)
                if r[0] == "fail":
                    state["absorb"] = [key, 8]
                    self.close_connection = True
                    self.connection.close()
                    return
                state["absorb"] = None
                _, status, headers, payload = r
            self.send_response(status)
            for k, v in headers.items():
                self.send_header(k, v)
            self.send_header("Content-Length", str(len(payload)))
            self.end_headers()
            if self.command != "HEAD":
                self.wfile.write(payload)

        do_GET = do_HEAD = do_PUT = do_DELETE = _do

    class Srv(http.server.ThreadingHTTPServer):
        daemon_threads = True

        def handle_error(self, request, client_address):
            pass

    srv = Srv(("127.0.0.1", 0), Handler)
    base = f"http://127.0.0.1:{srv.server_address[1]}"
    state["http"] = http_factory(base)
    t = threading.Thread(target=srv.serve_forever, kwargs={"poll_interval": 0.05}, daemon=True)
    t.start()

    def shutdown():
        srv.shutdown()
        srv.server_close()
    return state["http"], shutdown, state
