"""C03 — JSON round trip: translator (T-gen) + generic codec model (T-corr) + round-trip oracle on the implementation."""
from __future__ import annotations

import io
import json
import logging
import os
import random
import re
import tempfile
from typing import Any, List, Optional

from vf import common as C

ID = "C03"
LEAN_MODULE = "Basyx.Props.C03"
LEVEL = "proof"
MANIFEST = {
    "text": "Lean theorem for values of ANY depth/width: strict reading of what the JSON writer produced returns the value "
            "(generic table-driven codec, mutual structural induction), given the decidable table obligation c03_tables_wf which "
            "is re-proved by `decide` in the kernel against the member tables REGENERATED from json_serialization.py / "
            "json_deserialization.py / _generic.py on every run (guards lossless on the spec domain, reader reads what the writer "
            "writes, required ⊆ always written, strip flags agree, modelType dispatch one-to-one, enum tables injective); lifted to "
            "stores. The generic interpreter is tied to the real adapters by a differential run (writer output and strict reader "
            "result vs. model on generated objects of every class)."
            " Also regenerated and proved: how the writer names an object's class (modelType = first KEY_TYPES_CLASSES class of the MRO) and sorts a store into the top-level lists (isinstance chain) - under both, instances of application-defined subclasses at any depth of derivation are written like instances of the class they specialise (c03_class_dispatch, c03_subclass_instances_written_alike).",
    "note": "leaf lexical forms (xsd_repr/from_xsd, base64) are C06's and enter as opaque tokens with a truthiness bit; json module "
            "(escaping, streaming) trusted; translator + spec-side metamodel table (py/vf/meta.py) trusted, validated by the tie; "
            "AASd-005 assumed for the nested revision-under-version guard",
    "technique": "Lean 4 proof: generic codec round-trip theorem + kernel-decided well-formedness of tables regenerated from source; "
                 "differential correspondence; round-trip oracle",
}
ASSUMPTIONS = [
    "Python's json module is a lossless channel for str/bool/list/dict (escaping of quotes, backslashes, control and astral characters is exercised, not proved)",
    "leaf tokens: xsd_repr/from_xsd/base64 round trips are property C06; here a leaf is its lexical token plus Python truthiness",
    "spec-side metamodel table py/vf/meta.py (attribute domains) and the translator py/translate/json_tables.py",
    "ModelReference.type (the Python target class) is not a metamodel attribute and is not compared",
]

GEN_JSON = os.path.join(C.LEAN_DIR, "Basyx", "Gen", "json_table.json")
GEN_LEAN = os.path.join(C.LEAN_DIR, "Basyx", "Gen", "JsonTable.lean")


def _quiet():
    logging.disable(logging.CRITICAL)


def write_if_changed(path: str, text: str):
    if os.path.exists(path) and open(path, encoding="utf-8").read() == text:
        return
    with open(path, "w", encoding="utf-8") as f:
        f.write(text)


GEN_DISPATCH = os.path.join(C.LEAN_DIR, "Basyx", "Gen", "Dispatch.lean")


def translate_dispatch(ctx: C.Ctx) -> List[str]:
    """how the writers decide which class an object is (modelType naming, sorting into the top-level lists)"""
    from translate import dispatch_tables as D
    data = D.build(C.REPO)
    write_if_changed(GEN_DISPATCH, D.emit_lean(data))
    return [f"unrecognised source construct: {u}" for u in data["unrecognised"]]


def translate(ctx: C.Ctx) -> List[str]:
    from translate import json_tables as J
    data = J.build(C.REPO)
    write_if_changed(GEN_LEAN, J.emit_lean(data))
    write_if_changed(GEN_JSON, json.dumps(data, indent=1))
    return [f"unrecognised source construct: {u}" for u in data["unrecognised"]] + [f"table problem: {p}" for p in data["problems"]] \
        + translate_dispatch(ctx)


# ----------------------------------------------------------------------------------------------- generation

def gen_objects(seed: int, n: int, tier: str, falsy_bias: float = 0.35):
    """n (index, object) pairs: identifiables of every kind; deterministic in (seed, index)."""
    out = []
    zoo, zstats = _make(seed, -1, 3, falsy_bias)
    out.append((-1, zoo, zstats))          # the deterministic zoo of leaf values: on every run, whatever the seed
    for i in range(n):
        obj, stats = _make(seed, i, 3 if tier == "quick" else 4, falsy_bias)
        out.append((i, obj, stats))
    return out


def _make(seed: int, i: int, depth: int, falsy_bias: float):
    """object #i: identifiables (i%5 in 0..2) and bare submodel elements of every class as roots (i%5 in 3..4)"""
    from vf import gen, meta
    g = gen.Gen(random.Random(f"C03obj:{seed}:{i}"), max_depth=depth, falsy_bias=falsy_bias)
    if i == -1:
        return g.zoo_submodel(), g.stats
    kind = i % 5
    if kind == 0:
        obj = g.submodel()
    elif kind == 1:
        obj = g.shell()
    elif kind == 2:
        obj = g.concept_description()
    else:
        classes = meta.SUBMODEL_ELEMENT_CLASSES
        obj = g.element(1, classes[(i // 5 * 2 + kind) % len(classes)])
    return obj, g.stats


def regen(case: dict):
    return _make(case["seed"], case["index"], case.get("depth", 3), case.get("falsy_bias", 0.35))[0]


# ----------------------------------------------------------------------------------------------- correspondence

def correspond(ctx: C.Ctx, cov: C.Coverage) -> List[C.Disagreement]:
    _quiet()
    from basyx.aas.adapter.json import AASToJsonEncoder, StrictAASFromJsonDecoder
    from vf import codec, meta
    T = codec.load_table(GEN_JSON)
    n = ctx.budget(150, 4000)
    objs = gen_objects(ctx.seed, n, ctx.tier)
    cov.rule = ("seeded type-directed generator (py/vf/gen.py): submodels, shells, concept descriptions with every class, optional "
                "attributes present/absent, all XSD value types with falsy/edge values, AASd-130 string stress, nesting depth<=3 "
                "(quick) / 4 (thorough). Per object: writer output vs model enc, strict reader result vs model dec. non-trivial = "
                "object has >=1 falsy leaf or depth>=2; distinct = by canonical value")
    lines, expect, index = [], [], []
    # the adapter has been used in every other mode before (first thing in this process): see interfere()
    objs = list(objs)
    for _, o_, _ in objs[:4]:
        interfere(o_)
    poly = ["poly", meta.IDENTIFIABLE_CLASSES + meta.SUBMODEL_ELEMENT_CLASSES]
    for i, obj, stats in objs:
        v = T.to_val(obj)
        s = json.dumps(obj, cls=AASToJsonEncoder)
        w_sdk = T.wire_of_json(poly, json.loads(s))
        lines.append(["enc", False, v]); expect.append(("enc", w_sdk)); index.append(i)
        try:
            obj2 = json.loads(s, cls=StrictAASFromJsonDecoder)
            r = ["ok", T.sort_unordered(T.to_val(obj2))]
        except Exception as e:
            r = ["err", type(e).__name__]
        # the reader model is fed the model writer's output (same document, plus truthiness bits)
        lines.append(["dec", False, poly, None]); expect.append(("dec", r)); index.append(i)
        js = json.dumps(v)
        if '"t", "", true' in js or 'true]' in js or js.count('["n"') > 6:
            cov.nontrivial.add(C.sha(v))
        cov.evaluations += 1
        for k, c in stats.items():
            if k.startswith("class:"):
                cov.hit(k, c)
    # first pass: enc lines only, to obtain the model documents
    enc_out = C.run_model("C03", [l for l in lines if l[0] == "enc"])
    it = iter(enc_out)
    full = []
    for l in lines:
        if l[0] == "enc":
            w = next(it); last = w; full.append(l)
        else:
            full.append(["dec", False, l[2], last])
    out = C.run_model("C03", full)
    dis: List[C.Disagreement] = []
    for k, (m, (what, exp)) in enumerate(zip(out, expect)):
        if what == "enc":
            ok = T.erase_flags(m) == T.erase_flags(exp)
        else:
            mm = ["ok", T.sort_unordered(m[1])] if m and m[0] == "ok" else m[:2]
            ok = mm == exp
        if not ok:
            i = index[k]
            dis.append(C.Disagreement(f"json {what} of generated object #{i} ({type(objs[i][1]).__name__})",
                                      {"seed": ctx.seed, "index": i, "depth": 3 if ctx.tier == "quick" else 4},
                                      _first_diff(T.erase_flags(m) if what == "enc" else mm, T.erase_flags(exp) if what == "enc" else exp), "see model"))
            if len(dis) >= 5:
                break
    cov.samples = [{"object": json.loads(json.dumps(objs[0][1], cls=AASToJsonEncoder))}]
    return dis


def _first_diff(a, b, path=""):
    if type(a) is not type(b):
        return f"{path}: model={json.dumps(a)[:150]} impl={json.dumps(b)[:150]}"
    if isinstance(a, list):
        if len(a) != len(b):
            return f"{path}: model={json.dumps(a)[:200]} impl={json.dumps(b)[:200]}"
        for i, (x, y) in enumerate(zip(a, b)):
            d = _first_diff(x, y, f"{path}[{i}]")
            if d:
                return d
        return None
    return None if a == b else f"{path}: model={a!r} impl={b!r}"


# ----------------------------------------------------------------------------------------------- oracle

def sig_of(diff: str, fmt: str = "json", root=None) -> str:
    """<fmt>:roundtrip:<Class>.<attribute>:<lost|changed> — class = innermost object on the path of the first difference"""
    path = diff.split(":")[0]
    attrs = re.findall(r"\.([a-z_]+)", path)
    lost = "lost" if diff.rstrip().endswith("!= None") else "changed"
    cls = None
    cur = root
    for tok_ in re.findall(r"\.[a-z_]+|\[\d+\]", path):
        if isinstance(cur, dict) and "_c" in cur:
            cls = cur["_c"]
        try:
            cur = cur[tok_[1:]] if tok_[0] == "." else cur[int(tok_[1:-1])]
        except Exception:
            break
    if cls is not None and attrs:
        return f"{fmt}:roundtrip:{cls}.{attrs[-1]}:{lost}"
    return f"{fmt}:roundtrip:{'.'.join(attrs[-2:])}:{lost}"


CARRIERS = ("text", "binary", "path", "tmp-text", "tmp-binary", "spooled-text", "codecs")


def roundtrip_store(store, how: str):
    from basyx.aas.adapter.json import write_aas_json_file, read_aas_json_file
    if how == "text":
        buf = io.StringIO(); write_aas_json_file(buf, store); buf.seek(0)
        return read_aas_json_file(buf, failsafe=False)
    if how == "binary":
        buf = io.BytesIO(); write_aas_json_file(buf, store); buf.seek(0)
        return read_aas_json_file(buf, failsafe=False)
    if how in ("tmp-text", "tmp-binary", "spooled-text", "codecs"):
        # other legitimate file objects: temporary files (text and binary mode), a spooled file, a codecs stream
        import codecs
        d = tempfile.mkdtemp(prefix="verif-c03-")
        try:
            if how == "tmp-text":
                f = tempfile.NamedTemporaryFile("w+", encoding="utf-8", dir=d)
            elif how == "tmp-binary":
                f = tempfile.NamedTemporaryFile("w+b", dir=d)
            elif how == "spooled-text":
                f = tempfile.SpooledTemporaryFile(mode="w+", encoding="utf-8", dir=d)
            else:
                f = codecs.open(os.path.join(d, "c.json"), "w+", encoding="utf-8")
            with f:
                write_aas_json_file(f, store)
                f.seek(0)
                return read_aas_json_file(f, failsafe=False)
        finally:
            import shutil
            shutil.rmtree(d, ignore_errors=True)
    d = tempfile.mkdtemp(prefix="verif-c03-")
    try:
        p = os.path.join(d, "x.json")
        write_aas_json_file(p, store)
        return read_aas_json_file(p, failsafe=False)
    finally:
        import shutil
        shutil.rmtree(d, ignore_errors=True)


def interfere(obj) -> None:
    """Other uses of the adapter in the same process, before the round trip under test: every combination of the mode
    parameters with explicitly passed encoder / decoder classes.  Serialising and reading are functions of their arguments;
    none of these calls may change what a later ordinary call does (the property holds after every history of calls)."""
    from basyx.aas import model
    from basyx.aas.adapter import json as J
    store = model.DictObjectStore([obj]) if isinstance(obj, model.Identifiable) else model.DictObjectStore()
    for stripped in (True, False):
        for enc in (None, J.AASToJsonEncoder, J.StrippedAASToJsonEncoder):
            doc = J.object_store_to_json(store, stripped=stripped, encoder=enc)
            buf = io.StringIO(); J.write_aas_json_file(buf, store, stripped=stripped, encoder=enc)
    json.dumps(obj, cls=J.StrippedAASToJsonEncoder)
    full = J.object_store_to_json(store)
    for stripped in (True, False):
        for failsafe in (True, False):
            for dec in (None, J.AASFromJsonDecoder, J.StrictAASFromJsonDecoder, J.StrippedAASFromJsonDecoder, J.StrictStrippedAASFromJsonDecoder):
                J.read_aas_json_file(io.StringIO(full), failsafe=failsafe, stripped=stripped, decoder=dec)


def scribble(obj) -> int:
    """edit every mutable typed value (bytearray-based xs:base64Binary / xs:hexBinary) of an object that was READ, in place — what an
    application may do with its own copy.  Objects returned by different reads are independent: a later read of the same document
    must not see these edits.  Returns the number of values edited."""
    from vf import meta
    n = 0
    seen = set()

    def walk(o):
        nonlocal n
        if id(o) in seen:
            return
        seen.add(id(o))
        try:
            cls = meta.class_name(o)
        except TypeError:
            return
        for attr, kind in meta.META[cls]:
            v = getattr(o, attr, None)
            if v is None:
                continue
            if isinstance(v, bytearray):
                v.extend(b"\xff\xfe"); n += 1
            elif isinstance(v, (list, set, frozenset, tuple)) or hasattr(v, "__iter__") and not isinstance(v, (str, bytes, dict)):
                try:
                    for x in list(v):
                        walk(x)
                except TypeError:
                    pass
            else:
                walk(v)
    walk(obj)
    return n


def check_object(obj, case: dict, how: str = "text") -> Optional[C.Failing]:
    """canon(read(write(x))) == canon(x), through a store document and through the encoder/decoder classes."""
    _quiet()
    from basyx.aas import model
    from basyx.aas.adapter.json import AASToJsonEncoder, StrictAASFromJsonDecoder
    from vf import canon
    c1 = canon.canon(obj)
    try:
        if case.get("mix", True):
            interfere(obj)
        if not isinstance(obj, model.Identifiable):
            o3 = json.loads(json.dumps(obj, cls=AASToJsonEncoder), cls=StrictAASFromJsonDecoder)
            d = canon.diff(c1, canon.canon(o3)) if not isinstance(o3, dict) else "decoder returned a dict"
            if d:
                return C.Failing(sig_of(d, "json", c1), f"{type(obj).__name__} via encoder/decoder classes: {d[:200]}", case, d)
            return None
        st2 = roundtrip_store(model.DictObjectStore([obj]), how)
        objs2 = list(st2)
        if len(objs2) != 1 or type(objs2[0]) is not type(obj):
            return C.Failing("json:roundtrip:store:identifiables", f"store with one {type(obj).__name__} read back as "
                             f"{[type(o).__name__ for o in objs2]}", case)
        d = canon.diff(c1, canon.canon(objs2[0]))
        if d:
            return C.Failing(sig_of(d, "json", c1), f"{type(obj).__name__} via {how} stream: {d[:200]}", case, d)
        if scribble(objs2[0]):
            # the application edited its copy; the same document read once more still yields what was written
            objs3 = list(roundtrip_store(model.DictObjectStore([obj]), how))
            d = canon.diff(c1, canon.canon(objs3[0])) if len(objs3) == 1 else "count"
            if d:
                return C.Failing("json:roundtrip:second-read-sees-edits-of-first", f"{type(obj).__name__} via {how} stream, read again after "
                                 f"the first result was edited in place: {d[:200]}", case, d)
        o3 = json.loads(json.dumps(obj, cls=AASToJsonEncoder), cls=StrictAASFromJsonDecoder)
        d = canon.diff(c1, canon.canon(o3)) if not isinstance(o3, dict) else "decoder returned a dict"
        if d:
            return C.Failing(sig_of(d, "json", c1), f"{type(obj).__name__} via encoder/decoder classes: {d[:200]}", case, d)
        if case.get("index", 0) < 200 or case.get("index", 0) % 8 == 0:          # every object of a quick run, every eighth beyond
            f = subclass_roundtrip(obj, c1, case, how)
            if f:
                return f
            f = failed_write_then_reuse(obj, c1, case)
            if f:
                return f
    except Exception as e:
        return C.Failing(f"json:roundtrip:raises:{type(e).__name__}", f"{type(obj).__name__}: {e!r}"[:300], case)
    return None


def reclass_tree(obj):
    """every referable of the tree becomes an instance of a fresh application-defined subclass of its class; returns the undo list"""
    from basyx.aas import model
    touched = []

    def walk(o):
        if isinstance(o, model.Referable):
            try:
                c = o.__class__
                o.__class__ = type("App" + c.__name__, (c,), {})
                touched.append((o, c))
            except TypeError:
                pass
            if isinstance(o, model.UniqueIdShortNamespace):
                for ch in o:
                    walk(ch)
    walk(obj)
    return touched


def subclass_roundtrip(obj, c1, case: dict, how: str) -> Optional[C.Failing]:
    """(round 6) an application derives its own classes from the metamodel classes (the readers support that: `object_class`);
    a store of such instances holds the same model: written and read back it is that model"""
    from basyx.aas import model
    from vf import canon
    touched = reclass_tree(obj)
    try:
        objs = list(roundtrip_store(model.DictObjectStore([obj]), how))
    except Exception as e:
        return C.Failing(f"json:roundtrip:subclass-instances:raises:{type(e).__name__}", f"writing/reading a store of instances of application-defined "
                         f"subclasses ({type(obj).__name__}) raised {e!r}"[:300], case)
    finally:
        for o, c in touched:
            o.__class__ = c
    if len(objs) != 1:
        return C.Failing("json:roundtrip:subclass-instances:identifiables", f"a store with one instance of a subclass of {type(obj).__name__} is read back "
                         f"as {len(objs)} objects", case)
    d = canon.diff(c1, canon.canon(objs[0]))
    if d:
        return C.Failing("json:roundtrip:subclass-instances:" + sig_of(d, "json", c1).split(":", 2)[-1], f"instances of application-defined subclasses, "
                         f"{type(obj).__name__} via {how} stream: {d[:200]}", case, d)
    return None


_BAD: list = []


def failed_write_then_reuse(obj, c1, case: dict) -> Optional[C.Failing]:
    """(round 6) a write that fails half-way (an object the encoder rejects comes second) must leave the CALLER's stream alone:
    after the exception - and a garbage collection - the same stream takes the valid store and yields it again"""
    import gc
    from basyx.aas import model
    from basyx.aas.adapter.json import write_aas_json_file, read_aas_json_file
    from vf import canon
    import dateutil.relativedelta as rd
    bad = model.Submodel("urn:vf:rejected", [model.Property("d", model.datatypes.Duration, rd.relativedelta(months=1, days=-1))])
    for carrier in ("binary", "text"):
        buf = io.BytesIO() if carrier == "binary" else io.StringIO()
        try:
            write_aas_json_file(buf, model.DictObjectStore([obj, bad]))
            return None                      # the encoder took it: nothing to observe here
        except Exception:
            pass
        gc.collect()
        try:
            buf.seek(0); buf.truncate()
            write_aas_json_file(buf, model.DictObjectStore([obj]))
            buf.seek(0)
            objs = list(read_aas_json_file(buf, failsafe=False))
        except Exception as e:
            return C.Failing(f"json:roundtrip:stream-unusable-after-failed-write:{carrier}:{type(e).__name__}", f"after a write that raised half-way, the "
                             f"caller's {carrier} stream no longer takes a valid store: {e!r}"[:300], case)
        d = canon.diff(c1, canon.canon(objs[0])) if len(objs) == 1 else "count"
        if d:
            return C.Failing(f"json:roundtrip:after-failed-write:{carrier}", f"{type(obj).__name__} written to a {carrier} stream after a failed write: {d[:200]}", case, d)
    return None


def oracle(ctx: C.Ctx, cov: C.Coverage, falsy_bias: float = 0.35, n: Optional[int] = None, seed: Optional[int] = None) -> List[C.Failing]:
    out, sigs = [], set()
    seed = ctx.seed if seed is None else seed
    depth = 3 if ctx.tier == "quick" else 4
    for i, obj, _ in gen_objects(seed, n or ctx.budget(240, 6000), ctx.tier, falsy_bias):
        f = check_object(obj, {"seed": seed, "index": i, "depth": depth, "falsy_bias": falsy_bias}, CARRIERS[i % len(CARRIERS)])
        if f and f.sig not in sigs:
            sigs.add(f.sig); out.append(f)
    for case, group in batches(seed, min(n or ctx.budget(240, 6000), 400), ctx.tier, falsy_bias):
        f = check_batch(group, case, "json")
        if f and f.sig not in sigs:
            sigs.add(f.sig); out.append(f)
    return out


def directed_store():
    """several identifiables of each kind in ONE document: two template submodels and an instance one (with the same elements),
    two shells, two concept descriptions"""
    from basyx.aas import model
    mk = lambda i, kind: model.Submodel(f"urn:vf:batch:sm{i}", [model.Property("p", model.datatypes.Int, i)], kind=kind,  # noqa: E731
                                        administration=model.AdministrativeInformation(version="1", revision=str(i)))
    sms = [mk(1, model.ModellingKind.TEMPLATE), mk(2, model.ModellingKind.TEMPLATE), mk(3, model.ModellingKind.INSTANCE), mk(4, model.ModellingKind.TEMPLATE)]
    shells = [model.AssetAdministrationShell(model.AssetInformation(global_asset_id=f"urn:vf:batch:asset{i}"), f"urn:vf:batch:aas{i}",
                                             submodel={model.ModelReference.from_referable(sm) for sm in sms[:i + 1]}) for i in (0, 1)]
    cds = [model.ConceptDescription(f"urn:vf:batch:cd{i}", is_case_of={model.ExternalReference((model.Key(model.KeyTypes.GLOBAL_REFERENCE, f"urn:c{i}"),))})
           for i in (0, 1)]
    return sms + shells + cds


def check_batch(objs, case: dict, fmt: str = "json") -> Optional[C.Failing]:
    """(round 7) a store holds MANY objects: all of them in one document, written and read back, each compared by identifier - what
    is written for one object must not depend on the others of the document"""
    _quiet()
    from basyx.aas import model
    from vf import canon
    want = {o.id: canon.canon(o) for o in objs}
    try:
        if fmt == "json":
            got_objs = list(roundtrip_store(model.DictObjectStore(objs), "binary"))
        else:
            from basyx.aas.adapter.xml import write_aas_xml_file, read_aas_xml_file
            buf = io.BytesIO(); write_aas_xml_file(buf, model.DictObjectStore(objs)); buf.seek(0)
            got_objs = list(read_aas_xml_file(buf, failsafe=False))
    except Exception as e:
        return C.Failing(f"{fmt}:roundtrip:batch:raises:{type(e).__name__}", f"a store of {len(objs)} objects: {e!r}"[:300], case)
    got = {o.id: canon.canon(o) for o in got_objs}
    if sorted(got) != sorted(want):
        return C.Failing(f"{fmt}:roundtrip:batch:identifiables", f"a store of {sorted(want)} is read back as {sorted(got)}", case)
    for i, c in want.items():
        d = canon.diff(c, got[i])
        if d:
            return C.Failing(f"{fmt}:roundtrip:batch:" + sig_of(d, fmt, c).split(":", 2)[-1], f"{i!r} in a store of {len(objs)} objects: {d[:200]}", case, d)
    return None


def batches(seed: int, n: int, tier: str, falsy_bias: float):
    """the directed store, then the generated identifiables in stores of four"""
    from basyx.aas import model
    yield {"seed": seed, "batch": "directed"}, directed_store()
    group, first = [], None
    for i, obj, _ in gen_objects(seed, n, tier, falsy_bias):
        if isinstance(obj, model.Identifiable) and i >= 0 and all(obj.id != o.id for o in group):
            first = i if not group else first
            group.append(obj)
            if len(group) == 4:
                yield {"seed": seed, "batch": [first, i]}, group
                group = []


def search(ctx: C.Ctx, disagreements, broken) -> List[C.Failing]:
    # directed: objects rich in falsy leaves (a guard changed to truthiness loses exactly these), then a wider sweep
    found = []
    for d in disagreements:
        if isinstance(d.case, dict) and "index" in d.case:
            f = check_object(regen(d.case), d.case)
            if f:
                found.append(f)
    if found:
        return found
    found = oracle(ctx, C.Coverage(), falsy_bias=0.95, n=600, seed=ctx.seed + 7919)
    if found:
        return found
    return oracle(ctx, C.Coverage(), falsy_bias=0.5, n=3000, seed=ctx.seed + 104729)


def replay_batch(case, fmt: str) -> Optional[C.Failing]:
    for c, group in batches(case["seed"], 400, case.get("tier", "quick"), 0.35):
        if c["batch"] == case["batch"]:
            return check_batch(group, c, fmt)
    return None


def replay(case) -> Optional[C.Failing]:
    if "batch" in case:
        return replay_batch(case, "json")
    obj = regen(case)
    for how in CARRIERS:
        f = check_object(obj, case, how)
        if f:
            return f
    return None
