"""C18 — stripped rendering/reading: strip flags (T-gen), generic strip theorems, correspondence in all reader/writer modes."""
from __future__ import annotations

import io
import json
import random
from typing import Any, List, Optional

from vf import common as C
from props import c03

ID = "C18"
LEAN_MODULE = "Basyx.Props.C18"
LEVEL = "proof"
MANIFEST = {
    "text": "Lean theorems for values of ANY depth: the stripped JSON rendering equals the full rendering minus exactly the detachable "
            "members (stripW, directed by the kind), every combination of full/stripped writer and reader yields the value with "
            "exactly the detachable parts removed (two-flag generic round trip), and the kernel-decided obligation that writer flags, "
            "reader flags (regenerated from the `not cls.stripped` guards) and the hand-written spec list coincide class by class. "
            "Tie: differential run of both JSON writers, the document-level strip operation and all four JSON reader modes against the "
            "model; the XML stripped reader is tied by the oracle (relative to the full XML reader)."
            " Also regenerated and proved: _select_encoder/_select_decoder return, for stripped=s, a class whose stripped attribute is s (c18_mode_selection).",
    "note": "as C03; failsafe readers coincide with strict ones on undamaged documents (C09); the XML reader's strip flags are checked "
            "behaviourally (oracle) — its table is hand-written in C04",
    "technique": "Lean 4 proof: generic strip/round-trip theorems over regenerated tables + decide on flag agreement; differential correspondence",
}
ASSUMPTIONS = c03.ASSUMPTIONS + ["spec list of detachable parts: py/vf/meta.py DETACHABLE (from the property statement / Part 2 level=core)"]


def translate(ctx: C.Ctx) -> List[str]:
    from props import c04, c09
    return c03.translate(ctx) + c04.translate(ctx) + c09.translate_select(ctx)


def strip_canon(c: Any) -> Any:
    """Spec-side: remove exactly the detachable parts from a canonical value, at every depth."""
    from vf import meta
    if isinstance(c, dict) and "_c" not in c:
        return c
    if isinstance(c, dict):
        det = set(meta.DETACHABLE.get(c["_c"], []))
        out = {}
        for k, v in c.items():
            if k in det:
                out[k] = [v[0], []] if isinstance(v, list) and v and v[0] in ("set", "list") else None
            else:
                out[k] = strip_canon(v)
        return out
    if isinstance(c, list):
        return [strip_canon(x) for x in c]
    return c


def sdk_docs(obj):
    from basyx.aas.adapter.json import AASToJsonEncoder, StrippedAASToJsonEncoder
    return json.dumps(obj, cls=AASToJsonEncoder), json.dumps(obj, cls=StrippedAASToJsonEncoder)


def decoders():
    from basyx.aas.adapter import json as J
    return {(False, False): J.StrictAASFromJsonDecoder, (False, True): J.AASFromJsonDecoder,
            (True, False): J.StrictStrippedAASFromJsonDecoder, (True, True): J.StrippedAASFromJsonDecoder}


def correspond(ctx: C.Ctx, cov: C.Coverage) -> List[C.Disagreement]:
    c03._quiet()
    from vf import codec, meta
    T = codec.load_table(c03.GEN_JSON)
    n = ctx.budget(100, 2500)
    objs = c03.gen_objects(ctx.seed + 18, n, ctx.tier)
    poly = ["poly", meta.IDENTIFIABLE_CLASSES + meta.SUBMODEL_ELEMENT_CLASSES]
    cov.rule = ("generator as C03; per object: stripped writer output vs model, document-level strip of the full output vs stripped "
                "output, and 2 documents x 4 JSON reader modes vs model. non-trivial = object has a detachable part at depth >= 1; "
                "distinct = by canonical value")
    lines, expect, index = [], [], []
    decs = decoders()
    for i, obj, stats in objs:
        v = T.to_val(obj)
        s_full, s_str = sdk_docs(obj)
        w_full, w_str = T.wire_of_json(poly, json.loads(s_full)), T.wire_of_json(poly, json.loads(s_str))
        lines.append(["enc", True, v]); expect.append(("enc", w_str)); index.append(i)
        lines.append(["stripw", poly, w_full]); expect.append(("enc", w_str)); index.append(i)
        for se, doc in ((False, s_full), (True, s_str)):
            for (sd, failsafe), D in decs.items():
                try:
                    o2 = json.loads(doc, cls=D)
                    r = ["ok", T.sort_unordered(T.to_val(o2))] if not isinstance(o2, dict) else ["err", "dict"]
                except Exception as e:
                    r = ["err", type(e).__name__]
                lines.append(["dec2", se, sd, poly, v]); expect.append(("dec", r)); index.append(i)
        if json.dumps(v).count('["n"') > 3:
            cov.nontrivial.add(C.sha(v))
        cov.evaluations += 1
    # dec2 = dec sd (enc se v): expand through the driver in two passes
    enc_lines = []
    for l in lines:
        if l[0] == "dec2":
            enc_lines.append(["enc", l[1], l[4]])
    enc_out = iter(C.run_model("C03", enc_lines))
    full = []
    for l in lines:
        full.append(["dec", l[2], l[3], next(enc_out)] if l[0] == "dec2" else l)
    out = C.run_model("C03", full)
    dis: List[C.Disagreement] = []
    for k, (m, (what, exp)) in enumerate(zip(out, expect)):
        if what == "enc":
            ok = T.erase_flags(m) == T.erase_flags(exp)
            mm = T.erase_flags(m); exp = T.erase_flags(exp)
        else:
            mm = ["ok", T.sort_unordered(m[1])] if m and m[0] == "ok" else m[:2]
            ok = mm == exp
        if not ok:
            i = index[k]
            dis.append(C.Disagreement(f"stripped {lines[k][0]} {lines[k][1:3] if lines[k][0] == 'dec2' else ''} of generated object #{i}",
                                      {"seed": ctx.seed + 18, "index": i, "depth": 3 if ctx.tier == "quick" else 4},
                                      c03._first_diff(mm, exp), "see model"))
            if len(dis) >= 5:
                break
    cov.samples = [{"stripped": json.loads(sdk_docs(objs[0][1])[1])}]
    return dis


def check_object(obj, case) -> Optional[C.Failing]:
    """Spec-level statement on the implementation (independent of the Lean model and of the generated tables)."""
    c03._quiet()
    from basyx.aas import model
    from basyx.aas.adapter.xml import write_aas_xml_file, read_aas_xml_file
    from vf import canon
    want = strip_canon(canon.canon(obj))
    try:
        s_full, s_str = sdk_docs(obj)
        # (round 8) the mode of a rendering is the `stripped` attribute of the encoder class used for THIS call - also for encoder
        # classes an application (or the HTTP adapter) derives from the SDK's, and whatever the process rendered before
        from basyx.aas.adapter.json import AASToJsonEncoder, StrippedAASToJsonEncoder
        from basyx.aas.adapter import http as _http

        class AppFull(AASToJsonEncoder):
            pass

        class AppStripped(AASToJsonEncoder):
            stripped = True

        class AppFullAgain(StrippedAASToJsonEncoder):
            stripped = False
        derived = [("application subclass of the full encoder", AppFull, s_full), ("application subclass with stripped = True", AppStripped, s_str),
                   ("application subclass of the stripped encoder with stripped = False", AppFullAgain, s_full),
                   ("the HTTP adapter's result encoder", _http.ResultToJsonEncoder, s_full),
                   ("the HTTP adapter's stripped result encoder", _http.StrippedResultToJsonEncoder, s_str)]
        if sum(map(ord, s_full)) % 2:
            derived.reverse()
        for name, enc, expect in derived + [("the full encoder, again", AASToJsonEncoder, s_full), ("the stripped encoder, again", StrippedAASToJsonEncoder, s_str)]:
            got_doc = json.dumps(obj, cls=enc)
            if got_doc != expect:
                return C.Failing(f"strip:json:derived-encoder:{enc.__name__}", f"{type(obj).__name__} rendered with {name} (stripped={enc.stripped}) differs from "
                                 f"the {'stripped' if enc.stripped else 'full'} rendering of the SDK's own encoder", case, got_doc[:300], expect[:300])
        for (sd, failsafe), D in decoders().items():
            for se, doc in ((False, s_full), (True, s_str)):
                o2 = json.loads(doc, cls=D)
                if isinstance(o2, dict):
                    return C.Failing("strip:json:reader-returned-dict", f"reader stripped={sd} failsafe={failsafe} on {'stripped' if se else 'full'} document", case)
                got = canon.canon(o2)
                exp = want if (se or sd) else canon.canon(obj)
                d = canon.diff(exp, got)
                if d:
                    attrs = ".".join(__import__("re").findall(r"\.([a-z_]+)", d.split(":")[0])[-2:])
                    return C.Failing(f"strip:json:{'stripped' if sd else 'full'}-reader:{'stripped' if se else 'full'}-doc:{attrs}",
                                     f"{type(obj).__name__}: reader(stripped={sd}, failsafe={failsafe}) on {'stripped' if se else 'full'} document: {d[:200]}",
                                     case, d)
        if not isinstance(obj, model.Identifiable):
            # a bare element through the XML single-element API (what the HTTP adapter does for level=core): first read in full,
            # then stripped — a reader's mode is a function of the call, not of what was read before in the process
            from basyx.aas.adapter.xml import read_aas_xml_element
            from props import c04
            data = c04.xml_bytes(obj)
            for failsafe in (False, True):
                full = read_aas_xml_element(io.BytesIO(data), c04.constructable(obj), failsafe=failsafe, stripped=False)
                strp = read_aas_xml_element(io.BytesIO(data), c04.constructable(obj), failsafe=failsafe, stripped=True)
                d = canon.diff(strip_canon(canon.canon(full)), canon.canon(strp))
                if d:
                    attrs = ".".join(__import__("re").findall(r"\.([a-z_]+)", d.split(":")[0])[-2:])
                    return C.Failing(f"strip:xml:element:stripped-reader:{attrs}", f"{type(obj).__name__} failsafe={failsafe}: {d[:200]}", case, d)
                d = canon.diff(canon.canon(obj), canon.canon(full))
                if d:
                    return C.Failing("strip:xml:element:full-reader-after-stripped", f"{type(obj).__name__} failsafe={failsafe}: {d[:200]}", case, d)
            return None
        # the file-level JSON API: the mode parameters select the reader (no decoder class passed)
        from basyx.aas.adapter.json import read_aas_json_file, object_store_to_json, write_aas_json_file
        st = model.DictObjectStore([obj])
        # ... and the writer: the same document through a text stream, a binary stream and the string function, in both modes
        for se in (False, True):
            ref_doc = json.loads(object_store_to_json(st, stripped=se))
            for carrier in ("text", "binary", "path-str", "path-bytes", "path-like"):
                if carrier.startswith("path"):
                    # (round 5) the argument forms of `file`: a path given as str, bytes or os.PathLike; the file exists already
                    import os, pathlib, tempfile
                    with tempfile.TemporaryDirectory(prefix="c18-") as td:
                        fn = os.path.join(td, "doc.json")
                        with open(fn, "w") as fh:
                            fh.write("{}" + " " * 5000)
                        arg = fn if carrier == "path-str" else os.fsencode(fn) if carrier == "path-bytes" else pathlib.Path(fn)
                        write_aas_json_file(arg, st, stripped=se)
                        with open(fn, "rb") as fh:
                            raw = fh.read()
                        # ... and read from the path in the matching mode, compared with the stream reader below
                        via_path = list(read_aas_json_file(arg, failsafe=False, stripped=se))
                        if len(via_path) != 1 or canon.diff(canon.canon(via_path[0]), canon.canon(
                                next(iter(read_aas_json_file(io.BytesIO(raw), failsafe=False, stripped=se))))):
                            return C.Failing(f"strip:json:file-api:reader:{carrier}:{'stripped' if se else 'full'}",
                                             f"read_aas_json_file({carrier}, stripped={se}) differs from reading the same bytes from a stream", case)
                else:
                    buf2 = io.StringIO() if carrier == "text" else io.BytesIO()
                    write_aas_json_file(buf2, st, stripped=se)
                    raw = buf2.getvalue()
                got_doc = json.loads(raw if isinstance(raw, str) else raw.decode("utf-8"))
                if got_doc != ref_doc:
                    d = c03._first_diff(got_doc, ref_doc)
                    return C.Failing(f"strip:json:file-api:writer:{carrier}:{'stripped' if se else 'full'}",
                                     f"write_aas_json_file({carrier} stream, stripped={se}) differs from object_store_to_json(stripped={se}): {str(d)[:160]}", case)
        for se in (False, True):
            doc = object_store_to_json(st, stripped=se)
            for sd in (False, True):
                for failsafe in (False, True):
                    got = list(read_aas_json_file(io.StringIO(doc), failsafe=failsafe, stripped=sd))
                    if len(got) != 1:
                        return C.Failing("strip:json:file-api:count", f"{len(got)} objects read (stripped={sd}, failsafe={failsafe})", case)
                    exp = want if (se or sd) else canon.canon(obj)
                    d = canon.diff(exp, canon.canon(got[0]))
                    if d:
                        attrs = ".".join(__import__("re").findall(r"\.([a-z_]+)", d.split(":")[0])[-2:])
                        return C.Failing(f"strip:json:file-api:{'stripped' if sd else 'full'}-reader:{'stripped' if se else 'full'}-doc:{attrs}",
                                         f"{type(obj).__name__}: read_aas_json_file(stripped={sd}, failsafe={failsafe}) on "
                                         f"{'stripped' if se else 'full'} document: {d[:200]}", case, d)
        # XML: the stripped reader vs the full reader with the parts removed
        buf = io.BytesIO()
        write_aas_xml_file(buf, model.DictObjectStore([obj]))
        for failsafe in (False, True):
            buf.seek(0)
            full = list(read_aas_xml_file(buf, failsafe=failsafe, stripped=False))
            buf.seek(0)
            strp = list(read_aas_xml_file(buf, failsafe=failsafe, stripped=True))
            if len(full) != 1 or len(strp) != 1:
                return C.Failing("strip:xml:count", f"full reader {len(full)} objects, stripped reader {len(strp)}", case)
            d = canon.diff(strip_canon(canon.canon(full[0])), canon.canon(strp[0]))
            if d:
                attrs = ".".join(__import__("re").findall(r"\.([a-z_]+)", d.split(":")[0])[-2:])
                return C.Failing(f"strip:xml:stripped-reader:{attrs}", f"{type(obj).__name__} failsafe={failsafe}: {d[:200]}", case, d)
    except Exception as e:
        return C.Failing(f"strip:raises:{type(e).__name__}", f"{type(obj).__name__}: {e!r}"[:300], case)
    return None


def oracle(ctx: C.Ctx, cov: C.Coverage, n: Optional[int] = None, seed: Optional[int] = None) -> List[C.Failing]:
    out, sigs = [], set()
    seed = ctx.seed + 18 if seed is None else seed
    depth = 3 if ctx.tier == "quick" else 4
    for i, obj, _ in c03.gen_objects(seed, n or ctx.budget(120, 3000), ctx.tier):
        f = check_object(obj, {"seed": seed, "index": i, "depth": depth})
        if f and f.sig not in sigs:
            sigs.add(f.sig); out.append(f)
    return out


def search(ctx: C.Ctx, disagreements, broken) -> List[C.Failing]:
    found = []
    for d in disagreements:
        if isinstance(d.case, dict) and "index" in d.case:
            f = check_object(c03.regen(d.case), d.case)
            if f:
                found.append(f)
    return found or oracle(ctx, C.Coverage(), n=1500, seed=ctx.seed + 7919)


def replay(case) -> Optional[C.Failing]:
    return check_object(c03.regen(case), case)
