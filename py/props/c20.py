"""C20 — compliance tool: step scripts + catch coverage (T-gen), AASDataChecker coverage table (T-gen), correspondence and oracle."""
from __future__ import annotations

import copy
import io
import json
import logging
import os
import random
import shutil
import tempfile
from typing import Any, Dict, List, Optional, Tuple

from vf import common as C
from props import c03, c05

ID = "C20"
LEAN_MODULE = "Basyx.Props.C20"
LEVEL = "proof"
MANIFEST = {
    "text": "Lean theorems: the overall status is the worst step status for every step list; every check function yields a complete "
            "step report for every combination of outcomes of its external calls (open, parse, validate, read, compare), given the "
            "kernel-decided obligation that each call site's try blocks (REGENERATED from the three compliance_check_*.py modules) catch "
            "every exception the call can raise on an arbitrary file; and, given the kernel-decided completeness of AASDataChecker's "
            "coverage table (REGENERATED from examples/data/_helper.py), a passing comparison implies the two values are identical at "
            "every depth — any single differing attribute makes it fail; collections whose members are matched by key (qualifiers, "
            "extensions, members of submodels / collections / entities, the identifiables of the two files) compare equal iff one is a "
            "rearrangement of the other, for collections of any size, and the verdict never depends on the order of either side "
            "(c20_element_order_irrelevant, c20_unordered_verdict; unique keys per collection are C01's / C13's invariant). Tie: real check functions on valid / damaged / garbage files "
            "vs the script model; real AASDataChecker verdicts on equal pairs and single-attribute mutations vs the coverage model, and on independently shuffled keyed collections with a "
            "missing / extra / re-keyed / changed member vs the keyed-matching model.",
    "note": "PARTIAL for arbitrary byte strings: which exceptions json / lxml / zipfile raise on them is the SPEC column `raisable` "
            "(exercised by the garbage stream, not proved); 'SDK-written files pass' rests on C05/C09; unordered SubmodelElementLists "
            "cannot be compared by the checker (known finding)",
    "technique": "Lean 4 proof: step-script totality from decided catch coverage, worst-status fold, checker soundness from decided "
                 "attribute coverage, permutation invariance and exactness of the keyed matching (induction over lists, List.Perm); differential correspondence; mutation oracle",
}
ASSUMPTIONS = [
    "exception kinds of json.load / etree.parse / AASXReader / read_into on arbitrary files are the spec column `raisable` of the script table",
    "Python's exception hierarchy as listed in Model/Compliance.lean `parents`",
    "`==` of Key, Reference, AdministrativeInformation, SpecificAssetId, LangStringSet is structural over the attributes the table lists as eq",
]
GEN_LEAN = os.path.join(C.LEAN_DIR, "Basyx", "Gen", "Compliance.lean")
GEN_JSON = os.path.join(C.LEAN_DIR, "Basyx", "Gen", "compliance.json")


def translate(ctx: C.Ctx) -> List[str]:
    from translate import compliance_tables as K
    out = c03.translate(ctx)
    data = K.build(C.REPO)
    jt = json.load(open(c03.GEN_JSON))
    c03.write_if_changed(GEN_LEAN, K.emit_lean(data, jt))
    c03.write_if_changed(GEN_JSON, json.dumps(data, indent=1))
    return out + [f"checker table: {p}" for p in data["problems"]]


def _loud():
    logging.disable(logging.NOTSET)


def tool():
    from aas_compliance_tool import compliance_check_json as cj, compliance_check_xml as cx, compliance_check_aasx as ca
    from aas_compliance_tool.state_manager import ComplianceToolStateManager, Status
    return cj, cx, ca, ComplianceToolStateManager, Status


# ----------------------------------------------------------------------------------------------- input files

def write_inputs(d: str, seed: int, n: int) -> List[Tuple[str, str, str]]:
    """(path, format, category) — SDK-written valid files, damaged documents, garbage"""
    from basyx.aas import model
    from basyx.aas.adapter.json import write_aas_json_file
    from basyx.aas.adapter.xml import write_aas_xml_file
    from basyx.aas.adapter import aasx
    rng = random.Random(f"C20files:{seed}")
    out = []
    objs = c05.spec_objects(seed, n, 3)
    for i, obj in objs:
        st = model.DictObjectStore([obj])
        pj, px, pa = os.path.join(d, f"v{i}.json"), os.path.join(d, f"v{i}.xml"), os.path.join(d, f"v{i}.aasx")
        write_aas_json_file(pj, st)
        write_aas_xml_file(px, st)
        out += [(pj, "json", "valid"), (px, "xml", "valid")]
        if isinstance(obj, model.AssetAdministrationShell) or i % 3 == 0:
            aas = obj if isinstance(obj, model.AssetAdministrationShell) else model.AssetAdministrationShell(
                model.AssetInformation(global_asset_id="urn:g"), f"urn:aas:{i}",
                submodel={model.ModelReference.from_referable(obj)} if isinstance(obj, model.Submodel) else set())
            st2 = model.DictObjectStore({obj, aas})
            with aasx.AASXWriter(pa) as w:
                w.write_aas(aas.id, st2, aasx.DictSupplementaryFileContainer(), write_json=bool(i % 2))
            # (data the checker cannot compare even with itself - NaN, order-irrelevant lists: the recorded finding - is no
            # subject of the self-comparison clause)
            out.append((pa, "aasx", "valid" if not has_unordered_list_or_nan(obj) else "valid:not-self-comparable"))
        # damaged variants
        raw = open(pj, "rb").read()
        k = rng.randrange(len(raw))
        for tag, data in (("trunc", raw[:k]), ("flip", raw[:k] + bytes([raw[k] ^ 0x5A]) + raw[k + 1:]), ("nonutf8", raw[:k] + b"\xff\xfe" + raw[k:])):
            p = os.path.join(d, f"d{i}-{tag}.json")
            open(p, "wb").write(data); out.append((p, "json", "damaged:" + tag))
        rawx = open(px, "rb").read()
        k = rng.randrange(len(rawx))
        for tag, data in (("trunc", rawx[:k]), ("flip", rawx[:k] + bytes([rawx[k] ^ 0x5A]) + rawx[k + 1:])):
            p = os.path.join(d, f"d{i}-{tag}.xml")
            open(p, "wb").write(data); out.append((p, "xml", "damaged:" + tag))
    # (round 6) SDK-written packages with File elements of every value form: a file that is in the package, an absolute URI, a
    # network-path reference, no value - at the top and inside a collection, with a JSON and with an XML payload
    import io as _io
    for wj in (False, True):
        fc = aasx.DictSupplementaryFileContainer()
        name = fc.add_file("/aasx/files/manual.pdf", _io.BytesIO(b"%PDF-1.4 vf"), "application/pdf")
        fls = lambda pre: [model.File(pre + "local", "application/pdf", name), model.File(pre + "uri", "application/pdf", "https://example.org/manual.pdf"),
                           model.File(pre + "net", "application/pdf", "//host/share/manual.pdf"), model.File(pre + "none", "application/pdf", None)]  # noqa: E731
        smf = model.Submodel("urn:vf:files", fls("f") + [model.SubmodelElementCollection("c", fls("g"))])
        shf = model.AssetAdministrationShell(model.AssetInformation(global_asset_id="urn:g"), "urn:vf:files:aas",
                                             submodel={model.ModelReference.from_referable(smf)})
        pf = os.path.join(d, f"vfiles-{'json' if wj else 'xml'}.aasx")
        with aasx.AASXWriter(pf) as w:
            w.write_aas(shf.id, model.DictObjectStore([smf, shf]), fc, write_json=wj)
        out.append((pf, "aasx", "valid"))
    # valid ZIP containers whose OPC parts are damaged one by one (content types stream, relationships, payload)
    import zipfile
    src_pkgs = [pth for pth, f, c in out if f == "aasx" and c.startswith("valid")][:2]
    for pi, src in enumerate(src_pkgs):
        with zipfile.ZipFile(src) as z:
            members = [(zi, z.read(zi.filename)) for zi in z.infolist()]
        for mi, (zi, data) in enumerate(members):
            for tag, newdata in (("empty", b""), ("trunc", data[: len(data) // 2]), ("junk", b"<not-xml"), ("drop", None)):
                p = os.path.join(d, f"z{pi}-{mi}-{tag}.aasx")
                with zipfile.ZipFile(p, "w", zipfile.ZIP_DEFLATED) as z2:
                    for zj, dj in members:
                        if zj.filename == zi.filename:
                            if newdata is None:
                                continue
                            z2.writestr(zj.filename, newdata)
                        else:
                            z2.writestr(zj.filename, dj)
                out.append((p, "aasx", f"damaged-part:{tag}"))
    garbage = [b"", b"{", b"[1,2]", b'{"submodels": 5}', b'{"submodels": [{"modelType": "Submodel"}]}', b"\xff\xfe\x00\x01", b"<a>", b"<a/>",
               b'<?xml version="1.0"?><environment xmlns="https://admin-shell.io/aas/3/0"><submodels><submodel/></submodels></environment>',
               b"PK\x03\x04garbage", bytes(rng.randrange(256) for _ in range(64)),
               # (session 6, found by the thorough tier) bytes that are invalid in the document's encoding: lxml reports them as OSError when it reads a FILE
               b"<a>\xff</a>", b'<?xml version="1.0" encoding="UTF-8"?><a x="\xff"/>']
    for j, g in enumerate(garbage):
        for fmt in ("json", "xml", "aasx"):
            p = os.path.join(d, f"g{j}.{fmt}")
            open(p, "wb").write(g); out.append((p, fmt, "garbage"))
    # (round 8) well-formed JSON files nested deeper than the interpreter follows (collections within collections), written as text
    leaf_ = b'{"modelType": "Property", "idShort": "p", "valueType": "xs:int", "value": "1"}'
    for depth_ in (300, 2000, 100000):
        p = os.path.join(d, f"deep{depth_}.json")
        open(p, "wb").write(b'{"submodels": [{"modelType": "Submodel", "id": "urn:deep", "submodelElements": ['
                            + b'{"modelType": "SubmodelElementCollection", "idShort": "c", "value": [' * depth_ + leaf_ + b"]}" * depth_ + b"]}]}")
        out.append((p, "json", f"deep-nesting:{depth_}"))
    out += [(os.path.join(d, "does-not-exist.json"), "json", "missing"), (os.path.join(d, "does-not-exist.xml"), "xml", "missing"),
            (os.path.join(d, "does-not-exist.aasx"), "aasx", "missing")]
    return out


def run_check(fmt: str, which: str, path: str, path2: Optional[str] = None):
    """run one real check function; -> ("ok", [(step, status)], overall) | ("raise", exception class name)"""
    cj, cx, ca, SM, Status = tool()
    _loud()
    mod = {"json": cj, "xml": cx, "aasx": ca}[fmt]
    sm = SM()
    try:
        if which == "schema":
            mod.check_schema(path, sm)
        elif which == "deserialization":
            mod.check_deserialization(path, sm)
        else:
            getattr(mod, f"check_{fmt}_files_equivalence")(path, path2, sm)
    except Exception as e:
        return ("raise", type(e).__name__, str(e)[:120])
    finally:
        for name in ("compliance_check", "basyx.aas.adapter.json.json_deserialization", "basyx.aas.adapter.xml.xml_deserialization",
                     "basyx.aas.adapter.aasx"):
            lg = logging.getLogger(name)
            for h in list(lg.handlers):
                lg.removeHandler(h)
    return ("ok", [(s.name, s.status.name) for s in sm.steps], sm.status.name)


def observed_outcomes(fmt: str, which: str, path: str) -> List[Any]:
    """the outcomes of the external calls of a check function on this file, obtained by making the same calls directly"""
    from lxml import etree
    _loud()
    outs: List[Any] = []

    class Cap(logging.Handler):
        def __init__(self):
            super().__init__(logging.INFO)
            self.n = 0

        def emit(self, r):
            if r.levelno >= logging.INFO:
                self.n += 1

    def exc(e):
        return ["raises", type(e).__name__]
    if fmt in ("json", "xml"):
        try:
            f = open(path, "r" if fmt == "json" else "rb", **({"encoding": "utf-8-sig"} if fmt == "json" else {}))
        except IOError as e:
            return [exc(e)]
        outs.append(["ok", False])
        with f:
            if which == "schema" and fmt == "json":
                try:
                    doc = json.load(f)
                except Exception as e:
                    return outs + [exc(e)]
                outs.append(["ok", False])
                try:
                    c05.validators()["json"].validate(doc) if False else __import__("jsonschema").validate(
                        instance=doc, schema=json.load(open(os.path.join(C.REPO, "compliance_tool/aas_compliance_tool/schemas/aasJSONSchema.json"))))
                except Exception as e:
                    return outs + [exc(e)]
                return outs + [["ok", False]]
            if which == "schema" and fmt == "xml":
                try:
                    etree.parse(f, etree.XMLParser(remove_blank_text=True, remove_comments=True))
                except Exception as e:
                    return outs + [exc(e)]
                outs.append(["ok", False])
                f.seek(0)
                try:
                    schema = etree.XMLSchema(file=os.path.join(C.REPO, "compliance_tool/aas_compliance_tool/schemas/aasXMLSchema.xsd"))
                    etree.parse(f, parser=etree.XMLParser(schema=schema))
                except Exception as e:
                    return outs + [exc(e)]
                return outs + [["ok", False]]
            cap = Cap()
            name = "basyx.aas.adapter.json.json_deserialization" if fmt == "json" else "basyx.aas.adapter.xml.xml_deserialization"
            lg = logging.getLogger(name)
            lg.addHandler(cap); old = lg.level; lg.setLevel(logging.INFO)
            try:
                if fmt == "json":
                    from basyx.aas.adapter.json import read_aas_json_file
                    read_aas_json_file(f, failsafe=True)
                else:
                    from basyx.aas.adapter.xml import read_aas_xml_file
                    read_aas_xml_file(f, failsafe=True)
            except Exception as e:
                return outs + [exc(e)]
            finally:
                lg.removeHandler(cap); lg.setLevel(old)
            return outs + [["ok", cap.n > 0]]
    return outs


def correspond(ctx: C.Ctx, cov: C.Coverage) -> List[C.Disagreement]:
    _loud()
    data = json.load(open(GEN_JSON))
    d = tempfile.mkdtemp(prefix="verif-c20-")
    dis: List[C.Disagreement] = []
    try:
        files = write_inputs(d, ctx.seed, ctx.budget(8, 120))
        lines, expect, meta_ = [], [], []
        for path, fmt, cat in files:
            if fmt == "aasx":
                continue
            for which in ("schema", "deserialization"):
                fn = {"schema": ["check_schema", "_check_schema"], "deserialization": ["check_deserialization"]}[which]
                phases = [p for f in fn for p in data["scripts"].get(f"{fmt}.{f}", [])]
                outs = observed_outcomes(fmt, which, path)
                lines.append(["script", [[p["step"], p["call"], p["raisable"], p["caught"], p["failsReport"]] for p in phases], outs])
                expect.append(run_check(fmt, which, path)); meta_.append((os.path.basename(path), fmt, which, cat, outs))
                cov.evaluations += 1
                cov.hit(f"{fmt}:{which}:{cat.split(':')[0]}")
                cov.nontrivial.add(f"{fmt}:{which}:{cat}:{json.dumps(outs)}")
        # checker: equal pairs and single-attribute mutations
        from vf import codec
        T = codec.load_table(c03.GEN_JSON)
        pairs = checker_pairs(ctx.seed, ctx.budget(300, 4000), all_zoo=ctx.tier != "quick")
        for a, b, what in pairs:
            va, vb = T.sort_unordered(T.to_val(a)), T.sort_unordered(T.to_val(b))
            lines.append(["checkeq", va, vb]); expect.append(("verdict", real_verdict(a, b))); meta_.append(("pair", what))
            lines.append(["checkeq", vb, va]); expect.append(("verdict", real_verdict(b, a))); meta_.append(("pair", what))
            cov.evaluations += 1
            cov.hit("checker:" + ("equal" if what is None else "mutated"))
            if what:
                cov.nontrivial.add(f"{what[0]}.{what[1]}")
        # keyed (unordered) collections: members matched by key; order, missing / extra / re-keyed / changed members
        for kind, lc, ha, hb, ma, mb, what in keyed_cases(ctx.seed, ctx.budget(160, 3000)):
            for x, y in ((ha, hb), (hb, ha)):
                lines.append(keyed_line(T, kind, lc, x, y)); expect.append(("verdict", keyed_real(kind, x, y))); meta_.append(("keyed", (kind, what)))
            cov.evaluations += 1
            cov.hit("keyed:" + kind + ":" + ("same" if all(w.startswith("order") or w == "same" for w in what.split(",")) else "differs"))
            cov.nontrivial.add(f"keyed:{kind}:{what}:{len(ma)}:{len(mb)}")
        # overall status: EVERY list of up to 4 step statuses, through the public state manager API
        for sts in status_lists(4 if ctx.tier == "quick" else 6):
            lines.append(["overall", [STATUS_NAMES[s] for s in sts]]); expect.append(("overall", STATUS_NAMES[real_overall(sts)])); meta_.append(("overall", sts))
            cov.evaluations += 1
            cov.hit("overall")
        out = C.run_model("C20", lines)
        for m, e, mt in zip(out, expect, meta_):
            if e[0] == "overall":
                if m != e[1]:
                    dis.append(C.Disagreement(f"overall status of steps {list(mt[1])}", {"statuses": list(mt[1])}, m, e[1]))
            elif e[0] == "verdict":
                if m != e[1]:
                    dis.append(C.Disagreement(f"AASDataChecker verdict on {'equal pair' if mt[1] is None else ('keyed collection ' if mt[0] == 'keyed' else 'mutation of ') + str(mt[1])}",
                                              {"pair": str(mt[1])}, m, e[1]))
            elif e[0] == "raise":
                if not (m[0] == "raise" and m[1] == e[1]):
                    dis.append(C.Disagreement(f"{mt[1]} {mt[2]} check on {mt[0]} ({mt[3]})", {"file": mt[0], "outs": mt[4]}, m, list(e[:2])))
            else:
                steps = [[s.strip("'"), st] for s, st in (m[1] if m[0] == "ok" else [])]
                real = [[s, {"SUCCESS": "success", "FAILED": "failed", "NOT_EXECUTED": "notExecuted", "SUCCESS_WITH_WARNINGS": "warnings"}[st]] for s, st in e[1]]
                if m[0] != "ok" or [x[1] for x in steps] != [x[1] for x in real]:
                    dis.append(C.Disagreement(f"{mt[1]} {mt[2]} check on {mt[0]} ({mt[3]})", {"file": mt[0], "outs": mt[4]}, m, real))
            if len(dis) >= 5:
                break
        cov.rule = ("files: SDK-written valid JSON/XML documents of generated identifiables, truncated / byte-flipped / non-UTF-8 variants, "
                    "fixed garbage and missing paths; each through check_schema and check_deserialization (real step list or exception vs "
                    "script model fed with the outcomes of the same external calls made directly). Checker: equal pairs and one changed "
                    "attribute at a random node; real verdict vs coverage model. Keyed collections (submodel elements, qualifiers, collection members, "
                    "identifiables of a store; 0-6 members): both sides shuffled independently, optionally one member missing / extra / re-keyed / "
                    "changed at any depth, both argument orders; real verdict vs checkKeyed fed with the members in the holders' iteration order. non-trivial = distinct (format, check, category, "
                    "outcomes) resp. distinct (class, attribute) mutated")
        cov.samples = [list(meta_[0][:4]), str(pairs[0][2])]
    finally:
        shutil.rmtree(d, ignore_errors=True)
    return dis


STATUS_NAMES = {"SUCCESS": "success", "SUCCESS_WITH_WARNINGS": "warnings", "FAILED": "failed", "NOT_EXECUTED": "notExecuted"}


def status_lists(maxlen: int):
    import itertools
    for L in range(0, maxlen + 1):
        yield from itertools.product(list(STATUS_NAMES), repeat=L)


def real_overall(sts) -> str:
    from aas_compliance_tool.state_manager import ComplianceToolStateManager, Status
    m = ComplianceToolStateManager()
    for i, s in enumerate(sts):
        m.add_step(f"step {i}")
        m.set_step_status(Status[s])
    return m.status.name


def check_overall(sts) -> Optional[C.Failing]:
    """the statement itself: the overall status is the worst step status (order of the Status enumeration), SUCCESS if none"""
    order = list(STATUS_NAMES)
    want = max(sts, key=order.index) if sts else "SUCCESS"
    got = real_overall(sts)
    if got != want:
        return C.Failing(f"status:overall-not-worst:{want}->{got}", f"steps {list(sts)}: overall status {got}, worst step status {want}",
                         {"statuses": list(sts)}, got, want)
    return None


# ----------------------------------------------------------------------------------------------- checker pairs

def mutate_attr(obj, rng) -> Optional[Tuple[str, str]]:
    """change ONE metamodel attribute of ONE node (at any depth) in place; returns (class, attribute)"""
    from vf import meta
    nodes = []

    def walk(o):
        try:
            cls = meta.class_name(o)
        except TypeError:
            return
        nodes.append((o, cls))
        for attr, kind in meta.META[cls]:
            v = getattr(o, attr)
            k = kind[1:] if kind[0] == "o" else kind
            head = k.split(":")[0]
            if v is None:
                continue
            if head == "node":
                walk(v)
            elif head in ("list", "list1", "set", "set1") and "node" in k:
                for x in v:
                    walk(x)
            elif head in ("elems", "elems_ordered"):
                for x in v:
                    walk(x)
    walk(obj)
    rng.shuffle(nodes)
    from basyx.aas import model
    r = rng.random()
    if r < 0.3:
        # rename a contained element (its idShort is also the attribute children are matched by); the kind of container is
        # chosen first so that operation variables, statements and annotations are renamed as often as plain children
        by_parent: Dict[str, list] = {}
        for o, cls in nodes:
            if isinstance(o, model.Referable) and o.parent is not None and not isinstance(o.parent, model.SubmodelElementList) \
                    and not isinstance(o, model.Identifiable):
                by_parent.setdefault(type(o.parent).__name__, []).append((o, cls))
        order = rng.sample(sorted(by_parent), len(by_parent))
        order.sort(key=lambda pc: pc == "Submodel")          # the top level last: it is there in every object
        for pc in order:
            o, cls = rng.choice(by_parent[pc])
            try:
                o.id_short = (o.id_short or "x")[:40] + "Renamed"
                return f"{pc}>{cls}", "id_short"
            except Exception:
                continue
    elif r < 0.5:
        w = mutate_sid(nodes, rng, None)
        if w:
            return w
    elif r < 0.62:
        # an optional attribute that is set on one side is absent on the other
        cands = []
        for o, cls in nodes:
            if cls in ("Key", "ExternalReference", "ModelReference", "SpecificAssetId"):
                continue
            for attr, kind in meta.META[cls]:
                if kind[0] == "o" and getattr(o, attr, None) is not None and attr not in ("id_short",):
                    cands.append((o, cls, attr))
        rng.shuffle(cands)
        for o, cls, attr in cands:
            try:
                setattr(o, attr, None)
                if getattr(o, attr) is None:
                    return cls, attr + "=None"
            except Exception:
                continue
    elif r < 0.76:
        # one member of a collection is missing on one side
        cands = []
        for o, cls in nodes:
            if cls in ("Key", "ExternalReference", "ModelReference", "SpecificAssetId"):
                continue
            for attr, kind in meta.META[cls]:
                k = kind[1:] if kind[0] == "o" else kind
                head = k.split(":")[0].split("=")[0]
                v = getattr(o, attr, None)
                if head in ("list", "list1", "set", "set1", "elems", "elems_ordered") and v is not None and len(v) >= (2 if head.endswith("1") else 1):
                    cands.append((o, cls, attr, v))
        rng.shuffle(cands)
        for o, cls, attr, v in cands:
            try:
                item = rng.choice(list(v))
                if hasattr(v, "discard"):
                    v.discard(item)
                elif hasattr(v, "remove"):
                    v.remove(item)
                else:
                    continue
                return cls, attr + "-item"
            except Exception:
                continue
    elif r < 0.82:
        # an element is of the sub- resp. superclass on the other side (relationship vs annotated relationship)
        for o, cls in nodes:
            if cls in ("RelationshipElement", "AnnotatedRelationshipElement") and o.parent is not None \
                    and not isinstance(o.parent, model.SubmodelElementList):
                par = o.parent
                owner = next((st for st in par.namespace_element_sets if o in st), None)
                if owner is None:
                    continue
                kw = dict(first=o.first, second=o.second, display_name=o.display_name, category=o.category, description=o.description,
                          semantic_id=o.semantic_id, supplemental_semantic_id=list(o.supplemental_semantic_id))
                try:
                    owner.discard(o)
                    new = (model.RelationshipElement if cls == "AnnotatedRelationshipElement" else model.AnnotatedRelationshipElement)(o.id_short, **kw)
                    owner.add(new)
                    return cls, "class"
                except Exception:
                    continue
    for o, cls in nodes:
        if cls in ("Key", "ExternalReference", "ModelReference", "SpecificAssetId"):
            continue                         # immutable value objects: changed through their owner's attribute below
        attrs = list(meta.META[cls])
        rng.shuffle(attrs)
        for attr, kind in attrs:
            v = getattr(o, attr)
            k = kind[1:] if kind[0] == "o" else kind
            head = k.split(":")[0].split("=")[0]
            try:
                if head == "str" and attr not in ("id", "id_short", "type", "name") and isinstance(v, str):
                    setattr(o, attr, (v + "X") if len(v) < 60 else "X"); return cls, attr
                if head == "bool" and attr != "order_relevant":
                    setattr(o, attr, not v); return cls, attr
                if head == "typed" and type(v).__name__ in ("str", "String", "AnyURI"):
                    setattr(o, attr, type(v)(str(v) + "1")); return cls, attr
                if head == "typed" and not isinstance(v, bool) and bump(v) is not None:
                    setattr(o, attr, bump(v)); return cls, attr + ":" + type(v).__name__
                if head == "typed" and isinstance(v, bool):
                    setattr(o, attr, not v); return cls, attr
                if head == "lss" and v is not None:
                    lang = list(v.keys())[0]
                    v[lang] = v[lang][:5] + "Z"; return cls, attr
                if head == "enum" and attr in ("asset_kind", "state"):
                    setattr(o, attr, [m for m in type(v) if m is not v][0]); return cls, attr
                if head == "enum" and cls == "Qualifier" and attr == "kind":
                    setattr(o, attr, [m for m in type(v) if m is not v][0]); return cls, attr
                if head == "node" and arg_is_ref(kind) and v is not None and not kind.startswith("node"):
                    setattr(o, attr, None); return cls, attr
            except Exception:
                continue
    return None


def bump(v):
    """the nearest different value of the same type (last digit / last unit), or None"""
    import datetime
    import decimal
    import math
    try:
        if isinstance(v, bool):
            return not v
        if isinstance(v, int):
            for w in (int(v) + 1, int(v) - 1):
                try:
                    return type(v)(w)
                except Exception:
                    continue
            return None
        if isinstance(v, float):
            if math.isnan(v) or math.isinf(v):
                return type(v)(1.0)
            return type(v)(math.nextafter(v, math.inf))
        if isinstance(v, decimal.Decimal):
            if not v.is_finite():
                return None
            sign, digits, exp = v.as_tuple()
            last = (digits[-1] + 1) % 10
            return decimal.Decimal((sign, digits[:-1] + (last,), exp))     # exact: only the last stored digit differs
        if isinstance(v, (bytes, bytearray)):
            return type(v)(bytes(v) + b"\x01")
        if isinstance(v, datetime.datetime):
            return v + datetime.timedelta(microseconds=1) if v.year < 9999 else v - datetime.timedelta(microseconds=1)
        if isinstance(v, datetime.time):
            return v.replace(microsecond=(v.microsecond + 1) % 1000000)
        if hasattr(v, "normalized") and hasattr(v, "microseconds"):
            return type(v)(years=v.years, months=v.months, days=v.days, hours=v.hours, minutes=v.minutes, seconds=v.seconds,
                           microseconds=v.microseconds + (1 if v.microseconds >= 0 and v.seconds >= 0 and v.years >= 0 and v.months >= 0
                                                          and v.days >= 0 and v.hours >= 0 and v.minutes >= 0 else -1))
    except Exception:
        return None
    return None


SID_ATTRS = ["name", "value", "external_subject_id", "semantic_id", "supplemental_semantic_id"]


def mutate_sid(nodes, rng, which: Optional[str]) -> Optional[Tuple[str, str]]:
    """one attribute of one specific asset id (an immutable value: replaced in its owner's list)"""
    from basyx.aas import model
    for o, cls in nodes:
        sids = getattr(o, "specific_asset_id", None)
        if cls in ("AssetInformation", "Entity") and sids:
            order = list(range(len(sids)))
            rng.shuffle(order)
            for k in order:
                a = sids[k]
                ref = model.ExternalReference((model.Key(model.KeyTypes.GLOBAL_REFERENCE, "urn:vf:changed"),))
                w = which or rng.choice(SID_ATTRS)
                if w == "supplemental_semantic_id" and a.semantic_id is None:
                    continue
                kw = dict(name=a.name, value=a.value, external_subject_id=a.external_subject_id, semantic_id=a.semantic_id,
                          supplemental_semantic_id=list(a.supplemental_semantic_id))
                if w in ("name", "value"):
                    kw[w] = kw[w][:50] + "X"
                elif w == "supplemental_semantic_id":
                    kw[w] = kw[w] + [ref]
                elif w == "semantic_id" and kw["supplemental_semantic_id"]:
                    kw[w] = ref                      # cannot be unset while supplemental ids are present (AASd-118)
                else:
                    kw[w] = ref if kw[w] != ref else None
                try:
                    sids[k] = model.SpecificAssetId(**kw)
                    return f"{cls}>SpecificAssetId", w
                except Exception:
                    continue
    return None


def sid_nodes(obj):
    from vf import meta
    out = []

    def walk(o):
        try:
            cls = meta.class_name(o)
        except TypeError:
            return
        out.append((o, cls))
        for attr, kind in meta.META[cls]:
            v = getattr(o, attr)
            k = kind[1:] if kind[0] == "o" else kind
            head = k.split(":")[0]
            if v is None:
                continue
            if head == "node":
                walk(v)
            elif head in ("list", "list1", "set", "set1", "elems", "elems_ordered"):
                for x in v:
                    walk(x)
    walk(obj)
    return out


def arg_is_ref(kind: str) -> bool:
    return kind.endswith(":Reference")


def make_obj(tag: str):
    from vf import gen
    g = gen.Gen(random.Random(tag), max_depth=3)
    g.no_nan = True
    k = sum(map(ord, tag)) % 5
    return g.submodel() if k <= 2 else g.shell() if k == 3 else g.concept_description()


def has_unordered_list_or_nan(obj) -> bool:
    from basyx.aas import model
    from vf import canon
    s = json.dumps(canon.canon(obj), default=str)
    if "'nan'" in s or '"nan"' in s:
        return True
    return '"order_relevant": ["b", false]' in s


_PAIRS: Dict[Any, Any] = {}
_VERDICTS: Dict[Any, Any] = {}


def checker_pairs(seed: int, n: int, all_zoo: bool = False):
    """memoised per process: the pairs are only read by the checks"""
    key = (seed, n, all_zoo)
    if key not in _PAIRS:
        _PAIRS[key] = _checker_pairs(seed, n, all_zoo)
    return _PAIRS[key]


def _checker_pairs(seed: int, n: int, all_zoo: bool = False):
    from vf import canon
    rng = random.Random(f"C20pairs:{seed}")
    out = []
    # directed: every attribute of a specific asset id, below a shell's asset information and below an entity
    for owner in ("AssetInformation", "Entity"):
        for which in SID_ATTRS:
            for t in range(60):
                tag = f"C20sid:{seed}:{owner}:{which}:{t}"
                a, b = make_obj(tag), make_obj(tag)
                if has_unordered_list_or_nan(a):
                    continue
                w = mutate_sid([x for x in sid_nodes(b) if x[1] == owner], rng, which)
                if w and canon.diff(canon.canon(a), canon.canon(b)) is not None:
                    out.append((a, b, w))
                    break
    # directed: every edge value of every XSD type (the zoo) changed in its last digit / unit
    from vf import gen as _gen
    def _zoo():
        g_ = _gen.Gen(random.Random("C20zoo"), max_depth=3)
        g_.no_nan = True                     # NaN != NaN: two files with a NaN never compare equal (neutral zone)
        return g_.zoo_submodel()
    za = _zoo()
    out.append((_zoo(), _zoo(), None))       # the zoo compares equal to itself
    k_ = 0
    for el in list(za.submodel_element):
        if type(el).__name__ == "Property" and bump(el.value) is not None:
            k_ += 1
            if not all_zoo and k_ % 16 != seed % 16 and type(el.value).__name__ != "Decimal":
                continue                      # an eighth of them per seed (all of them over eight seeds; every one in the thorough tier)
            zb, zc = _zoo(), _zoo()
            tgt = zc.get_referable(el.id_short)
            try:
                tgt.value = bump(tgt.value)
            except Exception:
                continue
            if canon.diff(canon.canon(zb), canon.canon(zc)) is not None:
                out.append((zb, zc, ("Property", "value:" + type(el.value).__name__)))
    # directed: every optional attribute of every class absent on one side (both argument orders are judged later)
    from vf import meta as _meta
    for cls_, rows in _meta.META.items():
        if cls_ in ("Key", "ExternalReference", "ModelReference", "SpecificAssetId"):
            continue
        for attr_, kind_ in rows:
            if kind_[0] != "o" or attr_ == "id_short":
                continue
            for t in range(25):
                tag = f"C20opt:{seed}:{cls_}:{attr_}:{t}"
                a, b = make_obj(tag), make_obj(tag)
                if has_unordered_list_or_nan(a):
                    continue
                hit = [o for o, c in sid_nodes(b) if c == cls_ and getattr(o, attr_, None) is not None]
                done = False
                for o in hit:
                    try:
                        setattr(o, attr_, None)
                        if getattr(o, attr_) is None and canon.diff(canon.canon(a), canon.canon(b)) is not None:
                            out.append((a, b, (cls_, attr_ + "=None")))
                            done = True
                            break
                    except Exception:
                        continue
                if done:
                    break
    # directed: one identifier, two classes (a submodel in one file, a shell or a concept description in the other)
    from basyx.aas import model as _m
    def _ident(cls_, id_):
        if cls_ == "Submodel":
            return _m.Submodel(id_, [_m.Property("p", _m.datatypes.Int, 1)])
        if cls_ == "AssetAdministrationShell":
            return _m.AssetAdministrationShell(_m.AssetInformation(_m.AssetKind.INSTANCE, global_asset_id="urn:asset"), id_)
        return _m.ConceptDescription(id_)
    for ca in ("Submodel", "AssetAdministrationShell", "ConceptDescription"):
        for cb in ("Submodel", "AssetAdministrationShell", "ConceptDescription"):
            if ca != cb:
                out.append((_ident(ca, "urn:same"), _ident(cb, "urn:same"), ("Identifiable", f"class:{ca}->{cb}")))
    # directed (round 8): an operation variable that sits in another direction (same variables, same overall order)
    def _oper(i_, o_, io_):
        def var(n_):
            return _m.Property(n_, _m.datatypes.Int, 1)
        return _m.Submodel("urn:op", [_m.Operation("op", [var(x) for x in i_], [var(x) for x in o_], [var(x) for x in io_])])
    for a_, b_, w_ in [((("a",), (), ()), ((), ("a",), ()), "in->out"),
                       (((), ("a",), ()), ((), (), ("a",)), "out->inout"),
                       ((("a", "b"), ("c",), ()), (("a",), ("b", "c"), ()), "split-moved"),
                       ((("a",), (), ("b",)), ((), ("a",), ("b",)), "in->out+inout")]:
        out.append((_oper(*a_), _oper(*b_), ("Operation", "direction:" + w_)))
    i = 0
    n = n + len(out)
    while len(out) < n and i < 4 * n:
        i += 1
        tag = f"C20pair:{seed}:{i}"
        a, b = make_obj(tag), make_obj(tag)
        if has_unordered_list_or_nan(a):
            continue                      # neutral zones: NaN == NaN, and the recorded finding about unordered lists
        what = None
        if rng.random() < 0.7:
            what = mutate_attr(b, rng)
            if what is None or canon.diff(canon.canon(a), canon.canon(b)) is None:
                continue
        out.append((a, b, what))
    return out


def real_verdict(a, b) -> Any:
    key = (id(a), id(b))
    if key not in _VERDICTS:
        _VERDICTS[key] = (_real_verdict(a, b), a, b)          # the objects are kept alive with their verdict
    return _VERDICTS[key][0]


def _real_verdict(a, b) -> Any:
    from basyx.aas import model
    from basyx.aas.examples.data._helper import AASDataChecker
    ch = AASDataChecker(raise_immediately=False)
    try:
        ch.check_object_store(model.DictObjectStore([a]), model.DictObjectStore([b]))
    except Exception as e:
        return ["raise", type(e).__name__]
    return not any(True for _ in ch.failed_checks)


# ----------------------------------------------------------------------------------------------- keyed collections

def keyed_cases(seed: int, n: int):
    """Pairs of files that differ in the ORDER of an unordered collection, and/or in one member (missing, extra, filed
    under another key, one attribute changed at any depth).  Yields (kind, lenCheck, holder_a, holder_b, members_a,
    members_b, what): the real verdict is taken on the holders (checked, expected), the model gets the members as
    (key, value) pairs in the order in which the holders hold them."""
    from basyx.aas import model as m
    from vf import gen, canon
    rng = random.Random(f"C20keyed:{seed}")
    out = []
    i = 0
    while len(out) < n and i < 6 * n:
        i += 1
        kind = ("sme", "qual", "store", "smc")[i % 4]
        tag = f"C20keyed:{seed}:{i}"
        k = rng.randint(0, 5)

        def members(t):
            g = gen.Gen(random.Random(t), max_depth=3)
            g.no_nan = True
            if kind == "qual":
                return [g.qualifier(f"q{j}{g.rng.choice(['', ' x', 'Ä'])}") for j in range(k)]
            if kind == "store":
                return [make_obj(f"{t}:{j}") for j in range(k)]
            return [g.element(1) for _ in range(k)]
        ma, mb = members(tag), members(tag)
        if kind == "store":
            ids = [x.id for x in ma]
            if len(set(ids)) != len(ids):
                continue
        else:
            ks = [(x.type if kind == "qual" else x.id_short) for x in ma]
            if len(set(ks)) != len(ks):
                continue
        what = []
        # one member changed / removed / added / filed under another key, on one side
        r = rng.random()
        side = rng.choice((ma, mb))
        if side and r < 0.18:
            side.pop(rng.randrange(len(side))); what.append("missing")
        elif side and r < 0.36:
            tgt = rng.choice(side)
            w = mutate_attr(tgt, rng)
            if w is None:
                continue
            what.append("changed:" + w[0] + "." + w[1])
        elif side and r < 0.48 and kind in ("sme", "smc"):
            tgt = rng.choice(side)
            tgt.id_short = tgt.id_short + "X"; what.append("rekeyed")
        elif r < 0.58 and kind != "store":
            g2 = gen.Gen(random.Random(tag + ":extra"), max_depth=2)
            g2.no_nan = True
            side.append(g2.qualifier("qextra") if kind == "qual" else g2.element(2)); what.append("extra")
        if rng.random() < 0.8:
            rng.shuffle(ma); what.append("order-a")
        if rng.random() < 0.8:
            rng.shuffle(mb); what.append("order-b")
        try:
            if kind == "sme":
                ha, hb = m.Submodel("urn:k", ma), m.Submodel("urn:k", mb)
            elif kind == "qual":
                ha, hb = m.Submodel("urn:k", qualifier=ma), m.Submodel("urn:k", qualifier=mb)
            elif kind == "smc":
                ha = m.Submodel("urn:k", [m.SubmodelElementCollection("c", ma)])
                hb = m.Submodel("urn:k", [m.SubmodelElementCollection("c", mb)])
            else:
                ha, hb = m.DictObjectStore(ma), m.DictObjectStore(mb)
        except Exception:
            continue                       # two generated members under one key
        if any(has_unordered_list_or_nan(x) for x in ma + mb):
            continue
        out.append((kind, kind == "qual", ha, hb, ma, mb, ",".join(what) or "same"))
    return out


def keyed_real(kind, ha, hb) -> Any:
    from basyx.aas import model
    from basyx.aas.examples.data._helper import AASDataChecker
    ch = AASDataChecker(raise_immediately=False)
    try:
        if kind == "store":
            ch.check_object_store(ha, hb)
        else:
            ch.check_object_store(model.DictObjectStore([ha]), model.DictObjectStore([hb]))
    except Exception as e:
        return ["raise", type(e).__name__]
    return not any(True for _ in ch.failed_checks)


def keyed_line(T, kind, lc, ha, hb):
    """members in the order in which the holders iterate them (that is the order the checker sees)"""
    def pairs(h):
        if kind == "store":
            it, key = list(h), (lambda x: x.id)
        elif kind == "qual":
            it, key = list(h.qualifier), (lambda x: x.type)
        elif kind == "smc":
            it, key = list(h.get_referable("c").value), (lambda x: x.id_short)
        else:
            it, key = list(h.submodel_element), (lambda x: x.id_short)
        return [[key(x), T.sort_unordered(T.to_val(x))] for x in it]
    return ["keyed", lc, pairs(ha), pairs(hb)]


# ----------------------------------------------------------------------------------------------- oracle

def oracle(ctx: C.Ctx, cov: C.Coverage, n: Optional[int] = None, seed: Optional[int] = None) -> List[C.Failing]:
    _loud()
    out, sigs = [], set()
    seed = ctx.seed if seed is None else seed

    def add(f):
        if f.sig not in sigs:
            sigs.add(f.sig); out.append(f)
    for sts in status_lists(4 if ctx.tier == "quick" else 6):
        f = check_overall(sts)
        if f:
            add(f)
    d = tempfile.mkdtemp(prefix="verif-c20o-")
    try:
        files = write_inputs(d, seed, n or ctx.budget(8, 120))
        rank = {"SUCCESS": 0, "SUCCESS_WITH_WARNINGS": 1, "FAILED": 2, "NOT_EXECUTED": 3}
        for path, fmt, cat in files:
            for which in ("schema", "deserialization"):
                r = run_check(fmt, which, path)
                case = {"seed": seed, "file": os.path.basename(path), "fmt": fmt, "check": which, "category": cat}
                if r[0] == "raise":
                    add(C.Failing(f"tool:{fmt}:{which}:raises:{r[1]}", f"check_{which} ({fmt}) raised {r[1]} on a {cat} file: {r[2]}", case))
                    continue
                worst = max([rank[s] for _, s in r[1]] + [0])
                if rank[r[2]] != worst:
                    add(C.Failing(f"tool:{fmt}:{which}:status-not-worst", f"overall {r[2]} but steps {r[1]}", case))
                if cat.startswith("valid") and r[2] != "SUCCESS":
                    add(C.Failing(f"tool:{fmt}:{which}:valid-file-fails", f"SDK-written {fmt} file does not pass check_{which}: {r[1]}", case))
            if cat == "valid" and fmt == "aasx":
                # a file holds the same data as itself
                r = run_check("aasx", "equivalence", path, path)
                case = {"seed": seed, "file": os.path.basename(path), "fmt": fmt, "check": "equivalence", "category": cat}
                if r[0] == "raise":
                    add(C.Failing(f"tool:aasx:equivalence:raises:{r[1]}", f"check_aasx_files_equivalence(p, p) raised {r[1]}: {r[2]}", case))
                elif r[2] != "SUCCESS":
                    add(C.Failing("tool:aasx:equivalence:same-file-fails", f"an SDK-written package compared with itself: {r[1]}", case))
        # equivalence of files
        from basyx.aas import model
        from basyx.aas.adapter.json import write_aas_json_file
        from basyx.aas.adapter.xml import write_aas_xml_file
        # every pair on which the data checker itself raises is taken to the tool: the check function has to turn it into a report
        for idx, (a, b, what) in enumerate(checker_pairs(seed, ctx.budget(300, 4000), all_zoo=ctx.tier != "quick")):
            for order, (x, y) in (("ab", (a, b)), ("ba", (b, a))):
                v = real_verdict(x, y)
                if isinstance(v, list) and v and v[0] == "raise":
                    p1, p2 = os.path.join(d, "r1.json"), os.path.join(d, "r2.json")
                    write_aas_json_file(p1, model.DictObjectStore([x])); write_aas_json_file(p2, model.DictObjectStore([y]))
                    r = run_check("json", "equivalence", p1, p2)
                    if r[0] == "raise":
                        add(C.Failing(f"tool:json:equivalence:raises:{r[1]}:{what[0]}.{what[1]}", f"files differing in {what[0]}.{what[1]} "
                                      f"({'changed file second' if order == 'ab' else 'changed file first'}): check_json_files_equivalence raised "
                                      f"{r[1]}: {r[2]}", {"seed": seed, "pair": str(what), "fmt": "json", "check": "equivalence", "order": order}))
        allpairs = checker_pairs(seed, ctx.budget(300, 4000), all_zoo=ctx.tier != "quick") if n is None else checker_pairs(seed, n)
        for a, b, what in allpairs[: ctx.budget(130, 1500)]:
            for fmt, wr in (("json", write_aas_json_file), ("xml", write_aas_xml_file)):
                p1, p2 = os.path.join(d, f"eq1.{fmt}"), os.path.join(d, f"eq2.{fmt}")
                wr(p1, model.DictObjectStore([a])); wr(p2, model.DictObjectStore([b]))
                for order, (q1, q2) in (("ab", (p1, p2)), ("ba", (p2, p1))):
                    r = run_check(fmt, "equivalence", q1, q2)
                    case = {"seed": seed, "pair": str(what), "fmt": fmt, "check": "equivalence", "order": order}
                    if r[0] == "raise":
                        add(C.Failing(f"tool:{fmt}:equivalence:raises:{r[1]}", f"files_equivalence raised {r[1]}: {r[2]}", case)); continue
                    if what is None and r[2] != "SUCCESS":
                        add(C.Failing(f"tool:{fmt}:equivalence:equal-files-fail", f"two files with the same data compare as different: {r[1]}", case))
                    if what is not None and r[2] == "SUCCESS":
                        add(C.Failing(f"checker:missed:{what[0]}.{what[1]}", f"files differing in {what[0]}.{what[1]} compare as equal ({fmt}, "
                                      f"{'changed file second' if order == 'ab' else 'changed file first'})", case))
        # AASX packages: a shell with one submodel, with and without the (optional) core properties part, in every combination
        import datetime as _dt
        import pyecma376_2
        from basyx.aas.adapter import aasx as _aasx

        def pkg(path, with_cp: bool, creator: str = "vf"):
            sm_ = model.Submodel("urn:vf:sm", [model.Property("p", model.datatypes.Int, 1)])
            sh_ = model.AssetAdministrationShell(model.AssetInformation(global_asset_id="urn:vf:asset"), "urn:vf:aas",
                                                 submodel={model.ModelReference.from_referable(sm_)})
            with _aasx.AASXWriter(path) as w:
                w.write_aas("urn:vf:aas", model.DictObjectStore([sm_, sh_]), _aasx.DictSupplementaryFileContainer())
                if with_cp:
                    cp = pyecma376_2.OPCCoreProperties()
                    cp.creator = creator
                    cp.created = _dt.datetime(2024, 1, 2, 3, 4, 5)
                    w.write_core_properties(cp)
        for c1 in (True, False):
            for c2 in (True, False):
                p1, p2 = os.path.join(d, "a1.aasx"), os.path.join(d, "a2.aasx")
                pkg(p1, c1); pkg(p2, c2)
                r = run_check("aasx", "equivalence", p1, p2)
                case = {"seed": seed, "fmt": "aasx", "check": "equivalence", "pair": f"core-properties:{c1}/{c2}"}
                if r[0] == "raise":
                    add(C.Failing(f"tool:aasx:equivalence:raises:{r[1]}:core-properties", f"check_aasx_files_equivalence raised {r[1]} for "
                                  f"packages {'with' if c1 else 'without'} / {'with' if c2 else 'without'} core properties: {r[2]}", case))
                elif c1 == c2 and r[2] != "SUCCESS":
                    add(C.Failing("tool:aasx:equivalence:equal-files-fail", f"two identical packages compare as different: {r[1]}", case))
        # (round 5) packages whose payload part is registered with a media type PARAMETER ("application/json; charset=utf-8" - what
        # other tools write; the reader takes the part before ';'): the same data as the plainly registered package, and a
        # difference in the data is a difference whatever the registration
        import zipfile

        def pkg2(path, value: int, write_json: bool, param: Optional[str]):
            sm_ = model.Submodel("urn:vf:sm", [model.SubmodelElementCollection("c", [model.Property("p", model.datatypes.Int, value)])])
            sh_ = model.AssetAdministrationShell(model.AssetInformation(global_asset_id="urn:vf:asset"), "urn:vf:aas",
                                                 submodel={model.ModelReference.from_referable(sm_)})
            with _aasx.AASXWriter(path) as w:
                w.write_aas("urn:vf:aas", model.DictObjectStore([sm_, sh_]), _aasx.DictSupplementaryFileContainer(), write_json=write_json)
            if param:
                mt = "application/json" if write_json else "application/xml"
                tmp = path + ".re"
                with zipfile.ZipFile(path) as zi, zipfile.ZipFile(tmp, "w", zipfile.ZIP_DEFLATED) as zo:
                    for it in zi.infolist():
                        data = zi.read(it.filename)
                        if it.filename == "[Content_Types].xml":
                            data = data.replace(f'"{mt}"'.encode(), f'"{mt}{param}"'.encode())
                        zo.writestr(it, data)
                os.replace(tmp, path)
        for wj in (True, False):
            for param in ("; charset=utf-8", ";charset=UTF-8"):
                fm = "json" if wj else "xml"
                p1, p2, p3 = os.path.join(d, "c1.aasx"), os.path.join(d, "c2.aasx"), os.path.join(d, "c3.aasx")
                pkg2(p1, 5000, wj, param); pkg2(p2, 5000, wj, None); pkg2(p3, 4999, wj, param)
                for label, (q1, q2), same in (("param/plain", (p1, p2), True), ("plain/param", (p2, p1), True),
                                              ("param/param-other-value", (p1, p3), False), ("param-other-value/param", (p3, p1), False)):
                    r = run_check("aasx", "equivalence", q1, q2)
                    case = {"seed": seed, "fmt": "aasx", "check": "equivalence", "pair": f"content-type-parameter:{fm}:{param}:{label}"}
                    if r[0] == "raise":
                        add(C.Failing(f"tool:aasx:equivalence:raises:{r[1]}:content-type-parameter", f"check_aasx_files_equivalence raised {r[1]}: {r[2]}", case))
                    elif same and r[2] != "SUCCESS":
                        add(C.Failing(f"tool:aasx:equivalence:equal-data-fail:content-type-parameter:{fm}", f"two packages with the same data (the {fm} part "
                                      f"of one is registered as '{param}') compare as different: {r[1]}", case))
                    elif not same and r[2] == "SUCCESS":
                        add(C.Failing(f"checker:missed:aasx:content-type-parameter:{fm}", f"two packages that differ in a Property value compare as equal "
                                      f"when their {fm} part is registered with the parameter '{param}'", case))
    finally:
        shutil.rmtree(d, ignore_errors=True)
    # the known gap about unordered lists
    f = unordered_list_probe()
    if f:
        add(f)
    for f in entity_probe():
        add(f)
    for f in eds_shared_reference_probe():
        add(f)
    return out


_ENTITY_PROBE = r'''
import sys, os, json, logging
from aas_compliance_tool import compliance_check_xml as cx
from aas_compliance_tool.state_manager import ComplianceToolStateManager
which, p1, p2 = sys.argv[1:4]
m = ComplianceToolStateManager()
try:
    if which == "schema":
        cx.check_schema(p1, m)
    elif which == "deserialization":
        cx.check_deserialization(p1, m)
    else:
        cx.check_xml_files_equivalence(p1, p2, m)
    print("RESULT " + json.dumps(["ok", [(s.name, s.status.name) for s in m.steps], m.status.name]))
except Exception as e:
    print("RESULT " + json.dumps(["raise", type(e).__name__, str(e)[:120]]))
'''


def entity_probe() -> List[C.Failing]:
    """A well-formed, schema-valid XML file that spells one text through a general entity of its internal DTD subset denotes the
    same data as the file with the text written out: every check delivers the same verdict for both.  Each call runs in a
    process of its own — what is guarded against is the interpreter dying inside libxml2 (no verdict at all)."""
    import subprocess
    import sys
    out: List[C.Failing] = []
    ns = "https://admin-shell.io/aas/3/0"
    body = ('<aas:environment xmlns:aas="' + ns + '"><aas:submodels><aas:submodel><aas:idShort>%s</aas:idShort><aas:id>urn:x</aas:id>'
            '<aas:submodelElements><aas:property><aas:idShort>p</aas:idShort><aas:valueType>xs:string</aas:valueType>'
            '<aas:value>SN-%s-2024</aas:value></aas:property></aas:submodelElements></aas:submodel></aas:submodels></aas:environment>')
    d = tempfile.mkdtemp(prefix="verif-c20e-")
    try:
        plain, ent, script = os.path.join(d, "plain.xml"), os.path.join(d, "entity.xml"), os.path.join(d, "probe.py")
        open(plain, "w").write('<?xml version="1.0"?>' + body % ("abc", "abc"))
        open(ent, "w").write('<?xml version="1.0"?><!DOCTYPE x [<!ENTITY vf "abc">]>' + body % ("&vf;", "&vf;"))
        open(script, "w").write(_ENTITY_PROBE)
        env = dict(os.environ, PYTHONPATH=os.path.join(C.REPO, "sdk") + os.pathsep + os.path.join(C.REPO, "compliance_tool"))

        def run(which, a, b="-"):
            r = subprocess.run([sys.executable, script, which, a, b], capture_output=True, text=True, env=env, timeout=300)
            if r.returncode != 0:
                return ["died", r.returncode]
            lines = [l for l in r.stdout.splitlines() if l.startswith("RESULT ")]
            return json.loads(lines[-1][7:]) if lines else ["died", "no-result"]
        for which, a, b in (("schema", ent, "-"), ("deserialization", ent, "-"), ("equivalence", ent, plain), ("equivalence", plain, ent)):
            got = run(which, a, b)
            ref = run(which, plain, plain if which == "equivalence" else "-")
            case = {"entity_probe": which, "first": os.path.basename(a)}
            if got[0] == "died":
                out.append(C.Failing(f"tool:xml:{which}:process-died", f"check ({which}) on a file that references an internal general entity ended "
                                     f"the interpreter (exit status {got[1]}): no verdict", case))
            elif got[0] == "raise":
                out.append(C.Failing(f"tool:xml:{which}:raises:{got[1]}:entity", f"check ({which}) raised {got[1]} on a file that references an "
                                     f"internal general entity: {got[2]}", case))
            elif ref[0] == "ok" and [st for _, st in got[1]] != [st for _, st in ref[1]]:
                out.append(C.Failing(f"tool:xml:{which}:entity-form-judged-differently", f"{which}: the file with the entity gets {got[1]}, the same "
                                     f"data written out gets {ref[1]}", case))
    finally:
        shutil.rmtree(d, ignore_errors=True)
    return out


def unordered_list_probe() -> Optional[C.Failing]:
    from basyx.aas import model
    mk = lambda: model.Submodel("urn:sm", [model.SubmodelElementList("l", model.Property, [model.Property(None, model.datatypes.Int, 1)],
                                                                         value_type_list_element=model.datatypes.Int, order_relevant=False)])
    r = real_verdict(mk(), mk())
    if r is not True:
        return C.Failing("checker:unordered-list:cannot-compare", f"two identical submodels holding a SubmodelElementList with order_relevant=False: {r}",
                         {"probe": "unordered-list"})
    return None


def eds_shared_reference_probe() -> List[C.Failing]:
    """(round 8, named by a seeding agent) embedded data specifications are matched by their data specification reference, which
    need not be unique in one list: the keyed matching then compares the wrong members (Lean witness
    c20_shared_key_identical_fails_differing_passes)."""
    from basyx.aas import model

    def ref(s):
        return model.ExternalReference((model.Key(model.KeyTypes.GLOBAL_REFERENCE, s),))

    def sm(names):
        return model.Submodel("urn:sm", embedded_data_specifications=[model.EmbeddedDataSpecification(
            ref("urn:d"), model.DataSpecificationIEC61360(model.PreferredNameTypeIEC61360({"en": n}))) for n in names])
    out = []
    r = real_verdict(sm(["a", "b"]), sm(["a", "b"]))
    if r is not True:
        out.append(C.Failing("checker:eds-shared-reference:identical-files-differ", "two identical submodels whose two embedded data specifications share "
                             f"one data specification reference: verdict {r}", {"probe": "eds-shared-reference", "which": "identical"}, r, True))
    r = real_verdict(sm(["a", "b"]), sm(["a", "a"]))
    if r is not False:
        out.append(C.Failing("checker:eds-shared-reference:differing-files-equal", "submodels whose second embedded data specification differs (both share one "
                             f"data specification reference) compare as equal: verdict {r}", {"probe": "eds-shared-reference", "which": "differing"}, r, False))
    return out


def search(ctx: C.Ctx, disagreements, broken) -> List[C.Failing]:
    """directed: EVERY mutated pair of the correspondence (the oracle takes the files of the first ones only) on which the data
    checker itself finds no difference is taken to the tool as two files; then the oracle with another seed"""
    from basyx.aas import model
    from basyx.aas.adapter.json import write_aas_json_file
    out: List[C.Failing] = []
    sigs = set()
    d = tempfile.mkdtemp(prefix="verif-c20s-")
    try:
        for a, b, what in checker_pairs(ctx.seed, ctx.budget(300, 4000), all_zoo=ctx.tier != "quick"):
            if what is None:
                continue
            for order, (x, y) in (("ab", (a, b)), ("ba", (b, a))):
                if real_verdict(x, y) is True:
                    p1, p2 = os.path.join(d, "s1.json"), os.path.join(d, "s2.json")
                    write_aas_json_file(p1, model.DictObjectStore([x])); write_aas_json_file(p2, model.DictObjectStore([y]))
                    r = run_check("json", "equivalence", p1, p2)
                    sig = f"checker:missed:{what[0]}.{what[1]}"
                    if r[0] == "ok" and r[2] == "SUCCESS" and sig not in sigs:
                        sigs.add(sig)
                        out.append(C.Failing(sig, f"files differing in {what[0]}.{what[1]} compare as equal (json, "
                                             f"{'changed file second' if order == 'ab' else 'changed file first'})",
                                             {"seed": ctx.seed, "pair": str(what), "fmt": "json", "check": "equivalence", "order": order}))
    finally:
        shutil.rmtree(d, ignore_errors=True)
    return out or oracle(ctx, C.Coverage(), n=40, seed=ctx.seed + 7919)


def replay(case) -> Optional[C.Failing]:
    if case.get("probe") == "unordered-list":
        return unordered_list_probe()
    if case.get("probe") == "eds-shared-reference":
        return next((f for f in eds_shared_reference_probe() if f.case == case), None)
    if "statuses" in case:
        return check_overall(case["statuses"])
    if "entity_probe" in case:
        fs_ = [f for f in entity_probe() if f.case == case]
        return fs_[0] if fs_ else None
    fs = oracle(C.Ctx("C20", "quick", case.get("seed", 0), random.Random(0), 0, 1), C.Coverage(), seed=case.get("seed", 0))
    for f in fs:
        if all(f.case.get(k) == v for k, v in case.items() if k in ("fmt", "check", "category", "pair")):
            return f
    if "pair" in case and case.get("check") == "equivalence":
        for f in search(C.Ctx("C20", "quick", case.get("seed", 0), random.Random(0), 0, 1), [], []):
            if f.case.get("pair") == case["pair"]:
                return f
    return None
