"""C02 — no accepted operation yields a constraint-violating metamodel object.

translate(): regenerates lean/Basyx/Gen/{StrCons,KeyTypes,IntRanges}.lean from the SDK source (py/props/c02_translate.py).
correspond(): the same op lines go to the real classes and to lean/Mains/C02.lean; outcome kind, AASd number and the
              object's public attributes are compared after every call.
oracle():     the specification predicates re-stated in Python over public attributes (independent of the Lean model).
"""
from __future__ import annotations

import itertools
import json
import random
import re
import unicodedata
from typing import Any, Dict, List, Optional, Tuple

from vf import common as C

ID = "C02"
LEAN_MODULE = "Basyx.Props.C02"
LEVEL = "proof"

MANIFEST = {
    "text": "Lean theorems for ALL inputs / op sequences of the constraint model: model- and external-reference constructors accept a "
            "key chain of ANY length iff AASd-121..128 hold (and a raised number names a constraint that is really violated); every "
            "constrained string type accepts iff min <= len <= max, AASd-130 characters and the version pattern, with the limits, "
            "character ranges, key-type classes and the 12 integer ranges REGENERATED from the source on every run and proved equal to "
            "hand-written specification tables; per-class state machines (AdministrativeInformation, Entity, AssetInformation, "
            "HasSemantics, BasicEventElement, LangStringSet family, typed value slots, SubmodelElementList add check) are sound, atomic "
            "and complete w.r.t. the specification predicates for every op sequence from every constructor-accepted state; a "
            "SubmodelElementList machine whose children are modified WHILE CONTAINED (semantic_id / value_type / id_short setters, "
            "remove, re-add) keeps AASd-107/108/109/114/120 for every history without value_type assignments; the caller's dict and two "
            "language string sets built from it are three separate values (frame + soundness for every op on any of them). Gaps of "
            "the code are kept as full statements, proved _partial, with proved negation witnesses = known findings.",
    "note": "decision logic proved for all inputs; tie = exhaustive 22^3*2 (quick) / 22^4*2 (thorough) key chains + boundary strings at "
            "every entry point + exhaustive short / random long op sequences, incl. setters on contained list children, mutation of "
            "constructor arguments the caller keeps (lists, dicts, a dict shared by two objects) and the falsy-but-not-None member of "
            "every value kind (zero durations, 0, False, 0.0, '', b''); str.isalpha/islower/isdecimal and `re` modelled on ASCII "
            "plus sampled non-ASCII code points; requires fixes/C02-*.patch (6 small repairs) to be applied to /repo",
    "technique": "Lean 4 proof (induction over key lists / op sequences, decide for regenerated tables) + differential correspondence + "
                 "Python re-statement of the specification as oracle",
}
ASSUMPTIONS = [
    "`re.fullmatch` on the three literal patterns and `str.isalpha/islower/isdecimal` behave as modelled (exact on ASCII; non-ASCII "
    "code points only from the sampled tables in Model/Constraints.lean)",
    "Key values are abstracted to 'denotes a non-negative integer' (all characters Unicode category Nd), computed by the harness",
    "the HasSemantics machine (AASd-118) is driven detached from a namespace (parent is None); the semantic_id setter of a CONTAINED "
    "element is modelled for children of a SubmodelElementList only (other namespaces: re-keying is property C01); children of the "
    "list machine carry no supplemental semantic ids",
    "max_interval is abstracted to 'is not None' (the code tests nothing else); the harness offers None, 5 s and two zero-length "
    "(falsy) durations",
    "slices are step-less (start:stop); extended slices are outside the modelled op alphabet",
    "neutral zones (not judged by the oracle): bool offered to an integer type, non-ASCII letters in a language code, "
    "subtags after the first '-', single-letter idShort",
]

# ------------------------------------------------------------------------------------------------ encoding helpers


def enc(s: Optional[str]):
    if s is None:
        return None
    out: List[List[int]] = []
    for ch in s:
        o = ord(ch)
        if out and out[-1][0] == o:
            out[-1][1] += 1
        else:
            out.append([o, 1])
    return out


def dec(r) -> Optional[str]:
    if r is None:
        return None
    return "".join(chr(e[0]) * e[1] if isinstance(e, list) else chr(e) for e in r)


def outcome(e: Optional[BaseException]):
    from basyx.aas import model
    if e is None:
        return ["ok"]
    if isinstance(e, model.AASConstraintViolation):
        return ["raise", "AASCV", e.constraint_id]
    for k in (KeyError, IndexError, ValueError, TypeError, AttributeError):
        if isinstance(e, k):
            return ["raise", k.__name__]
    return ["raise", type(e).__name__]


# ------------------------------------------------------------------------------------------------ specification (Python re-statement)

SPEC_LIMITS = {  # written from the metamodel's constrained string types as the SDK documents them
    "content_type": (1, 100), "identifier": (1, 2000), "label_type": (1, 64), "message_topic_type": (1, 255),
    "name_type": (1, 128), "path_type": (1, 2000), "qualifier_type": (1, 128), "revision_type": (1, 4),
    "short_name_type": (1, 64), "value_type_iec61360": (1, 2000), "version_type": (1, 4),
}
SPEC_LANG = {"MultiLanguageNameType": (1, 64), "MultiLanguageTextType": (1, 1023), "DefinitionTypeIEC61360": (1, 1023),
             "PreferredNameTypeIEC61360": (1, 255), "ShortNameTypeIEC61360": (1, 18)}
XSD_RANGES = {  # XML Schema Part 2, written independently of datatypes.py
    "Long": (-9223372036854775808, 9223372036854775807), "Int": (-2147483648, 2147483647), "Short": (-32768, 32767),
    "Byte": (-128, 127), "NonPositiveInteger": (None, 0), "NegativeInteger": (None, -1), "NonNegativeInteger": (0, None),
    "PositiveInteger": (1, None), "UnsignedLong": (0, 18446744073709551615), "UnsignedInt": (0, 4294967295),
    "UnsignedShort": (0, 65535), "UnsignedByte": (0, 255), "Integer": (None, None),
}
XSD_TYPES = ["Duration", "DateTime", "Date", "Time", "GYearMonth", "GYear", "GMonthDay", "GMonth", "GDay", "Boolean",
             "Base64Binary", "HexBinary", "Float", "Double", "Decimal", "Integer", "Long", "Int", "Short", "Byte",
             "NonPositiveInteger", "NegativeInteger", "NonNegativeInteger", "PositiveInteger", "UnsignedLong", "UnsignedInt",
             "UnsignedShort", "UnsignedByte", "AnyURI", "String", "NormalizedString"]


def aasd130_ok(s: str) -> bool:
    for ch in s:
        o = ord(ch)
        if not (o in (0x9, 0xA, 0xD) or 0x20 <= o <= 0xD7FF or 0xE000 <= o <= 0xFFFD or 0x10000 <= o <= 0x10FFFF):
            return False
    return True


def str_ok(check: str, s: Optional[str], limits=None) -> bool:
    if s is None:
        return True
    mn, mx = (limits or SPEC_LIMITS)[check]
    if not (mn <= len(s) <= mx) or not aasd130_ok(s):
        return False
    if check in ("version_type", "revision_type"):
        return re.fullmatch(r"(0|[1-9][0-9]*)", s, re.ASCII) is not None
    return True


def id_short_ok(s: str) -> bool:
    return str_ok("name_type", s) and re.fullmatch(r"[A-Za-z][A-Za-z0-9_]*", s, re.ASCII) is not None


def is_int_value(v: str) -> bool:
    return len(v) > 0 and all(unicodedata.category(c) == "Nd" for c in v)


AAS_IDENTIFIABLES = ["ASSET_ADMINISTRATION_SHELL", "CONCEPT_DESCRIPTION", "SUBMODEL"]
AAS_SUBMODEL_ELEMENTS = ["ANNOTATED_RELATIONSHIP_ELEMENT", "BASIC_EVENT_ELEMENT", "BLOB", "CAPABILITY", "DATA_ELEMENT", "ENTITY",
                         "EVENT_ELEMENT", "FILE", "MULTI_LANGUAGE_PROPERTY", "OPERATION", "PROPERTY", "RANGE", "REFERENCE_ELEMENT",
                         "RELATIONSHIP_ELEMENT", "SUBMODEL_ELEMENT", "SUBMODEL_ELEMENT_COLLECTION", "SUBMODEL_ELEMENT_LIST"]
KT_ALL = AAS_IDENTIFIABLES + AAS_SUBMODEL_ELEMENTS + ["GLOBAL_REFERENCE", "FRAGMENT_REFERENCE"]


def model_ref_violations(keys: List[Tuple[str, bool]]) -> List[int]:
    """AASd numbers violated by a model-reference key chain (type name, value-is-integer)."""
    v = []
    if not keys:
        return [-1]
    if keys[0][0] not in AAS_IDENTIFIABLES:
        v.append(123)
    if any(t not in AAS_SUBMODEL_ELEMENTS + ["FRAGMENT_REFERENCE"] for t, _ in keys[1:]):
        v.append(125)
    if any(t == "FRAGMENT_REFERENCE" for t, _ in keys[:-1]):
        v.append(126)
    for i in range(1, len(keys)):
        if keys[i][0] == "FRAGMENT_REFERENCE" and keys[i - 1][0] not in ("FILE", "BLOB"):
            v.append(127)
        if keys[i - 1][0] == "SUBMODEL_ELEMENT_LIST" and not keys[i][1]:
            v.append(128)
    return v


def ext_ref_violations(keys: List[Tuple[str, bool]]) -> List[int]:
    if not keys:
        return [-1]
    v = []
    if keys[0][0] != "GLOBAL_REFERENCE":
        v.append(122)
    if keys[-1][0] not in ("GLOBAL_REFERENCE", "FRAGMENT_REFERENCE"):
        v.append(124)
    return v


def lang_code_judgeable(tag: str) -> bool:
    return all(ord(c) < 128 for c in tag.split("-", 1)[0])


def tag_ok(tag: str) -> bool:
    return re.fullmatch(r"[a-z]{2}", tag.split("-", 1)[0], re.ASCII) is not None


# ------------------------------------------------------------------------------------------------ implementation world

class World:
    """One history on the real classes. `do(line)` executes one op line and returns what the model driver prints."""

    def __init__(self):
        from basyx.aas import model
        from basyx.aas.model import datatypes
        self.m = model
        self.dt = datatypes
        self.sids = [model.SpecificAssetId(f"n{i}", f"v{i}") for i in range(6)]
        self.refs = [model.ExternalReference((model.Key(model.KeyTypes.GLOBAL_REFERENCE, f"r{i}"),)) for i in range(6)]
        self.obj: Dict[str, Any] = {}
        self.meta: Dict[str, Any] = {}
        self.last_src: Dict[str, Any] = {}     # family -> the last plain `list` object the caller handed to the object

    def contf(self, fam: str, items: list, kind: str):
        """like `cont`, but remembers a plain list: the CALLER keeps it and may go on mutating it (`<fam>.src` ops)"""
        c = self.cont(items, kind)
        if kind == "list":
            self.last_src[fam] = c
        return c

    def src_op(self, fam: str, pool, mut):
        """the caller mutates ITS OWN list after having handed it to a constructor / setter / extend / slice assignment"""
        l = self.last_src.get(fam)
        if l is None:
            return
        if mut[0] == "append":
            l.append(pool[mut[1]])
        elif mut[0] == "clear":
            l.clear()
        elif mut[0] == "pop":
            if l:
                l.pop()
        elif mut[0] == "set0":
            if l:
                l[0] = pool[mut[1]]
        else:
            raise ValueError(mut)

    def sml_mk(self, e):
        m, dt = self.m, self.dt
        c, si, vt, has = e
        kw = {"semantic_id": None if si is None else self.refs[si]}
        ids = "x" if has else None
        if c == "Property":
            return m.Property(ids, getattr(dt, vt), **kw)
        if c == "Range":
            return m.Range(ids, getattr(dt, vt), **kw)
        if c == "Capability":
            return m.Capability(ids, **kw)
        if c == "MultiLanguageProperty":
            return m.MultiLanguageProperty(ids, **kw)
        ref = m.ModelReference((m.Key(m.KeyTypes.SUBMODEL, "urn:s"),), m.Submodel)
        if c == "RelationshipElement":
            return m.RelationshipElement(ids, ref, ref, **kw)
        return m.AnnotatedRelationshipElement(ids, ref, ref, **kw)

    def kid_view(self, k, sml):
        ids = k.id_short
        st = 0 if ids is None else (2 if ids.startswith("generated_submodel_list_hack_") else 1)
        vt = getattr(k, "value_type", None) if isinstance(k, (self.m.Property, self.m.Range)) else None
        return [type(k).__name__, None if k.semantic_id is None else self.idx(self.refs, k.semantic_id),
                None if vt is None else self.type_name(vt), st, k.parent is sml]

    # ---- containers for list-valued arguments
    @staticmethod
    def cont(items: list, kind: str):
        if kind == "tuple":
            return tuple(items)
        if kind == "iter":
            return iter(list(items))
        if kind == "gen":
            return (x for x in list(items))
        return list(items)

    def idx(self, pool, x) -> int:
        for i, p in enumerate(pool):
            if p is x:
                return i
        for i, p in enumerate(pool):
            if p == x:
                return i
        return -1

    # ---- views
    def view(self, fam: str):
        o = self.obj.get(fam)
        if o is None:
            return None
        if fam == "admin":
            return [enc(o.version), enc(o.revision), enc(o.template_id)]
        if fam == "entity":
            return [o.entity_type.name, enc(o.global_asset_id), [self.idx(self.sids, x) for x in o.specific_asset_id]]
        if fam == "asset":
            return [enc(o.global_asset_id), [self.idx(self.sids, x) for x in o.specific_asset_id], enc(o.asset_type)]
        if fam == "sem":
            return [None if o.semantic_id is None else self.idx(self.refs, o.semantic_id),
                    [self.idx(self.refs, x) for x in o.supplemental_semantic_id]]
        if fam == "event":
            return [o.direction.name, o.max_interval is not None, stamp_view(o.last_update), enc(o.message_topic)]
        if fam == "lss":      # the first object, the second object (or None), the caller's dict
            items = lambda d: [[enc(k), enc(v)] for k, v in d.items()]  # noqa
            return [items(o["a"]), None if o["b"] is None else items(o["b"]), items(o["src"])]
        if fam == "smlm":
            sml, kids = o["sml"], o["kids"]
            return [[next((i for i, k in enumerate(kids) if k is x), -1) for x in sml.value], [self.kid_view(k, sml) for k in kids]]
        if fam == "typed":
            slot = self.meta["typed"]["slot"]
            t = o.value_type
            return [None if t is None else self.type_name(t), pyval_view(getattr(o, slot))]
        raise ValueError(fam)

    def type_name(self, t) -> str:
        for n in XSD_TYPES:
            if getattr(self.dt, n) is t:
                return n
        return getattr(t, "__name__", str(t))

    # ---- one op
    def do(self, line: list):
        op = line[0]
        args = [a for a in line[1:] if not isinstance(a, dict)]
        meta = next((a for a in line[1:] if isinstance(a, dict)), {})
        fam = op.split(".")[0]
        if "." not in op:
            return self.stateless(op, args, meta)
        try:
            self.machine(op, args, meta)
            e = None
        except Exception as ex:  # noqa
            e = ex
        if op.endswith(".new"):
            if e is not None:
                self.obj[fam] = None
                return [outcome(e), None]
            return [outcome(None), self.view(fam)]
        if self.obj.get(fam) is None:
            return ["no-object"]
        return [outcome(e), self.view(fam)]

    def stateless(self, op, args, meta):
        m = self.m
        try:
            if op == "str":
                ENTRY[meta["entry"]][1](self, dec(args[1]))
            elif op == "lang":
                cls = getattr(m, args[0])
                if meta.get("via") == "setitem":
                    o = cls({"en": "a"})
                    o["de"] = dec(args[1])
                else:
                    cls({"en": dec(args[1])})
            elif op == "idshort":
                v = dec(args[0])
                via = meta.get("via", "validate")
                if via == "validate":
                    m.Referable.validate_id_short(v)
                elif via == "ctor":
                    m.Capability(v)
                else:
                    c = m.Capability("x")
                    c.id_short = v
            elif op == "tag":
                m.LangStringSet({dec(args[0]): "x"})
            elif op in ("mref", "eref"):
                keys = tuple(m.Key(getattr(m.KeyTypes, t), meta["values"][i]) for i, (t, _) in enumerate(args[0]))
                if op == "mref":
                    m.ModelReference(keys, m.Submodel)
                else:
                    m.ExternalReference(keys)
            elif op == "cast":
                w = self.dt.trivial_cast(pyval_make(args[0]), getattr(self.dt, args[1]))
                return [["ok"], pyval_view(w)]
            elif op == "sml.ctor":
                pass
            else:
                raise ValueError(op)
            return ["ok"] if op != "cast" else None
        except Exception as e:  # noqa
            return outcome(e) if op != "cast" else [outcome(e), None]

    def machine(self, op, a, meta):
        m, dt = self.m, self.dt
        fam, what = op.split(".", 1)
        if what == "new":
            self.meta[fam] = meta
        else:
            if self.obj.get(fam) is None:
                return
        o = self.obj.get(fam)
        ck = meta.get("cont", "list")
        if fam == "admin":
            if what == "new":
                self.obj[fam] = m.AdministrativeInformation(version=dec(a[0]), revision=dec(a[1]), template_id=dec(a[2]))
            else:
                setattr(o, what, dec(a[0]))
        elif fam == "entity":
            if what == "new":
                self.obj[fam] = m.Entity("e", getattr(m.EntityType, a[0]), global_asset_id=dec(a[1]),
                                         specific_asset_id=self.contf(fam, [self.sids[i] for i in a[2]], ck))
            elif what == "type":
                o.entity_type = getattr(m.EntityType, a[0])
            elif what == "gid":
                o.global_asset_id = dec(a[0])
            elif what == "src":
                self.src_op(fam, self.sids, a[0])
            else:
                self.list_op(o, "specific_asset_id", self.sids, a[0], ck, fam)
        elif fam == "asset":
            if what == "new":
                self.obj[fam] = m.AssetInformation(global_asset_id=dec(a[0]), specific_asset_id=self.contf(fam, [self.sids[i] for i in a[1]], ck),
                                                   asset_type=dec(a[2]))
            elif what == "gid":
                o.global_asset_id = dec(a[0])
            elif what == "asset_type":
                o.asset_type = dec(a[0])
            elif what == "src":
                self.src_op(fam, self.sids, a[0])
            else:
                self.list_op(o, "specific_asset_id", self.sids, a[0], ck, fam)
        elif fam == "sem":
            if what == "new":
                sem = None if a[0] is None else self.refs[a[0]]
                supp = self.contf(fam, [self.refs[i] for i in a[1]], ck)
                host = meta.get("host", "Extension")
                if host == "Extension":
                    self.obj[fam] = m.Extension("n", semantic_id=sem, supplemental_semantic_id=supp)
                elif host == "Qualifier":
                    self.obj[fam] = m.Qualifier("t", dt.Int, semantic_id=sem, supplemental_semantic_id=supp)
                elif host == "Property":
                    self.obj[fam] = m.Property("p", dt.Int, semantic_id=sem, supplemental_semantic_id=supp)
                elif host == "Submodel":
                    self.obj[fam] = m.Submodel("urn:x", semantic_id=sem, supplemental_semantic_id=supp)
                else:
                    self.obj[fam] = m.SpecificAssetId("n", "v", semantic_id=sem, supplemental_semantic_id=supp)
            elif what == "sem":
                o.semantic_id = None if a[0] is None else self.refs[a[0]]
            elif what == "src":
                self.src_op(fam, self.refs, a[0])
            else:
                self.list_op(o, "supplemental_semantic_id", self.refs, a[0], ck, fam)
        elif fam == "event":
            if what == "new":
                ref = m.ModelReference((m.Key(m.KeyTypes.SUBMODEL, "urn:s"),), m.Submodel)
                self.obj[fam] = m.BasicEventElement("b", ref, getattr(m.Direction, a[0]), m.StateOfEvent.ON, message_topic=dec(a[1]),
                                                    last_update=stamp_make(a[2]), max_interval=interval_make(a[3]))
            elif what == "direction":
                o.direction = getattr(m.Direction, a[0])
            elif what == "max_interval":
                o.max_interval = interval_make(a[0])
            elif what == "last_update":
                o.last_update = stamp_make(a[0])
            else:
                o.message_topic = dec(a[0])
        elif fam == "lss":
            if what == "new":
                src = {dec(k): dec(v) for k, v in a[1]}        # ONE dict object: the caller keeps it (`lss.src.*`, `lss.new2`)
                self.obj[fam] = {"src": src, "a": getattr(m, a[0])(src), "b": None}
                return
            if what == "new2":                                   # a second object from the same dict / from the first object
                o["b"] = getattr(m, a[0])(o["a"] if a[1] else o["src"])
                return
            if what.startswith("src."):
                if what == "src.set":
                    o["src"][dec(a[0])] = dec(a[1])
                elif what == "src.del":
                    o["src"].pop(dec(a[0]), None)
                else:
                    o["src"].clear()
                return
            if what.startswith("o2."):
                what, o = what[3:], o["b"]
                if o is None:
                    return
            else:
                o = o["a"]
            if what == "set":
                o[dec(a[0])] = dec(a[1])
            elif what == "del":
                del o[dec(a[0])]
            elif what == "clear":
                o.clear()
            elif what == "update":
                o.update({dec(k): dec(v) for k, v in a[0]})
            elif what == "setdefault":
                o.setdefault(dec(a[0]), dec(a[1]))
            elif what == "pop":
                o.pop(dec(a[0]))
            elif what == "popitem":
                o.popitem()
            else:
                raise ValueError(op)
        elif fam == "smlm":
            if what == "new":
                kids = [self.sml_mk(e) for e in a[3]]
                sml = m.SubmodelElementList("l", getattr(m, a[0]), kids, semantic_id_list_element=None if a[1] is None else self.refs[a[1]],
                                            value_type_list_element=None if a[2] is None else getattr(dt, a[2]))
                self.obj[fam] = {"sml": sml, "kids": kids}
                return
            sml, kids = o["sml"], o["kids"]
            if what == "add":
                kids.append(self.sml_mk(a[0]))
                sml.value.add(kids[-1])
                return
            if a[0] >= len(kids):
                return
            kid = kids[a[0]]
            if what == "readd":
                sml.value.add(kid)
            elif what == "setsem":
                kid.semantic_id = None if a[1] is None else self.refs[a[1]]
            elif what == "setvt":
                if isinstance(kid, (m.Property, m.Range)):
                    kid.value_type = None if a[1] is None else getattr(dt, a[1])
            elif what == "setid":
                kid.id_short = "x" if a[1] else None
            elif what == "remove":
                sml.value.remove(kid)
            else:
                raise ValueError(op)
        elif fam == "typed":
            slot = self.meta[fam]["slot"]
            host = self.meta[fam]["host"]
            if what == "new":
                t = None if a[0] is None else getattr(dt, a[0])
                v = None if a[1] is None else pyval_make(a[1])
                if host == "Property":
                    self.obj[fam] = m.Property("p", t, v)
                elif host == "Range":
                    self.obj[fam] = m.Range("r", t, **{slot: v})
                elif host == "Qualifier":
                    self.obj[fam] = m.Qualifier("q", t, v)
                else:
                    self.obj[fam] = m.Extension("x", t, v)
            elif what == "value":
                setattr(o, slot, None if a[0] is None else pyval_make(a[0]))
            else:
                o.value_type = None if a[0] is None else getattr(dt, a[0])
        else:
            raise ValueError(op)

    def list_op(self, o, attr, pool, lop, ck, fam="?"):
        l = getattr(o, attr)
        k = lop[0]
        if k == "insert":
            l.insert(lop[1], pool[lop[2]])
        elif k == "append":
            l.append(pool[lop[1]])
        elif k == "extend":
            l.extend(self.contf(fam, [pool[i] for i in lop[1]], ck))
        elif k == "iadd":
            l += self.cont([pool[i] for i in lop[1]], ck)
            setattr(o, attr, l)                      # what `o.attr += xs` does after __iadd__
        elif k == "setitem":
            l[lop[1]] = pool[lop[2]]
        elif k == "setslice":
            l[lop[1]:lop[2]] = self.contf(fam, [pool[i] for i in lop[3]], ck)
        elif k == "delitem":
            del l[lop[1]]
        elif k == "delslice":
            del l[lop[1]:lop[2]]
        elif k == "pop":
            l.pop(*lop[1:])
        elif k == "clear":
            l.clear()
        elif k == "remove":
            l.remove(pool[lop[1]])
        elif k == "assign":
            setattr(o, attr, self.contf(fam, [pool[i] for i in lop[1]], ck))
        else:
            raise ValueError(lop)


def stamp_make(j):
    import datetime
    if j is None:
        return None
    if j[0] == "naive":
        return datetime.datetime(2020, 1, 2, 3, 4, 5)
    tz = datetime.timezone(datetime.timedelta(seconds=j[1]), "UTC" if j[2] else "X")
    return datetime.datetime(2020, 1, 2, 3, 4, 5, tzinfo=tz)


def stamp_view(v):
    if v is None:
        return None
    off = v.utcoffset()
    if off is None:
        return ["naive"]
    return ["aware", int(off.total_seconds()), v.tzname() == "UTC"]


def interval_make(arg):
    """None / False -> None; True -> 5 s; "zero" -> a zero-length duration (falsy!); "zero-arith" -> 1 h - 60 min (zero, falsy)"""
    from dateutil.relativedelta import relativedelta
    if arg is None or arg is False:
        return None
    if arg == "zero":
        return relativedelta()
    if arg == "zero-arith":
        return relativedelta(hours=1) - relativedelta(minutes=60)
    return relativedelta(seconds=5)


def pyval_make(j):
    import datetime
    k = j[0]
    if k == "int":
        return int(j[1])
    if k == "bool":
        return bool(j[1])
    # a trailing "zero" / "empty" selects the FALSY member of the kind (`if value:` differs from `if value is not None:`)
    if k == "float":
        return 0.0 if len(j) > 1 else 1.5
    if k == "str":
        return "" if len(j) > 2 else ("a\tb" if j[1] else "ab")
    if k == "bytes":
        return b"" if len(j) > 1 else b"xy"
    if k == "date":
        return datetime.date(2020, 1, 2)
    if k == "datetime":
        return datetime.datetime(2020, 1, 2, 3, 4, 5)
    return complex(1, 2)


def pyval_view(v):
    import datetime
    if v is None:
        return None
    if isinstance(v, bool):
        return ["bool", v]
    if isinstance(v, int):
        return ["int", int(v)]
    if isinstance(v, float):
        return ["float"]
    if isinstance(v, str):
        return ["str", any(c in v for c in "\r\n\t")]
    if isinstance(v, (bytes, bytearray)):
        return ["bytes"]
    if isinstance(v, datetime.datetime):
        return ["datetime"]
    if isinstance(v, datetime.date):
        return ["date"]
    return ["other"]


# entry points for single constrained string attributes: label -> (check name, fn(world, value))
def _e_setter(make, attr):
    def f(w, v):
        o = make(w)
        old = getattr(o, attr)
        try:
            setattr(o, attr, v)
        except Exception:
            if getattr(o, attr) != old:
                raise AssertionError("not-atomic")
            raise
        if getattr(o, attr) != v:
            raise AssertionError("not-stored")
    return f


ENTRY: Dict[str, Tuple[str, Any]] = {
    "Key.ctor": ("identifier", lambda w, v: w.m.Key(w.m.KeyTypes.GLOBAL_REFERENCE, v)),
    "Submodel.id.ctor": ("identifier", lambda w, v: w.m.Submodel(v)),
    "Submodel.id.set": ("identifier", _e_setter(lambda w: w.m.Submodel("urn:x"), "id")),
    "ConceptDescription.id.ctor": ("identifier", lambda w, v: w.m.ConceptDescription(v)),
    "AAS.id.set": ("identifier", _e_setter(lambda w: w.m.AssetAdministrationShell(w.m.AssetInformation(global_asset_id="g"), "urn:a"), "id")),
    "Blob.content_type.ctor": ("content_type", lambda w, v: w.m.Blob("b", content_type=v)),
    "Blob.content_type.set": ("content_type", _e_setter(lambda w: w.m.Blob("b", content_type="a/b"), "content_type")),
    "File.content_type.ctor": ("content_type", lambda w, v: w.m.File("f", content_type=v)),
    "File.content_type.set": ("content_type", _e_setter(lambda w: w.m.File("f", content_type="a/b"), "content_type")),
    "File.value.ctor": ("path_type", lambda w, v: w.m.File("f", content_type="a/b", value=v)),
    "File.value.set": ("path_type", _e_setter(lambda w: w.m.File("f", content_type="a/b"), "value")),
    "Resource.path.ctor": ("path_type", lambda w, v: w.m.Resource(v)),
    "Resource.path.set": ("path_type", _e_setter(lambda w: w.m.Resource("p"), "path")),
    "Resource.content_type.set": ("content_type", _e_setter(lambda w: w.m.Resource("p"), "content_type")),
    "ValueReferencePair.value.ctor": ("value_type_iec61360", lambda w, v: w.m.ValueReferencePair(v, w.refs[0])),
    "ValueReferencePair.value.set": ("value_type_iec61360", _e_setter(lambda w: w.m.ValueReferencePair("v", w.refs[0]), "value")),
    "DataSpecificationIEC61360.value.set": ("value_type_iec61360", _e_setter(
        lambda w: w.m.DataSpecificationIEC61360(w.m.PreferredNameTypeIEC61360({"en": "n"})), "value")),
    "Extension.name.ctor": ("name_type", lambda w, v: w.m.Extension(v)),
    "Extension.name.set": ("name_type", _e_setter(lambda w: w.m.Extension("n"), "name")),
    "Qualifier.type.ctor": ("qualifier_type", lambda w, v: w.m.Qualifier(v, w.dt.Int)),
    "Qualifier.type.set": ("qualifier_type", _e_setter(lambda w: w.m.Qualifier("t", w.dt.Int), "type")),
    "Capability.category.ctor": ("name_type", lambda w, v: w.m.Capability("c", category=v)),
    "Submodel.category.set": ("name_type", _e_setter(lambda w: w.m.Submodel("urn:x"), "category")),
    # DataElement category (AASd-090): the overriding DataElement._set_category is never wired to the property
    "Property.category.ctor": ("name_type", lambda w, v: w.m.Property("p", w.dt.Int, category=v)),
    "Property.category.set": ("name_type", _e_setter(lambda w: w.m.Property("p", w.dt.Int), "category")),
    "Range.category.set": ("name_type", _e_setter(lambda w: w.m.Range("r", w.dt.Int), "category")),
    "SpecificAssetId.name.ctor": ("label_type", lambda w, v: w.m.SpecificAssetId(v, "v")),
    "SpecificAssetId.value.ctor": ("identifier", lambda w, v: w.m.SpecificAssetId("n", v)),
    "BasicEventElement.message_topic.set": ("message_topic_type", _e_setter(
        lambda w: w.m.BasicEventElement("b", w.m.ModelReference((w.m.Key(w.m.KeyTypes.SUBMODEL, "urn:s"),), w.m.Submodel),
                                        w.m.Direction.OUTPUT, w.m.StateOfEvent.ON), "message_topic")),
    "AdministrativeInformation.version.set": ("version_type", _e_setter(lambda w: w.m.AdministrativeInformation(version="1"), "version")),
    "AdministrativeInformation.revision.set": ("revision_type", _e_setter(lambda w: w.m.AdministrativeInformation(version="1"), "revision")),
    "AdministrativeInformation.template_id.set": ("identifier", _e_setter(lambda w: w.m.AdministrativeInformation(), "template_id")),
    "AssetInformation.asset_type.set": ("identifier", _e_setter(lambda w: w.m.AssetInformation(global_asset_id="g"), "asset_type")),
    "AssetInformation.global_asset_id.set": ("identifier", _e_setter(lambda w: w.m.AssetInformation(global_asset_id="g"), "global_asset_id")),
    "Entity.global_asset_id.set": ("identifier", _e_setter(
        lambda w: w.m.Entity("e", w.m.EntityType.SELF_MANAGED_ENTITY, global_asset_id="g"), "global_asset_id")),
}

# ------------------------------------------------------------------------------------------------ generators

BOUNDARY_CPS = [0x0, 0x8, 0x9, 0xA, 0xB, 0xC, 0xD, 0xE, 0x1F, 0x20, 0x7F, 0xD7FF, 0xD800, 0xDFFF, 0xE000, 0xFFFD, 0xFFFE, 0xFFFF,
                0x10000, 0x10FFFF]


def boundary_strings(mn: int, mx: int) -> List[str]:
    out = ["", "a" * mn, "a" * mx, "a" * (mx + 1), "a" * max(mn, mx - 1)]
    for cp in BOUNDARY_CPS:
        out.append(chr(cp))
        out.append("a" * (mx - 1) + chr(cp))
    out.append("a" * mx + "\x00")
    out.append("\U0001F600" * mx)             # astral: len() counts code points
    return out


VERSION_POOL = ["", "0", "1", "9", "00", "01", "10", "9999", "0999", "10000", "a", "1a", "a1", "١", "1١", "١٢", "1.0", "-1",
                "+1", " 1", "1 ", "1\n", "²"]
ID_SHORT_POOL = ["", "a", "A", "z", "Z", "a1", "a_", "_a", "1a", "a-b", "a b", "a.b", "ä", "aä", "äa", "a\n", "a" * 128, "a" * 129,
                 "A" * 127 + "_", "a" * 127 + "-", "@", "[", "`", "{", "/", ":", "aZ09_", "Ab_9", "١a", "a١", "ǅ", "aǅ",
                 # (round 8) letters that FOLD onto ASCII letters (case-insensitive or compatibility matching): Kelvin sign, long s, dotted I /
                 # dotless i, Angstrom sign, full-width a - none of them is in [a-zA-Z]
                 "\u212a", "a\u212a", "\u212a1", "Temperature_\u212a", "\u017f", "a\u017f", "\u0130", "a\u0130", "\u0131x", "a\u0131", "\u212b", "\uff41", "a\uff41"]
TAGS_ASCII = ["en", "de", "en-US", "de-", "e", "E", "EN", "En", "eN", "eng", "e1", "1e", "-", "-en", "", "e-", "en_US", "a b", "zz", "az",
              "aZ", "a`", "a{", "`a", "en-" + "x" * 40,
              # (round 7) line ends and blanks at the end of the language code: not part of a tag ('$' of a regular expression matches before a final newline)
              "de\n", "en\r", "de\t", "de ", "\nde", "de\n-x", "en-US\n", "d\n"]
TAGS_NONASCII = ["ää", "äa", "aä", "Ää", "ÄÄ", "a中", "中中", "αα", "ßa", "Αα", "אא", "äß-x"]
INT_VALUES = ["0", "7", "12", "007", "٣", "١٢", "²", "½", "一", "-1", "+1", " 1", "1 ", "1.0", "a", "1a", "1_0", "x"]


def gen_string_lines(ctx: C.Ctx) -> List[list]:
    lines = []
    for label, (check, _) in ENTRY.items():
        mn, mx = SPEC_LIMITS[check]
        pool = boundary_strings(mn, mx)
        if check in ("version_type", "revision_type"):
            pool = pool + VERSION_POOL
        if ".category." in label:
            pool = pool + ["CONSTANT", "PARAMETER", "VARIABLE", "FOO", "variable"]
        if ctx.tier == "quick":
            keep = pool[:5] + [p for i, p in enumerate(pool[5:]) if (i + len(label)) % 3 == 0 or len(p) < 3]
            pool = keep
        for s in pool:
            lines.append(["str", check, enc(s), {"entry": label}])
    for cls, (mn, mx) in SPEC_LANG.items():
        for via in ("ctor", "setitem"):
            for s in boundary_strings(mn, mx):
                lines.append(["lang", cls, enc(s), {"via": via}])
    for s in ID_SHORT_POOL + boundary_strings(1, 128):
        for via in ("validate", "ctor", "set"):
            lines.append(["idshort", enc(s), {"via": via}])
    for t in TAGS_ASCII + TAGS_NONASCII:
        lines.append(["tag", enc(t)])
    return lines


def gen_ref_lines(ctx: C.Ctx) -> List[list]:
    rng = ctx.rng
    lines = []
    valid_mid = AAS_SUBMODEL_ELEMENTS
    for _ in range(ctx.budget(3000, 40000)):
        n = rng.randint(1, 8)
        r = rng.random()
        if r < 0.6:      # mostly-valid chain, then perturb
            ts = [rng.choice(AAS_IDENTIFIABLES)] + [rng.choice(valid_mid) for _ in range(n - 1)]
            if n > 2 and rng.random() < 0.5:
                i = rng.randrange(1, n - 1)
                ts[i] = rng.choice(["FILE", "BLOB"])
                ts[i + 1] = "FRAGMENT_REFERENCE"
            if n > 1 and rng.random() < 0.4:
                ts[-1] = "FRAGMENT_REFERENCE"
                ts[-2] = rng.choice(["FILE", "BLOB", "PROPERTY"])
            if rng.random() < 0.3:
                ts[rng.randrange(n)] = rng.choice(KT_ALL)
        else:
            ts = [rng.choice(KT_ALL) for _ in range(n)]
        vals = []
        for i, t in enumerate(ts):
            after_list = i > 0 and ts[i - 1] == "SUBMODEL_ELEMENT_LIST"
            vals.append(rng.choice(INT_VALUES) if (after_list or rng.random() < 0.1) else "urn:k")
        keys = [[t, is_int_value(v)] for t, v in zip(ts, vals)]
        lines.append(["mref", keys, {"values": vals}])
        if rng.random() < 0.3:
            ets = [rng.choice(["GLOBAL_REFERENCE", "GLOBAL_REFERENCE", "FRAGMENT_REFERENCE", "SUBMODEL", "PROPERTY"]) for _ in range(n)]
            lines.append(["eref", [[t, False] for t in ets], {"values": ["urn:k"] * n}])
    # the minimal AASd-126 chain (length 5 — beyond the exhaustive enumeration) and the AASd-128 numeric classes
    lines.append(["mref", [["SUBMODEL", False], ["FILE", False], ["FRAGMENT_REFERENCE", False], ["BLOB", False], ["FRAGMENT_REFERENCE", False]],
                  {"values": ["urn:k"] * 5}])
    for v in INT_VALUES:
        lines.append(["mref", [["SUBMODEL", False], ["SUBMODEL_ELEMENT_LIST", False], ["PROPERTY", is_int_value(v)]],
                      {"values": ["urn:k", "l", v]}])
    return lines


STR_G = [None, "g", "", "g" * 2000, "g" * 2001, "\x00"]
CONTS = ["list", "tuple", "iter", "gen"]


def list_ops(pool_n: int = 3) -> List[list]:
    xs = list(range(pool_n))
    ops = [["append", 2], ["insert", 0, 2], ["insert", -1, 1], ["insert", 9, 1], ["extend", []], ["extend", [1]], ["extend", [1, 2]],
           ["iadd", []], ["iadd", [2]], ["setitem", 0, 2], ["setitem", -1, 1], ["setitem", 5, 1], ["setslice", None, None, []],
           ["setslice", None, None, [1]], ["setslice", 0, 1, []], ["setslice", 0, 1, [1, 2]], ["setslice", 1, None, []],
           ["setslice", -1, None, [0]], ["setslice", 5, 2, [2]], ["assign", []], ["assign", [0]], ["assign", [1, 2]], ["delitem", 0],
           ["delitem", -1], ["delitem", 3], ["delslice", None, None], ["delslice", 0, 1], ["delslice", 1, None], ["delslice", -1, None],
           ["delslice", 2, 1], ["pop"], ["pop", 0], ["pop", 4], ["clear"], ["remove", 0], ["remove", 5]]
    assert xs
    return ops


def rand_list_op(rng: random.Random) -> list:
    k = rng.choice(["append", "insert", "extend", "iadd", "setitem", "setslice", "delitem", "delslice", "pop", "clear", "remove", "assign"])
    ri = lambda: rng.choice([0, 1, 2, 3, -1, -2, -3, 5, -7])  # noqa
    ro = lambda: rng.choice([None, 0, 1, 2, -1, -2, 4, -5])  # noqa
    rx = lambda: rng.randrange(6)  # noqa
    rl = lambda: [rng.randrange(6) for _ in range(rng.choice([0, 0, 1, 1, 2, 3]))]  # noqa
    if k == "append":
        return [k, rx()]
    if k == "insert":
        return [k, ri(), rx()]
    if k in ("extend", "iadd", "assign"):
        return [k, rl()]
    if k == "setitem":
        return [k, ri(), rx()]
    if k == "setslice":
        return [k, ro(), ro(), rl()]
    if k == "delitem":
        return [k, ri()]
    if k == "delslice":
        return [k, ro(), ro()]
    if k == "pop":
        return [k] + ([ri()] if rng.random() < 0.5 else [])
    if k == "clear":
        return [k]
    return [k, rx()]


def gen_histories(ctx: C.Ctx) -> List[List[list]]:
    """Each history starts with a `<family>.new` line."""
    rng = ctx.rng
    H: List[List[list]] = []
    quick = ctx.tier == "quick"

    def with_cont(line: list) -> list:
        return line + [{"cont": rng.choice(CONTS + ["list"])}]

    # ---- Entity: every (type x gid? x sids empty?) x every op order (exhaustive depth 2 / 3) + random long
    ent_ops = ([["entity.type", t] for t in ("SELF_MANAGED_ENTITY", "CO_MANAGED_ENTITY")]
               + [["entity.gid", enc(g)] for g in (None, "g", "")] + [["entity.list", l] for l in list_ops()])
    ctors = [["entity.new", t, enc(g), s] for t in ("SELF_MANAGED_ENTITY", "CO_MANAGED_ENTITY") for g in (None, "g", "") for s in ([], [0], [0, 1])]
    depth = 2
    for c in ctors:
        for L in range(0, depth + 1):
            for seq in itertools.product(ent_ops, repeat=L):
                H.append([with_cont(c)] + [with_cont(list(o)) for o in seq])
    if not quick:      # depth 3 over the essential alphabet
        ess = [o for o in ent_ops if o[0] != "entity.list" or o[1] in (["append", 2], ["pop"], ["clear"], ["assign", []], ["assign", [0]],
                                                                         ["setslice", 0, 1, []], ["delitem", 0], ["extend", [1]])]
        for c in ctors:
            for seq in itertools.product(ess, repeat=3):
                H.append([with_cont(c)] + [with_cont(list(o)) for o in seq])
    for _ in range(ctx.budget(600, 20000)):
        h = [with_cont(["entity.new", rng.choice(["SELF_MANAGED_ENTITY", "CO_MANAGED_ENTITY"]), enc(rng.choice(STR_G[:3] + [None, "g"])),
                        [rng.randrange(6) for _ in range(rng.choice([0, 0, 1, 2]))]])]
        for _ in range(rng.randint(3, 12)):
            r = rng.random()
            if r < 0.15:
                h.append(["entity.type", rng.choice(["SELF_MANAGED_ENTITY", "CO_MANAGED_ENTITY"])])
            elif r < 0.35:
                h.append(["entity.gid", enc(rng.choice(STR_G))])
            elif r < 0.45:
                h.append(["entity.src", rng.choice(SRC_MUTS)])
            else:
                h.append(with_cont(["entity.list", rand_list_op(rng)]))
        H.append(h)
    H += aliasing_histories("entity", [c for c in ctors if c[2] is None or c[2] == enc("g")])

    # ---- AssetInformation
    as_ops = [["asset.gid", enc(g)] for g in (None, "g", "")] + [["asset.asset_type", enc(g)] for g in (None, "t", "")] \
        + [["asset.list", l] for l in list_ops()]
    as_ctors = [["asset.new", enc(g), s, enc(t)] for g in (None, "g", "", "g" * 2001) for s in ([], [0], [0, 1]) for t in (None, "t", "")]
    for c in as_ctors:
        for L in range(0, 2 if quick else 3):
            for seq in itertools.product(as_ops, repeat=L):
                H.append([with_cont(c)] + [with_cont(list(o)) for o in seq])
    for _ in range(ctx.budget(400, 15000)):
        h = [with_cont(["asset.new", enc(rng.choice(STR_G[:3] + ["g"])), [rng.randrange(6) for _ in range(rng.choice([0, 1, 1, 2]))],
                        enc(rng.choice([None, None, "t", ""]))])]
        for _ in range(rng.randint(3, 12)):
            r = rng.random()
            if r < 0.25:
                h.append(["asset.gid", enc(rng.choice(STR_G))])
            elif r < 0.3:
                h.append(["asset.asset_type", enc(rng.choice(STR_G))])
            elif r < 0.4:
                h.append(["asset.src", rng.choice(SRC_MUTS)])
            else:
                h.append(with_cont(["asset.list", rand_list_op(rng)]))
        H.append(h)
    H += aliasing_histories("asset", [c for c in as_ctors if (c[1] is None or c[1] == enc("g")) and c[3] is None])

    # ---- HasSemantics on five host classes
    sem_ops = [["sem.sem", r] for r in (None, 0, 1)] + [["sem.list", l] for l in list_ops()]
    for host in ("Extension", "Qualifier", "Property", "Submodel", "SpecificAssetId"):
        for sem in (None, 0):
            for supp in ([], [1], [1, 2]):
                c = ["sem.new", sem, supp]
                # SpecificAssetId is immutable: attribute assignment (also the one hidden in `+=`) raises AttributeError
                ops = [o for o in sem_ops if not (host == "SpecificAssetId" and (o[0] == "sem.sem" or o[1][0] in ("assign", "iadd")))]
                for L in range(0, 2 if (quick or host not in ("Extension",)) else 3):
                    for seq in itertools.product(ops, repeat=L):
                        H.append([c + [{"host": host, "cont": rng.choice(CONTS)}]] + [with_cont(list(o)) for o in seq])
    for _ in range(ctx.budget(400, 15000)):
        host = rng.choice(["Extension", "Qualifier", "Property", "Submodel"])
        h = [["sem.new", rng.choice([None, 0, 1]), [rng.randrange(6) for _ in range(rng.choice([0, 0, 1, 2]))],
              {"host": host, "cont": rng.choice(CONTS)}]]
        for _ in range(rng.randint(3, 12)):
            r = rng.random()
            if r < 0.3:
                h.append(["sem.sem", rng.choice([None, None, 0, 1])])
            elif r < 0.4:
                h.append(["sem.src", rng.choice(SRC_MUTS)])
            else:
                h.append(with_cont(["sem.list", rand_list_op(rng)]))
        H.append(h)
    for host in ("Extension", "Qualifier", "Property", "Submodel", "SpecificAssetId"):
        H += aliasing_histories("sem", [["sem.new", sem, supp, {"host": host}] for sem in (None, 0) for supp in ([], [1], [1, 2])],
                                immutable=(host == "SpecificAssetId"), setters=[["sem.sem", None], ["sem.sem", 1]])

    # ---- AdministrativeInformation
    vp = [None, "", "0", "1", "01", "9999", "10000", "a", "١"]
    ad_ops = [["admin.version", enc(v)] for v in vp] + [["admin.revision", enc(v)] for v in vp] \
        + [["admin.template_id", enc(v)] for v in (None, "t", "", "t" * 2001)]
    for v in vp:
        for r in vp:
            for t in (None, "t", ""):
                H.append([["admin.new", enc(v), enc(r), enc(t)]])
    for c in [["admin.new", enc(v), enc(r), None] for v in (None, "1") for r in (None, "2")]:
        for L in range(1, 3 if quick else 4):
            pool = ad_ops if L < 3 else [o for o in ad_ops if o[1] in (None, enc("1"), enc(""), enc("01"))]
            for seq in itertools.product(pool, repeat=L):
                H.append([c] + [list(o) for o in seq])

    # ---- BasicEventElement
    stamps = [None, ["naive"], ["aware", 0, True], ["aware", 0, False], ["aware", 3600, True], ["aware", 3600, False],
              ["aware", -1, True], ["aware", 1, False], ["aware", -86399, False]]
    # max_interval values: None, an ordinary duration, and the durations that are FALSY in Python (zero length, written directly
    # and as the result of duration arithmetic) — `if self.max_interval:` and `if self.max_interval is not None:` differ on them
    ev_dir = [["event.direction", d] for d in ("INPUT", "OUTPUT")]
    ev_mi = [["event.max_interval", p] for p in (True, False, "zero", "zero-arith")]
    ev_lu = [["event.last_update", s] for s in stamps]
    ev_ops = ev_dir + ev_mi + ev_lu + [["event.topic", enc(t)] for t in (None, "t", "", "t" * 256)]
    ev_ctors = [["event.new", d, enc(t), s, mi] for d in ("INPUT", "OUTPUT") for t in (None, "t", "") for s in stamps
                for mi in (True, False, "zero", "zero-arith")]
    for c in ev_ctors:
        H.append([c])
    for c in [["event.new", d, None, None, mi] for d in ("INPUT", "OUTPUT") for mi in (True, False, "zero")]:
        for L in range(1, 3 if quick else 4):
            for seq in itertools.product(ev_ops if L < 3 else ev_dir + ev_mi + ev_lu[:2] + ev_lu[4:7], repeat=L):
                H.append([c] + [list(o) for o in seq])

    # ---- LangStringSet family
    tags = ["en", "de", "en-US", "E", "e", "eng", "", "ää", "a中"]
    for cls in ["LangStringSet"] + list(SPEC_LANG):
        mx = SPEC_LANG.get(cls, (0, 5))[1]
        texts = ["", "a", "a" * mx, "a" * (mx + 1), "\x00"]
        ops = [["lss.set", enc(k), enc(v)] for k in tags for v in texts] + [["lss.del", enc(k)] for k in tags[:4]] + [["lss.clear"]] \
            + [["lss.update", [[enc("de"), enc("x")], [enc(k), enc(v)]]] for k in ("fr", "E") for v in ("y", "")] \
            + [["lss.update", []], ["lss.update", [[enc("E"), enc("y")], [enc("de"), enc("x")]]]] \
            + [["lss.setdefault", enc(k), enc(v)] for k in ("en", "de", "E") for v in ("d", "")] \
            + [["lss.pop", enc(k)] for k in ("en", "de", "zz")] + [["lss.popitem"]]
        for d in ([], [["en", "a"]], [["en", "a"], ["de", "b"]], [["E", "a"]], [["en", ""]], [["en", "a" * mx]], [["en", "a" * (mx + 1)]],
                  [["en", "a"], ["xx", "\x00"]], [["ää", "a"]]):
            H.append([["lss.new", cls, [[enc(k), enc(v)] for k, v in d]]])
        for d in ([["en", "a"]], [["en", "a"], ["de", "b"]]):
            c = ["lss.new", cls, [[enc(k), enc(v)] for k, v in d]]
            for o in ops:
                H.append([c, o])
            for _ in range(ctx.budget(60, 1500)):
                H.append([c] + [rng.choice(ops) for _ in range(rng.randint(2, 8))])
        # the dict handed to the constructor stays in the caller's hands (`lss.src.*`) and is handed to a SECOND constructor
        # (`lss.new2 cls2 False`), or the first object itself is (`lss.new2 cls2 True`): an accepted operation on one of the
        # three must leave the other two conforming to THEIR class
        for cls2 in ["LangStringSet"] + list(SPEC_LANG):
            mx2 = SPEC_LANG.get(cls2, (0, 5))[1]
            t2 = ["a", "a" * mx2, "a" * (mx2 + 1), "a" * (mx + 1), ""]
            a_ops = [["lss.set", enc(k), enc(v)] for k in ("de", "E") for v in ("a", "a" * mx, "a" * (mx2 + 1))] \
                + [["lss.del", enc("en")], ["lss.pop", enc("en")], ["lss.popitem"], ["lss.update", [[enc("de"), enc("a" * (mx2 + 1))]]]]
            b_ops = [["lss.o2.set", enc(k), enc(v)] for k in ("de", "en", "E") for v in t2] \
                + [["lss.o2.del", enc("en")], ["lss.o2.pop", enc("en")], ["lss.o2.popitem"], ["lss.o2.clear"],
                   ["lss.o2.update", [[enc("de"), enc("a" * (mx + 1))]]], ["lss.o2.setdefault", enc("de"), enc("a" * (mx + 1))]]
            s_ops = [["lss.src.set", enc(k), enc(v)] for k, v in (("fr", "x"), ("E", "x"), ("EN_us", "x"), ("en", "a" * (mx + 1)), ("en", ""))] \
                + [["lss.src.del", enc("en")], ["lss.src.del", enc("de")], ["lss.src.clear"]]
            for d in ([["en", "a"]], [["en", "a"], ["de", "b"]]):
                c = ["lss.new", cls, [[enc(k), enc(v)] for k, v in d]]
                for o in s_ops:
                    H.append([c, o])
                for from_obj in (False, True):
                    n2 = ["lss.new2", cls2, from_obj]
                    for o in a_ops + b_ops + s_ops:
                        H.append([c, n2, o])
                    for _ in range(ctx.budget(4, 100)):
                        H.append([c] + [rng.choice(a_ops + s_ops) for _ in range(rng.randint(0, 2))] + [n2]
                                 + [rng.choice(a_ops + b_ops + s_ops) for _ in range(rng.randint(2, 6))])

    # ---- typed slots
    vals: List[Any] = [None, ["bool", True], ["bool", False], ["float"], ["str", False], ["str", True], ["bytes"], ["date"], ["datetime"],
                       ["other"], ["int", 0], ["int", 5], ["int", -5],
                       ["float", "zero"], ["str", False, "empty"], ["bytes", "empty"]]      # falsy, but not None
    for n, (lo, hi) in XSD_RANGES.items():
        for b in (lo, hi):
            if b is not None:
                vals += [["int", b - 1], ["int", b], ["int", b + 1]]
    seen = set()
    vals = [v for v in vals if not (json.dumps(v) in seen or seen.add(json.dumps(v)))]
    slots = [("Property", "value"), ("Range", "min"), ("Range", "max"), ("Qualifier", "value"), ("Extension", "value")]
    for hi_, (host, slot) in enumerate(slots):
        meta = {"host": host, "slot": slot}
        for t in XSD_TYPES + ([None] if host == "Extension" else []):
            for vi, v in enumerate(vals):
                if quick and host != "Property" and (vi + hi_) % 4 and v not in FALSY_VALS:
                    continue
                H.append([["typed.new", t, v, meta]])
        for _ in range(ctx.budget(150, 4000)):
            t = rng.choice(XSD_TYPES)
            h = [["typed.new", t, rng.choice(FALSY_VALS if rng.random() < 0.25 else vals), meta]]
            for _ in range(rng.randint(2, 6)):
                if rng.random() < 0.25:
                    h.append(["typed.value_type", rng.choice(XSD_TYPES + ([None] if host == "Extension" else []))])
                else:
                    h.append(["typed.value", rng.choice(FALSY_VALS if rng.random() < 0.25 else vals)])
            H.append(h)
    H += gen_smlm(ctx, rng)
    return H


# values that are falsy in Python without being None: every `if value is None` / `is not None` test must not be a truthiness test
FALSY_VALS = [["int", 0], ["bool", False], ["float", "zero"], ["str", False, "empty"], ["bytes", "empty"]]
SRC_MUTS = [["append", 2], ["append", 0], ["clear"], ["pop"], ["set0", 3]]


def aliasing_histories(fam: str, ctors: List[list], immutable: bool = False, setters: List[list] = ()) -> List[List[list]]:
    """The caller hands a plain list to the constructor / the attribute setter / extend / a slice assignment, KEEPS it and mutates it
    afterwards (`<fam>.src`).  Every class copies what it validated, so the object must not move — and must stay conforming."""
    H: List[List[list]] = []
    hand_over = [["assign", []], ["assign", [0]], ["assign", [1, 2]], ["extend", [1]], ["extend", [1, 2]], ["setslice", 0, 1, [1, 2]],
                 ["setslice", None, None, [0]], ["iadd", [2]]]
    if immutable:
        hand_over = [l for l in hand_over if l[0] not in ("assign", "iadd")]
    for c in ctors:
        meta = next((a for a in c if isinstance(a, dict)), {})
        c = [a for a in c if not isinstance(a, dict)] + [dict(meta, cont="list")]
        for mut in SRC_MUTS:
            H.append([c, [f"{fam}.src", mut]])
            for st in setters:
                if not immutable:
                    H.append([c, list(st), [f"{fam}.src", mut]])
            for lop in hand_over:
                H.append([c, [f"{fam}.list", lop, {"cont": "list"}], [f"{fam}.src", mut]])
    return H


def gen_smlm(ctx: C.Ctx, rng: random.Random) -> List[List[list]]:
    """SubmodelElementList histories in which children are modified AFTER they were put into the list: whatever the list enforces on
    insertion (AASd-107/108/109/114/120) has to hold after every later accepted setter call on a member, too."""
    H: List[List[list]] = []
    quick = ctx.tier == "quick"

    def el(tv, vt, si, cls=None, evt=None, has=False):
        c = cls or tv
        return [c, si, (evt or vt or "Int") if c in ("Property", "Range") else None, has]

    cfgs = [("Property", None, "Int"), ("Property", 0, "Int"), ("MultiLanguageProperty", None, None), ("MultiLanguageProperty", 1, None),
            ("Range", 1, "String"), ("Capability", None, None)]
    for tv, sil, vt in cfgs:
        inits = [[], [None], [sil if sil is not None else 0], [0, 0] if sil in (None, 0) else [1, 1], [None, sil if sil is not None else 0],
                 [None, None], [1, None, 1] if sil in (None, 1) else [0, None, 0]]
        ops = [["smlm.setsem", t, r] for t in (0, 1, 2) for r in (None, 0, 1)] \
            + [["smlm.setvt", t, v] for t in (0, 1) for v in ("Int", "String")] + [["smlm.setid", t, u] for t in (0, 1) for u in (True, False)] \
            + [["smlm.remove", t] for t in (0, 1, 2)] + [["smlm.readd", t] for t in (0, 1)] \
            + [["smlm.add", e] for e in (el(tv, vt, None), el(tv, vt, 0), el(tv, vt, 1), el(tv, vt, None, cls="Capability" if tv != "Capability"
                                         else "Property"), el(tv, vt, None, evt="String" if vt != "String" else "Int"), el(tv, vt, None, has=True))]
        core = [o for o in ops if o[0] in ("smlm.setsem", "smlm.remove", "smlm.readd") or (o[0] == "smlm.add" and o[1][3] is False)]
        for init in inits:
            c = ["smlm.new", tv, sil, vt, [el(tv, vt, si) for si in init]]
            H.append([c])
            for o in ops:
                H.append([c, o])
            for o1 in core:
                for o2 in (core if (not quick or o1[0] == "smlm.setsem") else [o for o in core if o[0] == "smlm.setsem"]):
                    H.append([c, o1, o2])
        # constructor: every single deviation
        for bad in (el(tv, vt, None, has=True), el(tv, vt, None, cls="Capability" if tv != "Capability" else "Property"),
                    el(tv, vt, None, evt="String" if vt != "String" else "Int"), el(tv, vt, 1 if sil != 1 else 0)):
            H.append([["smlm.new", tv, sil, vt, [el(tv, vt, sil), bad]]])
            H.append([["smlm.new", tv, sil, vt, [bad, el(tv, vt, 0)]]])
        if tv in ("Property", "Range"):
            H.append([["smlm.new", tv, sil, None, []]])
    classes = ["Property", "Range", "Capability", "MultiLanguageProperty", "RelationshipElement", "AnnotatedRelationshipElement"]
    for k in range(ctx.budget(1200, 20000)):
        tv = rng.choice(classes)
        vt = rng.choice(["Int", "String"]) if tv in ("Property", "Range") else None
        sil = rng.choice([None, None, 0, 1])
        base = sil if sil is not None else rng.choice([0, 1])     # the id most children agree on (rejected assignments are the minority)
        with_vt = k % 3 == 0          # two thirds of the histories leave `value_type` alone (it is a known gap that would mask the rest)

        def rel():
            si = rng.choice([None, base, base, base, 1 - base])
            if rng.random() < 0.9:
                return el(tv, vt, si, has=rng.random() < 0.05)
            return el(tv, vt, si, cls=rng.choice(classes), evt=rng.choice(["Int", "String"]))
        init = [el(tv, vt, rng.choice([None, base])) for _ in range(rng.choice([0, 1, 2, 2, 3, 4]))]
        h = [["smlm.new", tv, sil, vt, init]]
        n = len(init)
        for _ in range(rng.randint(2, 9)):
            r = rng.random()
            t = rng.randrange(n + 1)
            if r < 0.2:
                h.append(["smlm.add", rel()])
                n += 1
            elif r < 0.6:
                h.append(["smlm.setsem", t, rng.choice([None, base, base, base, 1 - base, 2])])
            elif r < 0.7:
                h.append(["smlm.setvt", t, rng.choice(["Int", "String"])] if with_vt else ["smlm.setsem", t, base])
            elif r < 0.78:
                h.append(["smlm.setid", t, rng.random() < 0.5])
            elif r < 0.9:
                h.append(["smlm.remove", t])
            else:
                h.append(["smlm.readd", t])
        H.append(h)
    return H


# ------------------------------------------------------------------------------------------------ the oracle (specification over public attributes)

def spec_state_violations(w: World, fam: str) -> List[str]:
    """Constraint tags violated by the current public attributes of the family's object (empty = conforms)."""
    o = w.obj.get(fam)
    m = w.m
    v: List[str] = []
    if o is None:
        return v
    if fam == "admin":
        if not str_ok("version_type", o.version):
            v.append("version-type")
        if not str_ok("revision_type", o.revision):
            v.append("revision-type")
        if not str_ok("identifier", o.template_id):
            v.append("identifier")
        if o.version is None and o.revision is not None:
            v.append("aasd005")
    elif fam == "entity":
        ne = len(o.specific_asset_id) > 0
        if not str_ok("identifier", o.global_asset_id):
            v.append("identifier")
        if o.entity_type == m.EntityType.SELF_MANAGED_ENTITY and o.global_asset_id is None and not ne:
            v.append("aasd014")
        if o.entity_type == m.EntityType.CO_MANAGED_ENTITY and (o.global_asset_id is not None or ne):
            v.append("aasd014")
    elif fam == "asset":
        if not str_ok("identifier", o.global_asset_id) or not str_ok("identifier", o.asset_type):
            v.append("identifier")
        if o.global_asset_id is None and len(o.specific_asset_id) == 0:
            v.append("aasd131")
    elif fam == "sem":
        if len(o.supplemental_semantic_id) > 0 and o.semantic_id is None:
            v.append("aasd118")
    elif fam == "event":
        import datetime
        if o.direction == m.Direction.INPUT and o.max_interval is not None:
            v.append("direction-max-interval")
        if o.last_update is not None and o.last_update.utcoffset() != datetime.timedelta(0):
            v.append("last-update-utc")
        if not str_ok("message_topic_type", o.message_topic):
            v.append("message-topic-type")
    elif fam == "lss":
        # BOTH language string sets, each against the limits of ITS OWN class, whichever of them (or the caller's dict) was operated on
        for which, x in (("", o["a"]), ("second-object:", o["b"])):
            if x is None:
                continue
            if len(x) < 1:
                v.append(which + "empty")
            cls = type(x).__name__
            for k, t in x.items():
                if lang_code_judgeable(k) and not tag_ok(k):
                    v.append(which + "language-tag")
                if cls in SPEC_LANG and not str_ok(cls, t, SPEC_LANG):
                    v.append(which + "text-limits")
    elif fam == "smlm":
        sml = o["sml"]
        v += sml_violations(w, sml, None)
        for x in sml.value:
            if x.id_short is None or not x.id_short.startswith("generated_submodel_list_hack_"):
                v.append("aasd120")
            if x.parent is not sml:
                v.append("child-without-parent")
    elif fam == "typed":
        slot = w.meta["typed"]["slot"]
        val = getattr(o, slot)
        if val is not None:
            c = conforms(w, val, o.value_type)
            if c is False:
                v.append("value-type-mismatch")
    return v


def conforms(w: World, val, t) -> Optional[bool]:
    """True / False / None (= neutral zone, not judged)."""
    import datetime
    if t is None:
        return False
    n = w.type_name(t)
    if n in XSD_RANGES:
        if isinstance(val, bool):
            return None
        if not isinstance(val, int):
            return False
        lo, hi = XSD_RANGES[n]
        return (lo is None or lo <= val) and (hi is None or val <= hi)
    if n == "Boolean":
        return isinstance(val, bool)
    if n in ("String", "AnyURI"):
        return isinstance(val, str)
    if n == "NormalizedString":
        return isinstance(val, str) and not any(c in val for c in "\r\n\t")
    if n in ("Float", "Double"):
        return isinstance(val, float)
    if n in ("Base64Binary", "HexBinary"):
        return isinstance(val, (bytes, bytearray))
    if n == "Date":
        return isinstance(val, datetime.date) and not isinstance(val, datetime.datetime)
    if n == "DateTime":
        return isinstance(val, datetime.datetime)
    return isinstance(val, t)


def snapshot(w: World, fam: str):
    return json.dumps(w.view(fam), sort_keys=True)


def expected_after_raise(pre: str, line: list) -> str:
    """What the public view must be after a call that raised: the view before the call.  (`smlm.add` brings its own new,
    still detached child with it: that child is listed, exactly as it was built.)"""
    if line[0] == "smlm.add":
        v = json.loads(pre)
        c, si, vt, has = line[1]
        v[1].append([c, si, vt if c in ("Property", "Range") else None, 1 if has else 0, False])
        return json.dumps(v, sort_keys=True)
    return pre


def judge_history(h: List[list]) -> Tuple[List[Any], Optional[C.Failing]]:
    """Run one history on the implementation; return its outputs and the first oracle failure (if any)."""
    w = World()
    outs = []
    fail: Optional[C.Failing] = None
    fam = h[0][0].split(".")[0]
    for i, line in enumerate(h):
        pre = snapshot(w, fam) if w.obj.get(fam) is not None else None
        r = w.do(line)
        outs.append(r)
        if fail is not None or r == ["no-object"]:
            continue
        op = line[0]
        entry = op if op not in (f"{fam}.list", f"{fam}.src") else f"{op}.{line[1][0]}"
        host = next((a.get("host") for a in line[1:] if isinstance(a, dict) and "host" in a), None) or w.meta.get(fam, {}).get("host")
        tagp = f"{host}:" if host and fam in ("sem", "typed") else ""
        if r[0] == ["ok"]:
            bad = spec_state_violations(w, fam)
            if bad:
                fail = C.Failing(f"{tagp}{entry}:accepted:{bad[0]}", f"{line[:3]} accepted, object then violates {bad}: {w.view(fam)}",
                                 h[: i + 1], w.view(fam), "raise or a conforming object")
        else:
            if pre is not None and snapshot(w, fam) != expected_after_raise(pre, line):
                fail = C.Failing(f"{tagp}{entry}:raised:not-atomic", f"{line[:3]} raised {r[0]} but changed the object: {pre} -> {snapshot(w, fam)}",
                                 h[: i + 1], snapshot(w, fam), pre)
            elif r[0][1] not in ("AASCV", "ValueError", "TypeError", "KeyError", "IndexError"):
                fail = C.Failing(f"{tagp}{entry}:raised:undocumented-{r[0][1]}", f"{line[:3]} raised {r[0]}", h[: i + 1])
    return outs, fail


def judge_stateless(line: list, w: World) -> Tuple[Any, Optional[C.Failing]]:
    r = w.do(line)
    op = line[0]
    meta = next((a for a in line[1:] if isinstance(a, dict)), {})
    f = None
    acc = (r == ["ok"])
    if op == "str":
        s = dec(line[2])
        good = str_ok(line[1], s)
        if r == ["raise", "AssertionError"]:
            f = C.Failing(f"{meta['entry']}:not-atomic-or-not-stored", f"{meta['entry']}({s[:20]!r}…)", line)
        elif acc and good and meta["entry"].split(".")[0] in ("Property", "Range") and ".category." in meta["entry"] \
                and s not in ("CONSTANT", "PARAMETER", "VARIABLE"):
            f = C.Failing(f"{meta['entry']}:accepted:aasd090", f"{meta['entry']} accepted category {s[:20]!r} (AASd-090: CONSTANT, "
                          "PARAMETER or VARIABLE)", line)
        elif acc and not good:
            f = C.Failing(f"{meta['entry']}:accepted:{line[1]}", f"{meta['entry']} accepted a string outside {line[1]} (len {len(s)}, "
                          f"cps {[hex(ord(c)) for c in s[-2:]]})", line)
        elif not acc and r != ["raise", "ValueError"]:
            f = C.Failing(f"{meta['entry']}:raised:{r[1]}", f"documented error is ValueError, got {r}", line)
    elif op == "lang":
        s = dec(line[2])
        if acc and not str_ok(line[1], s, SPEC_LANG):
            f = C.Failing(f"{line[1]}.{meta.get('via')}:accepted:text-limits", f"{line[1]} accepted a text of length {len(s)}", line)
    elif op == "idshort":
        s = dec(line[1])
        if acc and not id_short_ok(s):
            f = C.Failing(f"id_short.{meta.get('via')}:accepted:aasd002", f"id_short {s[:20]!r} accepted", line)
        elif not acc and r[1] not in ("ValueError", "AASCV"):
            f = C.Failing(f"id_short.{meta.get('via')}:raised:{r[1]}", f"got {r}", line)
    elif op == "tag":
        s = dec(line[1])
        if acc and lang_code_judgeable(s) and not tag_ok(s):
            f = C.Failing("LangStringSet.ctor:accepted:language-tag", f"language tag {s!r} accepted", line)
    elif op in ("mref", "eref"):
        keys = [(t, is_int_value(v)) for (t, _), v in zip(line[1], meta["values"])]
        viol = model_ref_violations(keys) if op == "mref" else ext_ref_violations(keys)
        if acc and viol:
            f = C.Failing(f"{op}:accepted:aasd{viol[0]}", f"{[k[0] for k in keys]} / {meta['values']} accepted, violates AASd-{viol}", line)
        elif not acc and r[:2] == ["raise", "AASCV"] and viol and r[2] not in viol:
            f = C.Failing(f"{op}:raised:wrong-number-{r[2]}", f"raised AASd-{r[2]} but violated are {viol}", line)
        elif not acc and r[1] not in ("AASCV", "ValueError"):
            f = C.Failing(f"{op}:raised:{r[1]}", f"got {r}", line)
    return r, f


# ------------------------------------------------------------------------------------------------ enumeration of key chains

def enum_codes(L: int, flag: bool, ext: bool = False) -> List[int]:
    from basyx.aas import model
    keys = {t: model.Key(getattr(model.KeyTypes, t), "7" if flag else "urn:k") for t in KT_ALL}
    out = []
    for ts in itertools.product(KT_ALL, repeat=L):
        try:
            if ext:
                model.ExternalReference(tuple(keys[t] for t in ts))
            else:
                model.ModelReference(tuple(keys[t] for t in ts), model.Submodel)
            out.append(0)
        except model.AASConstraintViolation as e:
            out.append(e.constraint_id)
        except ValueError:
            out.append(-1)
    return out


def enum_oracle(L: int, flag: bool, codes: List[int], ext: bool) -> Optional[C.Failing]:
    for ts, c in zip(itertools.product(KT_ALL, repeat=L), codes):
        keys = [(t, flag) for t in ts]
        viol = ext_ref_violations(keys) if ext else model_ref_violations(keys)
        vals = ["7" if flag else "urn:k"] * L
        line = ["eref" if ext else "mref", [[t, flag] for t in ts], {"values": vals}]
        if c == 0 and viol:
            return C.Failing(f"{line[0]}:accepted:aasd{viol[0]}", f"{list(ts)} accepted, violates AASd-{viol}", line)
        if c > 0 and c not in viol:
            return C.Failing(f"{line[0]}:raised:wrong-number-{c}", f"{list(ts)} raised AASd-{c}, violated are {viol}", line)
    return None


# ------------------------------------------------------------------------------------------------ SubmodelElementList add check

def gen_sml(ctx: C.Ctx):
    rng = ctx.rng
    cases = []
    classes = ["Property", "Range", "Capability", "MultiLanguageProperty", "RelationshipElement", "AnnotatedRelationshipElement"]
    for _ in range(ctx.budget(1500, 30000)):
        tv = rng.choice(classes)
        vt = rng.choice([None, "Int", "String"]) if tv in ("Property", "Range") or rng.random() < 0.2 else None
        cfg = [tv, rng.choice([None, None, 0, 1]), vt]
        elems = []
        for _ in range(rng.randint(1, 4)):
            c = tv if rng.random() < 0.8 else rng.choice(classes)
            evt = (vt if rng.random() < 0.8 else rng.choice(["Int", "String"])) if c in ("Property", "Range") else None
            if c in ("Property", "Range") and evt is None:
                evt = "Int"
            si = cfg[1] if (cfg[1] is not None and rng.random() < 0.6) else rng.choice([None, None, 0, 0, 1])
            elems.append([c, si, evt, rng.random() < 0.1])
        cases.append((cfg, elems))
    return cases


def run_sml(case, w: World):
    """Returns (lines, impl outputs, failing)."""
    m, dt = w.m, w.dt
    cfg, elems = case
    lines, outs = [], []
    fail = None

    def mk(e):
        c, si, vt, has = e
        kw = {"semantic_id": None if si is None else w.refs[si]}
        ids = "x" if has else None
        if c == "Property":
            return m.Property(ids, getattr(dt, vt), **kw)
        if c == "Range":
            return m.Range(ids, getattr(dt, vt), **kw)
        if c == "Capability":
            return m.Capability(ids, **kw)
        if c == "MultiLanguageProperty":
            return m.MultiLanguageProperty(ids, **kw)
        ref = m.ModelReference((m.Key(m.KeyTypes.SUBMODEL, "urn:s"),), m.Submodel)
        if c == "RelationshipElement":
            return m.RelationshipElement(ids, ref, ref, **kw)
        return m.AnnotatedRelationshipElement(ids, ref, ref, **kw)

    lines.append(["sml.ctor"] + cfg)
    try:
        sml = m.SubmodelElementList("l", getattr(m, cfg[0]), semantic_id_list_element=None if cfg[1] is None else w.refs[cfg[1]],
                                    value_type_list_element=None if cfg[2] is None else getattr(dt, cfg[2]))
        outs.append(["ok"])
    except Exception as e:  # noqa
        outs.append(outcome(e))
        return lines, outs, None
    existing: List[list] = []
    for e in elems:
        lines.append(["sml.add"] + cfg + [e, list(existing)])
        el = mk(e)
        n0 = len(sml.value)
        try:
            sml.value.add(el)
            outs.append(["ok"])
            existing.append(e)
            # specification of the list after an accepted add
            bad = sml_violations(w, sml, cfg)
            if bad and fail is None:
                fail = C.Failing(f"sml.add:accepted:{bad[0]}", f"cfg {cfg}, added {e} to {existing[:-1]}: violates {bad}", {"sml": [cfg, elems]})
        except Exception as ex:  # noqa
            outs.append(outcome(ex))
            if fail is None and (len(sml.value) != n0 or el.parent is not None or el.id_short != ("x" if e[3] else None)):
                fail = C.Failing("sml.add:raised:not-atomic", f"cfg {cfg}, rejected {e} but list/element changed", {"sml": [cfg, elems]})
    return lines, outs, fail


def sml_violations(w: World, sml, cfg) -> List[str]:
    m = w.m
    v = []
    sems = [x.semantic_id for x in sml.value if x.semantic_id is not None]
    for x in sml.value:
        if type(x) is not sml.type_value_list_element:
            v.append("aasd108")
        if sml.semantic_id_list_element is not None and x.semantic_id is not None and x.semantic_id != sml.semantic_id_list_element:
            v.append("aasd107")
        if isinstance(x, (m.Property, m.Range)) and x.value_type is not sml.value_type_list_element:
            v.append("aasd109")
    if any(a != b for a in sems for b in sems):
        v.append("aasd114")
    return v


# ------------------------------------------------------------------------------------------------ pipeline

_CACHE: Dict[Tuple[str, int], Any] = {}


def run_all(ctx: C.Ctx):
    key = (ctx.tier, ctx.seed)
    if key in _CACHE:
        return _CACHE[key]
    rctx = C.Ctx(ctx.prop, ctx.tier, ctx.seed, random.Random(f"{ctx.prop}:{ctx.seed}"), ctx.t0, ctx.jobs)
    lines: List[list] = []
    impl: List[Any] = []
    where: List[Any] = []
    fails: List[C.Failing] = []
    hist: Dict[str, int] = {}
    nontrivial = set()

    def note(line, r):
        op = line[0] if line[0] not in ("entity.list", "asset.list", "sem.list", "entity.src", "asset.src", "sem.src") else line[0] + "." + line[1][0]
        o = r[0] if (isinstance(r, list) and r and isinstance(r[0], list)) else r
        tag = "ok" if o == ["ok"] else (":".join(str(x) for x in o[1:]) if isinstance(o, list) else str(o))
        hist[f"{op}:{tag}"] = hist.get(f"{op}:{tag}", 0) + 1
        if tag != "ok":
            nontrivial.add(f"{op}|{tag}|{C.sha(line)}")

    w = World()
    for line in gen_string_lines(rctx) + gen_ref_lines(rctx):
        r, f = judge_stateless(line, w)
        lines.append(line); impl.append(r); where.append(line)
        note(line, r)
        nontrivial.add(f"{line[0]}|{C.sha(line)}")
        if f:
            fails.append(f)
    # trivial_cast decision table
    vals = [["bool", True], ["bool", False], ["float"], ["str", False], ["str", True], ["bytes"], ["date"], ["datetime"], ["other"],
            ["int", 0], ["int", -1], ["int", 1], ["int", 2 ** 63], ["int", -2 ** 63 - 1], ["int", 255], ["int", 256]]
    for t in XSD_TYPES:
        for v in vals:
            line = ["cast", v, t]
            r = w.do(line)
            lines.append(line); impl.append(r); where.append(line)
            note(line, r)
    # SubmodelElementList add check
    for case in gen_sml(rctx):
        ls, outs, f = run_sml(case, w)
        for l, o in zip(ls, outs):
            lines.append(l); impl.append(o); where.append({"sml": case})
            note(l, o)
        if f:
            fails.append(f)
    # machines
    H = gen_histories(rctx)
    for h in H:
        lines.append(["reset"]); impl.append(["reset"]); where.append(h)
        outs, f = judge_history(h)
        for l, o in zip(h, outs):
            lines.append(l); impl.append(o); where.append(h)
            note(l, o)
        if any(o != ["no-object"] and o[0] != ["ok"] for o in outs):
            nontrivial.add(C.sha(h))
        if f:
            fails.append(f)
    # exhaustive key chains
    enum = []
    maxL = 3 if ctx.tier == "quick" else 4
    for L in range(1, maxL + 1):
        for flag in (False, True):
            codes = enum_codes(L, flag)
            enum.append((["mref_enum", L, flag], codes))
            f = enum_oracle(L, flag, codes, False)
            if f:
                fails.append(f)
    for L in range(1, 4):
        codes = enum_codes(L, False, ext=True)
        enum.append((["eref_enum", L], codes))
        f = enum_oracle(L, False, codes, True)
        if f:
            fails.append(f)
    for l, codes in enum:
        lines.append(l); impl.append(codes); where.append(l)
    res = {"lines": lines, "impl": impl, "where": where, "fails": fails, "hist": hist, "nontrivial": nontrivial,
           "histories": len(H), "enum": sum(len(c) for _, c in enum), "maxL": maxL}
    _CACHE[key] = res
    return res


def translate(ctx: C.Ctx) -> List[str]:
    from props import c02_translate
    return c02_translate.write(C.REPO, C.LEAN_DIR)


def correspond(ctx: C.Ctx, cov: C.Coverage) -> List[C.Disagreement]:
    R = run_all(ctx)
    cov.rule = ("every op line is executed on the real classes and on the Lean model; compared: outcome kind, AASd number, complete public "
                "view of the object after the call. Strings: len min-1/min/max/max+1 and first/last code point of every AASd-130 range "
                "with neighbours at every entry point (constructor and setter); key chains: exhaustive to length "
                f"{R['maxL']} x 2 value classes + random chains to length 8; machines: exhaustive op sequences to depth 2 (3 thorough) from "
                "every constructor combination + seeded random sequences to length 12, list arguments passed as list/tuple/iterator/"
                "generator; plain lists / dicts handed to constructors, setters, extend, slice assignment are KEPT by the harness and "
                "mutated afterwards (`*.src`), one dict is handed to two language-string-set constructors (6x6 class pairs); "
                "SubmodelElementList histories modify children after insertion (semantic_id, value_type, id_short, remove, re-add: "
                "exhaustive depth 1-2 over 6 configurations x 7 initial lists + seeded random to length 9); max_interval and typed values "
                "include the falsy member of every kind. non-trivial = a call that raises, or a stateless boundary case; distinct by (op, outcome, case hash)")
    cov.evaluations = len(R["lines"]) + R["enum"]
    cov.nontrivial = R["nontrivial"]
    cov.histogram = R["hist"]
    cov.exhaustive = True
    cov.extra["histories"] = R["histories"]
    cov.extra["key_chains_enumerated"] = R["enum"]
    cov.extra["neutral_zones"] = ASSUMPTIONS[-1]
    cov.samples = [R["where"][i] for i in (0, len(R["where"]) // 2, len(R["where"]) - 5) if i < len(R["where"])][:3]
    model_out = C.run_model("C02", R["lines"])
    dis: List[C.Disagreement] = []
    if len(model_out) != len(R["impl"]):
        return [C.Disagreement("driver output length", None, len(model_out), len(R["impl"]))]
    for k, (mo, io) in enumerate(zip(model_out, R["impl"])):
        if mo != io:
            line = R["lines"][k]
            if line[0] in ("mref_enum", "eref_enum") and isinstance(mo, list) and isinstance(io, list) and len(mo) == len(io):
                j = next(i for i in range(len(mo)) if mo[i] != io[i])
                ts = list(itertools.product(KT_ALL, repeat=line[1]))[j]
                dis.append(C.Disagreement(f"{line} at {list(ts)}", {"enum": line, "types": list(ts)}, mo[j], io[j]))
            else:
                dis.append(C.Disagreement(f"line {json.dumps(line)[:160]}", R["where"][k], mo, io))
            if len(dis) >= 5:
                break
    return dis


def oracle(ctx: C.Ctx, cov: C.Coverage) -> List[C.Failing]:
    R = run_all(ctx)
    out, sigs = [], set()
    for f in R["fails"]:
        if f.sig not in sigs:
            sigs.add(f.sig)
            out.append(_minimise(f))
    return out


def _minimise(f: C.Failing) -> C.Failing:
    case = f.case
    if isinstance(case, list) and case and isinstance(case[0], list) and isinstance(case[0][0], str) and case[0][0].endswith(".new"):
        head, tail = case[0], case[1:]

        def fails(ops):
            g = judge_history([head] + ops)[1]
            return g is not None and g.sig == f.sig
        if len(tail) > 1:
            tail = C.ddmin(tail, fails)
            f.case = [head] + tail
        hist = json.dumps([[x for x in l if not isinstance(x, dict)] for l in f.case])
        if len(hist) <= 400 and "| history: " not in f.what:
            f.what += " | history: " + hist
    return f


def replay(case) -> Optional[C.Failing]:
    if isinstance(case, dict) and "sml" in case:
        return run_sml((case["sml"][0], case["sml"][1]), World())[2]
    if isinstance(case, list) and case and isinstance(case[0], list):
        return judge_history(case)[1]
    if isinstance(case, list) and case and isinstance(case[0], str):
        return judge_stateless(case, World())[1]
    return None


def search(ctx: C.Ctx, disagreements, broken) -> List[C.Failing]:
    out: List[C.Failing] = []
    for d in disagreements:
        f = None
        try:
            if isinstance(d.case, dict) and "enum" in d.case:
                ts = d.case["types"]
                for flag in (False, True):
                    vals = ["7" if flag else "urn:k"] * len(ts)
                    f = f or judge_stateless([d.case["enum"][0].replace("_enum", ""), [[t, flag] for t in ts], {"values": vals}], World())[1]
            else:
                f = replay(d.case)
        except Exception:  # noqa
            f = None
        if f:
            out.append(f)
    if out:
        return out
    big = C.Ctx(ctx.prop, "thorough", ctx.seed + 1, random.Random(f"search:{ctx.seed}"), ctx.t0, ctx.jobs)
    return oracle(big, C.Coverage())
