"""C02 translator: regenerates lean/Basyx/Gen/{StrCons,KeyTypes,IntRanges}.lean from the SDK *source text* (Python `ast`,
nothing is imported or executed).  A construct outside the shapes understood here is reported as a broken tie, never guessed.
"""
from __future__ import annotations

import ast
import os
from typing import Any, Dict, List, Optional, Tuple

HEADER = "/- GENERATED on every run by py/props/c02_translate.py from {src} (Python ast) — do not edit by hand. -/\n"


class Unrecognised(Exception):
    pass


def _parse(path: str) -> ast.Module:
    return ast.parse(open(path, encoding="utf-8").read(), filename=path)


def _lstr(s: str) -> str:
    out = ['"']
    for ch in s:
        o = ord(ch)
        if ch in '"\\':
            out.append("\\" + ch)
        elif 32 <= o < 127:
            out.append(ch)
        else:
            out.append("\\u{%x}" % o)
    out.append('"')
    return "".join(out)


def _const_int(node: ast.AST) -> int:
    if isinstance(node, ast.Constant) and isinstance(node.value, int) and not isinstance(node.value, bool):
        return node.value
    if isinstance(node, ast.UnaryOp) and isinstance(node.op, ast.USub):
        return -_const_int(node.operand)
    if isinstance(node, ast.BinOp):
        a, b = _const_int(node.left), _const_int(node.right)
        if isinstance(node.op, ast.Pow) and 0 <= b <= 128:
            return a ** b
        if isinstance(node.op, ast.Sub):
            return a - b
        if isinstance(node.op, ast.Add):
            return a + b
        if isinstance(node.op, ast.Mult):
            return a * b
    raise Unrecognised("integer expression " + ast.dump(node)[:80])


# ------------------------------------------------------------------------------------------ _string_constraints.py

def _char_class_ranges(pattern: str) -> List[Tuple[int, int]]:
    if not (pattern.startswith("[") and pattern.endswith("]*")) or pattern[1:2] == "^":
        raise Unrecognised("AASD130_RE is not of the form [..]*: %r" % pattern)
    body = pattern[1:-2]
    if "\\" in body or "]" in body or "[" in body:
        raise Unrecognised("AASD130_RE character class contains an escape or bracket")
    out = []
    i = 0
    while i < len(body):
        a = ord(body[i])
        if i + 2 < len(body) and body[i + 1] == "-":
            out.append((a, ord(body[i + 2])))
            i += 3
        else:
            if body[i] == "-":
                raise Unrecognised("literal '-' in AASD130_RE")
            out.append((a, a))
            i += 1
    return out


def _check_call(call: ast.Call) -> Optional[Tuple[str, List[ast.AST], Dict[str, ast.AST]]]:
    f = call.func
    name = f.id if isinstance(f, ast.Name) else (f.attr if isinstance(f, ast.Attribute) else None)
    if name is None:
        return None
    return name, list(call.args), {k.arg: k.value for k in call.keywords if k.arg}


def _pattern_of(node: Optional[ast.AST]) -> str:
    if node is None or (isinstance(node, ast.Constant) and node.value is None):
        return ""
    if isinstance(node, ast.Call):
        c = _check_call(node)
        if c and c[0] == "compile" and len(c[1]) == 1 and isinstance(c[1][0], ast.Constant) and isinstance(c[1][0].value, str):
            return c[1][0].value
    raise Unrecognised("pattern argument " + ast.dump(node)[:80])


def extract_string_constraints(path: str) -> Dict[str, Any]:
    mod = _parse(path)
    ranges = None
    raw: Dict[str, Any] = {}
    decorators: Dict[str, str] = {}
    check_body_ok = False
    for st in mod.body:
        if isinstance(st, ast.Assign) and len(st.targets) == 1 and isinstance(st.targets[0], ast.Name) \
                and st.targets[0].id == "AASD130_RE":
            c = _check_call(st.value) if isinstance(st.value, ast.Call) else None
            if not c or c[0] != "compile" or not isinstance(c[1][0], ast.Constant):
                raise Unrecognised("AASD130_RE assignment")
            ranges = _char_class_ranges(c[1][0].value)
        if isinstance(st, ast.FunctionDef) and st.name == "check":
            check_body_ok = _check_fn_shape(st)
        if isinstance(st, ast.FunctionDef) and st.name.startswith("check_"):
            rets = [s for s in st.body if isinstance(s, ast.Return)]
            others = [s for s in st.body if not isinstance(s, ast.Return)
                      and not (isinstance(s, ast.Expr) and isinstance(s.value, ast.Constant))]
            if len(rets) != 1 or others or not isinstance(rets[0].value, ast.Call):
                raise Unrecognised(f"{st.name}: body is not a single `return check…(…)`")
            name, args, kw = _check_call(rets[0].value)
            argn = [a.id if isinstance(a, ast.Name) else None for a in args[:2]]
            if argn != ["value", "type_name"]:
                raise Unrecognised(f"{st.name}: first arguments are not (value, type_name)")
            if name == "check":
                mn = _const_int(args[2]) if len(args) > 2 else _const_int(kw["min_length"]) if "min_length" in kw else 0
                mxn = args[3] if len(args) > 3 else kw.get("max_length")
                if mxn is None or (isinstance(mxn, ast.Constant) and mxn.value is None):
                    raise Unrecognised(f"{st.name}: no max_length")
                pat = _pattern_of(args[4] if len(args) > 4 else kw.get("pattern"))
                raw[st.name[6:]] = (mn, _const_int(mxn), pat)
            elif name.startswith("check_") and len(args) == 2:
                raw[st.name[6:]] = ("delegate", name[6:])
            else:
                raise Unrecognised(f"{st.name}: calls {name}")
        if isinstance(st, ast.FunctionDef) and st.name.startswith("constrain_") and st.name != "constrain_attr":
            rets = [s for s in st.body if isinstance(s, ast.Return)]
            c = _check_call(rets[0].value) if rets and isinstance(rets[0].value, ast.Call) else None
            if not c or c[0] != "constrain_attr" or len(c[1]) != 2 or not isinstance(c[1][1], ast.Name):
                raise Unrecognised(f"{st.name}: not `return constrain_attr(pub_attr_name, check_x)`")
            decorators[st.name] = c[1][1].id[6:]
    if ranges is None:
        raise Unrecognised("AASD130_RE not found")
    if not check_body_ok:
        raise Unrecognised("check(): body no longer has the four guarded raises (min, max, pattern, AASd-130)")
    limits = []
    for k in sorted(raw):
        v = raw[k]
        seen = set()
        while v[0] == "delegate":
            if v[1] in seen or v[1] not in raw:
                raise Unrecognised(f"check_{k}: delegation cycle / unknown target")
            seen.add(v[1])
            v = raw[v[1]]
        limits.append((k, v[0], v[1], v[2]))
    return {"ranges": ranges, "limits": limits, "decorators": decorators}


def _check_fn_shape(fn: ast.FunctionDef) -> bool:
    """check(): exactly four `if …: raise ValueError` statements in the order min, max, pattern, AASD130."""
    ifs = [s for s in fn.body if isinstance(s, ast.If)]
    if len(ifs) != 4 or any(len(i.body) != 1 or not isinstance(i.body[0], ast.Raise) or i.orelse for i in ifs):
        return False
    srcs = [ast.unparse(i.test) for i in ifs]
    want = ["len(value) < min_length", "max_length is not None and len(value) > max_length",
            "pattern is not None and (not pattern.fullmatch(value))", "not AASD130_RE.fullmatch(value)"]
    kinds = [ast.unparse(i.body[0].exc.func) if isinstance(i.body[0].exc, ast.Call) else "" for i in ifs]
    return srcs == want and kinds == ["ValueError"] * 4


# ------------------------------------------------------------------------------------------ model/*.py usage tables

def extract_usage(paths: List[str], decorators: Dict[str, str]) -> Dict[str, Any]:
    attrs: List[Tuple[str, str, str]] = []
    calls: List[Tuple[str, str]] = []
    lang: List[Tuple[str, int, int]] = []
    id_short_pattern = None
    for path in paths:
        mod = _parse(path)
        for cls in [s for s in mod.body if isinstance(s, ast.ClassDef)]:
            for d in cls.decorator_list:
                c = _check_call(d) if isinstance(d, ast.Call) else None
                if c and c[0] in decorators and len(c[1]) == 1 and isinstance(c[1][0], ast.Constant):
                    attrs.append((cls.name, c[1][0].value, decorators[c[0]]))
                elif c and c[0].startswith("constrain_"):
                    raise Unrecognised(f"decorator {c[0]} on {cls.name}")
            for fn in [s for s in cls.body if isinstance(s, ast.FunctionDef)]:
                for node in ast.walk(fn):
                    if isinstance(node, ast.Call):
                        c = _check_call(node)
                        if c and c[0].startswith("check_") and isinstance(node.func, ast.Attribute) \
                                and isinstance(node.func.value, ast.Name) and node.func.value.id == "_string_constraints":
                            calls.append((f"{cls.name}.{fn.name}", c[0][6:]))
                        if c and c[0] == "fullmatch" and cls.name == "Referable" and fn.name == "validate_id_short" \
                                and c[1] and isinstance(c[1][0], ast.Constant):
                            id_short_pattern = c[1][0].value
                # ConstrainedLangStringSet subclasses: super().__init__(dict_, <check>)
                if fn.name == "__init__" and any(isinstance(b, ast.Name) and b.id == "ConstrainedLangStringSet" for b in cls.bases):
                    found = False
                    for node in ast.walk(fn):
                        c = _check_call(node) if isinstance(node, ast.Call) else None
                        if c and c[0] == "__init__" and len(c[1]) == 2:
                            a = c[1][1]
                            if isinstance(a, ast.Attribute) and a.attr.startswith("check_"):
                                lang.append((cls.name, "ref", a.attr[6:]))
                                found = True
                            elif isinstance(a, ast.Call):
                                cc = _check_call(a)
                                if cc and cc[0] == "create_check_function" and not cc[1] and set(cc[2]) == {"min_length", "max_length"}:
                                    lang.append((cls.name, _const_int(cc[2]["min_length"]), _const_int(cc[2]["max_length"])))
                                    found = True
                    if not found:
                        raise Unrecognised(f"{cls.name}.__init__: constraint function of the lang string set not recognised")
    if id_short_pattern is None:
        raise Unrecognised("Referable.validate_id_short: re.fullmatch(<literal>, …) not found")
    return {"attrs": sorted(attrs), "calls": sorted(set(calls)), "lang": lang, "id_short_pattern": id_short_pattern}


# ------------------------------------------------------------------------------------------ KeyTypes

def extract_key_types(base_path: str) -> Dict[str, Any]:
    mod = _parse(base_path)
    cls = next((s for s in mod.body if isinstance(s, ast.ClassDef) and s.name == "KeyTypes"), None)
    if cls is None:
        raise Unrecognised("class KeyTypes not found")
    members: List[Tuple[str, int]] = []
    props: List[Tuple[str, str]] = []

    def expr(e: ast.AST) -> str:
        # self in (self.A, self.B)  |  self == self.A  |  self.p  |  a or b | a and b | not a
        if isinstance(e, ast.Compare) and len(e.ops) == 1 and isinstance(e.left, ast.Name) and e.left.id == "self":
            r = e.comparators[0]
            if isinstance(e.ops[0], ast.In) and isinstance(r, (ast.Tuple, ast.List)):
                return "[" + ", ".join("." + member(x) for x in r.elts) + "].contains k"
            if isinstance(e.ops[0], ast.Eq):
                return f"(k == .{member(r)})"
            if isinstance(e.ops[0], ast.NotEq):
                return f"(k != .{member(r)})"
        if isinstance(e, ast.Attribute) and isinstance(e.value, ast.Name) and e.value.id == "self":
            return f"k.{e.attr}"
        if isinstance(e, ast.BoolOp):
            op = " || " if isinstance(e.op, ast.Or) else " && "
            return "(" + op.join(expr(v) for v in e.values) + ")"
        if isinstance(e, ast.UnaryOp) and isinstance(e.op, ast.Not):
            return f"(!{expr(e.operand)})"
        raise Unrecognised("KeyTypes property expression " + ast.unparse(e)[:80])

    def member(x: ast.AST) -> str:
        if isinstance(x, ast.Attribute) and isinstance(x.value, ast.Name) and x.value.id in ("self", "KeyTypes"):
            return x.attr
        raise Unrecognised("KeyTypes member reference " + ast.unparse(x)[:60])

    for st in cls.body:
        if isinstance(st, ast.Assign) and len(st.targets) == 1 and isinstance(st.targets[0], ast.Name):
            members.append((st.targets[0].id, _const_int(st.value)))
        elif isinstance(st, ast.FunctionDef):
            if not any(isinstance(d, ast.Name) and d.id == "property" for d in st.decorator_list):
                raise Unrecognised(f"KeyTypes.{st.name} is not a property")
            body = [s for s in st.body if not (isinstance(s, ast.Expr) and isinstance(s.value, ast.Constant))]
            if len(body) != 1 or not isinstance(body[0], ast.Return):
                raise Unrecognised(f"KeyTypes.{st.name}: body is not a single return")
            props.append((st.name, expr(body[0].value)))
        elif isinstance(st, ast.Expr) and isinstance(st.value, ast.Constant):
            continue
        else:
            raise Unrecognised("statement in KeyTypes: " + ast.unparse(st)[:60])
    public = [(n, v) for n, v in members if not n.startswith("_")]
    names = {n for n, _ in public}
    for _, e in props:
        pass
    return {"members": public, "reserved": [(n, v) for n, v in members if n.startswith("_")], "props": props, "names": names}


# ------------------------------------------------------------------------------------------ datatypes.py

def _range_of(test: ast.AST) -> Tuple[Optional[int], Optional[int]]:
    """The condition under which ValueError is raised -> accepted range (min, max)."""
    lo: Optional[int] = None
    hi: Optional[int] = None

    def one(c: ast.AST):
        nonlocal lo, hi
        if isinstance(c, ast.Compare) and len(c.ops) == 1 and isinstance(c.left, ast.Name) and c.left.id == "res":
            v = _const_int(c.comparators[0])
            op = c.ops[0]
            if isinstance(op, ast.Gt):
                hi = v
            elif isinstance(op, ast.GtE):
                hi = v - 1
            elif isinstance(op, ast.Lt):
                lo = v
            elif isinstance(op, ast.LtE):
                lo = v + 1
            else:
                raise Unrecognised("range comparison " + ast.unparse(c))
            return
        raise Unrecognised("range condition " + ast.unparse(c)[:60])

    if isinstance(test, ast.BoolOp) and isinstance(test.op, ast.Or):
        for v in test.values:
            one(v)
    elif isinstance(test, ast.UnaryOp) and isinstance(test.op, ast.Not) and isinstance(test.operand, ast.Compare) \
            and len(test.operand.ops) == 2 and all(isinstance(o, ast.LtE) for o in test.operand.ops) \
            and isinstance(test.operand.comparators[0], ast.Name) and test.operand.comparators[0].id == "res":
        lo = _const_int(test.operand.left)
        hi = _const_int(test.operand.comparators[1])
    else:
        one(test)
    return lo, hi


def extract_datatypes(path: str) -> Dict[str, Any]:
    mod = _parse(path)
    ranges: List[Tuple[str, Optional[int], Optional[int]]] = []
    bases: Dict[str, str] = {}
    kinds: Dict[str, str] = {}
    forbidden: List[int] = []
    union: List[str] = []
    cast_bases: List[str] = []
    for st in mod.body:
        if isinstance(st, ast.Assign) and len(st.targets) == 1 and isinstance(st.targets[0], ast.Name):
            tgt = st.targets[0].id
            if tgt == "AnyXSDType" and isinstance(st.value, ast.Subscript):
                sl = st.value.slice
                union = [e.id for e in (sl.elts if isinstance(sl, ast.Tuple) else [sl]) if isinstance(e, ast.Name)]
            elif isinstance(st.value, (ast.Name, ast.Attribute)) and tgt[0].isupper():
                bases[tgt] = ast.unparse(st.value)
                kinds[tgt] = "alias"
        if isinstance(st, ast.ClassDef):
            b = ast.unparse(st.bases[0]) if st.bases else "object"
            bases[st.name] = b
            kinds[st.name] = "class"
            new = next((f for f in st.body if isinstance(f, ast.FunctionDef) and f.name == "__new__"), None)
            if b == "int":
                if new is None:
                    raise Unrecognised(f"{st.name}(int) has no __new__")
                ifs = [s for s in new.body if isinstance(s, ast.If)]
                if len(ifs) != 1 or not isinstance(ifs[0].body[0], ast.Raise) \
                        or ast.unparse(ifs[0].body[0].exc.func) != "ValueError":  # type: ignore
                    raise Unrecognised(f"{st.name}.__new__: not a single `if …: raise ValueError`")
                lo, hi = _range_of(ifs[0].test)
                ranges.append((st.name, lo, hi))
            if st.name == "NormalizedString" and new is not None:
                for node in ast.walk(new):
                    if isinstance(node, ast.Compare) and isinstance(node.ops[0], ast.In) and isinstance(node.left, ast.Constant):
                        forbidden.append(ord(node.left.value))
        if isinstance(st, ast.FunctionDef) and st.name == "trivial_cast":
            for node in ast.walk(st):
                if isinstance(node, ast.For) and isinstance(node.iter, ast.Tuple):
                    cast_bases = [e.id for e in node.iter.elts if isinstance(e, ast.Name)]
    if not union or not cast_bases or not forbidden:
        raise Unrecognised("datatypes: AnyXSDType union / trivial_cast base loop / NormalizedString check not found")
    norm = {"int": "int", "float": "float", "str": "str", "bool": "bool", "bytearray": "bytearray",
            "datetime.date": "date", "datetime.datetime": "datetime", "datetime.time": "time",
            "decimal.Decimal": "decimal", "dateutil.relativedelta.relativedelta": "duration", "object": "object"}
    xsd = []
    for t in union:
        if t not in bases or bases[t] not in norm:
            raise Unrecognised(f"XSD type {t}: base {bases.get(t)} not understood")
        xsd.append((t, norm[bases[t]], kinds[t]))
    return {"ranges": ranges, "xsd": xsd, "forbidden": forbidden, "cast_bases": cast_bases}


# ------------------------------------------------------------------------------------------ emit

def _opt(i: Optional[int]) -> str:
    return "none" if i is None else (f"some ({i})" if i < 0 else f"some {i}")


def render(repo: str) -> Dict[str, str]:
    m = os.path.join(repo, "sdk", "basyx", "aas", "model")
    sc = extract_string_constraints(os.path.join(m, "_string_constraints.py"))
    us = extract_usage([os.path.join(m, f) for f in ("base.py", "aas.py", "submodel.py", "concept.py")], sc["decorators"])
    kt = extract_key_types(os.path.join(m, "base.py"))
    dt = extract_datatypes(os.path.join(m, "datatypes.py"))
    lim = {k: (a, b, p) for k, a, b, p in sc["limits"]}
    lang = []
    for c, a, b in us["lang"]:
        if a == "ref":
            if b not in lim or lim[b][2]:
                raise Unrecognised(f"{c}: check_{b} unknown or has a pattern")
            lang.append((c, lim[b][0], lim[b][1]))
        else:
            lang.append((c, a, b))
    out = {}
    s = HEADER.format(src="sdk/basyx/aas/model/_string_constraints.py, base.py, aas.py, submodel.py, concept.py")
    s += "namespace Basyx.Gen.StrCons\n\n"
    s += "/-- Character class of `AASD130_RE` as inclusive code-point ranges. -/\n"
    s += "def aasd130Ranges : List (Nat × Nat) := [" + ", ".join(f"({a}, {b})" for a, b in sc["ranges"]) + "]\n\n"
    s += "/-- `check_<name>`: (name, min_length, max_length, regex pattern or \"\"), delegations resolved. -/\n"
    s += "def limits : List (String × Nat × Nat × String) := [\n  " + ",\n  ".join(
        f"({_lstr(k)}, {a}, {b}, {_lstr(p)})" for k, a, b, p in sc["limits"]) + "]\n\n"
    s += "/-- `ConstrainedLangStringSet` subclasses: (class, min, max) of each text. -/\n"
    s += "def langLimits : List (String × Nat × Nat) := [\n  " + ",\n  ".join(f"({_lstr(c)}, {a}, {b})" for c, a, b in lang) + "]\n\n"
    s += "/-- `@constrain_*(attr)` class decorators: (class, attribute, check). -/\n"
    s += "def attrs : List (String × String × String) := [\n  " + ",\n  ".join(
        f"({_lstr(c)}, {_lstr(a)}, {_lstr(k)})" for c, a, k in us["attrs"]) + "]\n\n"
    s += "/-- direct `_string_constraints.check_*` calls: (Class.function, check). -/\n"
    s += "def calls : List (String × String) := [\n  " + ",\n  ".join(f"({_lstr(f)}, {_lstr(k)})" for f, k in us["calls"]) + "]\n\n"
    s += "/-- the regular expression used by `Referable.validate_id_short` (fullmatch). -/\n"
    s += f"def idShortPattern : String := {_lstr(us['id_short_pattern'])}\n\nend Basyx.Gen.StrCons\n"
    out["StrCons"] = s

    s = HEADER.format(src="sdk/basyx/aas/model/base.py (class KeyTypes)")
    s += "namespace Basyx.Gen\n\n/-- public members of `KeyTypes`, in source order. -/\ninductive KT where\n"
    s += "".join(f"  | {n}\n" for n, _ in kt["members"]) + "  deriving DecidableEq, Repr\n\nnamespace KT\n\n"
    s += "def all : List KT := [" + ", ".join("." + n for n, _ in kt["members"]) + "]\n\n"
    s += "def code : KT → Nat\n" + "".join(f"  | .{n} => {v}\n" for n, v in kt["members"]) + "\n"
    s += "def name : KT → String\n" + "".join(f"  | .{n} => {_lstr(n)}\n" for n, _ in kt["members"]) + "\n"
    s += "def ofName? (s : String) : Option KT := all.find? (fun k => k.name == s)\n\n"
    s += "/-- reserved (underscore) members kept in the enum so that their numbers are not reused. -/\n"
    s += "def reserved : List (String × Nat) := [" + ", ".join(f"({_lstr(n)}, {v})" for n, v in kt["reserved"]) + "]\n\n"
    for n, e in kt["props"]:
        s += f"def {n} (k : KT) : Bool := {e}\n"
    s += "\nend KT\nend Basyx.Gen\n"
    out["KeyTypes"] = s

    s = HEADER.format(src="sdk/basyx/aas/model/datatypes.py")
    s += "namespace Basyx.Gen.IntRanges\n\n"
    s += "/-- accepted range (min, max) of every `class X(int)` with a range check in `__new__`. -/\n"
    s += "def ranges : List (String × Option Int × Option Int) := [\n  " + ",\n  ".join(
        f"({_lstr(n)}, {_opt(a)}, {_opt(b)})" for n, a, b in dt["ranges"]) + "]\n\n"
    s += "/-- members of `AnyXSDType`: (name, Python base class, alias = the name is that class | class = a subclass of it). -/\n"
    s += "def xsdBase : List (String × String × String) := [\n  " + ",\n  ".join(
        f"({_lstr(n)}, {_lstr(b)}, {_lstr(k)})" for n, b, k in dt["xsd"]) + "]\n\n"
    s += "/-- code points rejected by `NormalizedString.__new__`. -/\n"
    s += "def normalizedForbidden : List Nat := [" + ", ".join(str(x) for x in dt["forbidden"]) + "]\n\n"
    s += "/-- `for baseclass in (…)` of `trivial_cast`. -/\n"
    s += "def castBases : List String := [" + ", ".join(_lstr(x) for x in dt["cast_bases"]) + "]\n\nend Basyx.Gen.IntRanges\n"
    out["IntRanges"] = s
    return out


def write(repo: str, lean_dir: str) -> List[str]:
    """Returns the list of broken ties (empty when every construct was recognised)."""
    try:
        files = render(repo)
    except Unrecognised as e:
        return [f"unrecognised source construct: {e}"]
    except (OSError, SyntaxError, KeyError, IndexError, AttributeError, TypeError) as e:
        return [f"extractor failed: {type(e).__name__}: {e}"]
    gen = os.path.join(lean_dir, "Basyx", "Gen")
    os.makedirs(gen, exist_ok=True)
    for name, text in files.items():
        path = os.path.join(gen, name + ".lean")
        old = open(path, encoding="utf-8").read() if os.path.exists(path) else None
        if old != text:
            tmp = path + ".tmp"
            with open(tmp, "w", encoding="utf-8") as f:
                f.write(text)
            os.replace(tmp, path)
    return []


if __name__ == "__main__":
    import sys
    print(write(sys.argv[1] if len(sys.argv) > 1 else "/repo", os.path.join(os.path.dirname(os.path.dirname(os.path.dirname(os.path.abspath(__file__)))), "lean")))
