"""C10 — the HTTP repository (adapter/http.py WSGIApp) vs Model/Repo.lean and vs an independent reference repository.

Everything HTTP-related that C11 needs as well (request construction, execution through werkzeug.test.Client,
canonicalisation of responses, store snapshots) lives here; py/props/c11.py imports it."""
from __future__ import annotations

import base64
import binascii
import copy
import io
import json
import os
import random
import shutil
import tempfile
import urllib.parse
from typing import Any, Dict, List, Optional, Tuple

from vf import common as C
from props import c10_translate

ID = "C10"
LEAN_MODULE = "Basyx.Props.C10"
LEVEL = "proof"

MANIFEST = {
    "text": "Lean theorems for ALL request histories of the handler model of WSGIApp (routing over the extracted Rule table, every "
            "modelled handler transcribed step by step incl. update_from/update_nss_from on element trees, commit() reachability for "
            "file-backed stores, paging): store/tree invariant (every object filed under its own id, every element under its own idShort), "
            "the handlers refine a reference repository (ordered map id -> object) on every history, create->get at the returned Location, "
            "put->get, delete->gone, duplicate->409, unknown->404, paging walk = listing exactly once; partial where update_from does not "
            "carry qualifier values / nested class changes (proved witnesses, known findings). Tie: route/except/raise/commit/decode/response "
            "tables regenerated from http.py by ast; random + exhaustive-short request histories through werkzeug.test.Client on "
            "DictObjectStore and LocalFileObjectStore, status + Location + canonical payload + store snapshot compared after every request.",
    "note": "Lean model + tie cover shells, submodels, concept descriptions, nested elements (Property/Collection) by idShort path, qualifiers, submodel "
            "refs, paging, level=core; covered by the reference-repository oracle only (implementation side, no Lean model): file attachments of "
            "File/Blob elements (upload / download / delete, colliding file names, re-upload of deleted content), submodel references carrying a "
            "referredSemanticId, the shell/submodel superpath (PUT / DELETE / redirect through a shell's reference), and - as a reference repository of "
            "plain JSON documents - submodels over all 14 element classes with typed values (Property, Range, Qualifier, Extension; replacements within "
            "families of Python-equal forms), lists of every element/value type and their replacement by lists of another type, every write read back at "
            "every level in JSON and XML; NOT covered: asset-information, $reference routes, idShort/assetIds/semanticId filters; paths into list "
            "children are judged by a directed probe and are two recorded known findings (the path converter rejects numeric segments); bodies abstracted to decode outcomes in the Lean model; werkzeug "
            "routing/conversion trusted and sampled",
    "technique": "Lean 4 proof: invariant + forward simulation over all request histories; ast-extracted tables; differential correspondence via werkzeug.test.Client; independent dict reference repository as oracle",
}
ASSUMPTIONS = [
    "werkzeug routing, header parsing and URL building behave as modelled (static parts before converters, HEAD with GET); sampled by the tie",
    "request bodies are abstracted to their decode outcome (ok object | malformed | array | absent); the content mapping is C03/C04's business",
    "identifiers/idShorts are strings; base64 and int() of the standard library are taken as given (their outcome is an input of the model)",
    "object identity in DictObjectStore is modelled by the filing key (no object is filed twice)",
    "in file-backed mode the per-request reload (update()) is the identity on the persisted state",
]

BASE = "/api/v3.0"
# (round 6) two identifiers that differ from others only by white space at an end (legal: an Identifier is any non-empty string over the
# AASd-130 repertoire); they are their own resources
IDS = ["id:a", "https://x/ä b", "a/b+c=d?", "s", "s ", "\tid:a"]
IDSHORTS = ["a", "b", "c1"]
QTYPES = ["qa", "q/b"]
PREFERRED = {"id:a": "sm", "https://x/ä b": "sm", "a/b+c=d?": "shell", "s": "cd", "s ": "sm", "\tid:a": "cd"}
# oracle only (the handler model has no attachments and no referredSemanticId): few names / contents, so that they collide
FILE_NAMES = ["/f/a.txt", "/b"]
FILE_BYTES = [b"one", b"two\n", b"\x00\xff3"]
ATT_CTYPES = ["text/plain", "application/x-y"]
REF_SEMS = [None, None, "sem:1", "https://sem/2"]


# ------------------------------------------------------------------------------------------- abstract objects

def mk_elem(k: str, ids: Optional[str], tok: int, q=(), ch=()) -> Dict[str, Any]:
    return {"k": k, "ids": ids, "tok": tok, "q": [list(x) for x in q], "ch": list(ch)}


def mk_sm(i: str, ids: Optional[str], tok: int, q=(), ch=()) -> Dict[str, Any]:
    return {"k": "sm", "id": i, "root": mk_elem("sm", ids, tok, q, ch)}


def mk_att(k: str, ids: Optional[str], tok: int, cty: str, val: Any = None, q=()) -> Dict[str, Any]:
    """File ("file") / Blob ("blob") element.  `val`: Blob: the content (standard base64) or None; File in the reference
    repository: the bytes uploaded to it (base64) or None, in a payload: whether the File has a value (bool)."""
    return dict(mk_elem(k, ids, tok, q), cty=cty, val=val)


def mk_shell(i: str, ids: Optional[str], tok: int, refs=(), rs: Optional[Dict[str, str]] = None) -> Dict[str, Any]:
    """`rs`: submodel id -> value of the referredSemanticId its reference carries (only present if there is one)"""
    d = {"k": "shell", "id": i, "ids": ids, "tok": tok, "refs": list(refs)}
    if rs:
        d["rs"] = dict(rs)
    return d


def mk_cd(i: str, ids: Optional[str], tok: int) -> Dict[str, Any]:
    return {"k": "cd", "id": i, "ids": ids, "tok": tok}


def to_sdk(a: Dict[str, Any]):
    """abstract object -> SDK object (used only to produce request bodies with the SDK's own writers)"""
    from basyx.aas import model
    def desc(t):
        return model.MultiLanguageTextType({"en": f"t{t}"})
    def quals(q):
        return [model.Qualifier(t, model.datatypes.String, f"v{v}") for t, v in q]
    k = a["k"]
    if k == "sm":
        r = a["root"]
        return model.Submodel(a["id"], [to_sdk(c) for c in r["ch"]], id_short=r["ids"], description=desc(r["tok"]), qualifier=quals(r["q"]))
    def ref(x, rs):
        sem = None if rs is None else model.ExternalReference((model.Key(model.KeyTypes.GLOBAL_REFERENCE, rs),))
        return model.ModelReference((model.Key(model.KeyTypes.SUBMODEL, x),), model.Submodel, sem)
    if k == "shell":
        return model.AssetAdministrationShell(model.AssetInformation(global_asset_id="g"), a["id"], id_short=a["ids"], description=desc(a["tok"]),
                                              submodel={ref(x, a.get("rs", {}).get(x)) for x in a["refs"]})
    if k == "cd":
        return model.ConceptDescription(a["id"], id_short=a["ids"], description=desc(a["tok"]))
    if k == "prop":
        return model.Property(a["ids"], model.datatypes.String, "v", description=desc(a["tok"]), qualifier=quals(a["q"]))
    if k == "coll":
        return model.SubmodelElementCollection(a["ids"], [to_sdk(c) for c in a["ch"]], description=desc(a["tok"]), qualifier=quals(a["q"]))
    if k == "qual":
        return model.Qualifier(a["t"], model.datatypes.String, f"v{a['v']}")
    if k == "file":
        return model.File(a["ids"], a["cty"], None, description=desc(a["tok"]), qualifier=quals(a["q"]))
    if k == "blob":
        return model.Blob(a["ids"], a["cty"], None if a["val"] is None else base64.b64decode(a["val"]), description=desc(a["tok"]),
                          qualifier=quals(a["q"]))
    if k == "ref":
        return ref(a["id"], a.get("rs"))
    raise ValueError(k)


def serialise(a: Dict[str, Any], fmt: str) -> bytes:
    from basyx.aas.adapter.json import AASToJsonEncoder
    from basyx.aas.adapter.xml import xml_serialization
    from lxml import etree
    o = to_sdk(a)
    if fmt == "json":
        return json.dumps(o, cls=AASToJsonEncoder).encode()
    if a["k"] == "ref":
        return etree.tostring(xml_serialization.reference_to_xml(o))
    return etree.tostring(xml_serialization.object_to_xml_element(o))


def sdk_abs(o) -> Dict[str, Any]:
    """SDK object -> abstract object by public attributes only (store snapshots); independent of the serialisers."""
    from basyx.aas import model
    def tok(x):
        d = x.description
        t = None if not d else dict(d).get("en")
        return int(t[1:]) if t and t[0] == "t" and t[1:].isdigit() else -1
    def quals(x):
        return [[q.type, int(q.value[1:]) if isinstance(q.value, str) and q.value[1:].isdigit() else -1] for q in x.qualifier]
    if isinstance(o, model.Submodel):
        return {"k": "sm", "id": o.id, "root": mk_elem("sm", o.id_short, tok(o), quals(o), [sdk_abs(c) for c in o.submodel_element])}
    if isinstance(o, model.AssetAdministrationShell):
        return mk_shell(o.id, o.id_short, tok(o), sorted(r.key[-1].value for r in o.submodel),
                        {r.key[-1].value: r.referred_semantic_id.key[-1].value for r in o.submodel if r.referred_semantic_id is not None})
    if isinstance(o, model.ConceptDescription):
        return mk_cd(o.id, o.id_short, tok(o))
    if isinstance(o, model.SubmodelElementCollection):
        return mk_elem("coll", o.id_short, tok(o), quals(o), [sdk_abs(c) for c in o.value])
    if isinstance(o, model.Property):
        return mk_elem("prop", o.id_short, tok(o), quals(o))
    if isinstance(o, model.File):
        return mk_att("file", o.id_short, tok(o), o.content_type, o.value is not None, quals(o))
    if isinstance(o, model.Blob):
        return mk_att("blob", o.id_short, tok(o), o.content_type, None if o.value is None else base64.b64encode(o.value).decode("ascii"), quals(o))
    return {"k": "other:" + type(o).__name__, "ids": getattr(o, "id_short", None)}


# ------------------------------------------------------------------------------------------- response -> abstract

def _tok_json(d) -> int:
    for ls in d.get("description", []) or []:
        if ls.get("language") == "en" and ls.get("text", "")[:1] == "t" and ls["text"][1:].isdigit():
            return int(ls["text"][1:])
    return -1


def _quals_json(d):
    return [[q.get("type"), int(q["value"][1:]) if str(q.get("value", ""))[1:].isdigit() else -1] for q in d.get("qualifiers", [])]


def item_of_json(d) -> Any:
    if not isinstance(d, dict):
        return {"k": "?", "raw": d}
    mt = d.get("modelType")
    if mt == "Submodel":
        return {"k": "sm", "id": d.get("id"), "root": mk_elem("sm", d.get("idShort"), _tok_json(d), _quals_json(d),
                                                               [item_of_json(c) for c in d.get("submodelElements", [])])}
    if mt == "AssetAdministrationShell":
        return mk_shell(d.get("id"), d.get("idShort"), _tok_json(d), sorted(r["keys"][-1]["value"] for r in d.get("submodels", [])),
                        {r["keys"][-1]["value"]: r["referredSemanticId"]["keys"][-1]["value"] for r in d.get("submodels", []) if "referredSemanticId" in r})
    if mt == "ConceptDescription":
        return mk_cd(d.get("id"), d.get("idShort"), _tok_json(d))
    if mt == "Property":
        return mk_elem("prop", d.get("idShort"), _tok_json(d), _quals_json(d))
    if mt == "SubmodelElementCollection":
        return mk_elem("coll", d.get("idShort"), _tok_json(d), _quals_json(d), [item_of_json(c) for c in d.get("value", [])])
    if mt == "File":
        return mk_att("file", d.get("idShort"), _tok_json(d), d.get("contentType"), "value" in d, _quals_json(d))
    if mt == "Blob":
        return mk_att("blob", d.get("idShort"), _tok_json(d), d.get("contentType"), d.get("value"), _quals_json(d))
    if mt is None and "keys" in d:
        r = {"k": "ref", "id": d["keys"][-1]["value"]}
        if "referredSemanticId" in d:
            r["rs"] = d["referredSemanticId"]["keys"][-1]["value"]
        return r
    if mt is None and "type" in d and "valueType" in d:
        return {"k": "qual", "t": d["type"], "v": int(d["value"][1:]) if str(d.get("value", ""))[1:].isdigit() else -1}
    return {"k": "?", "raw": mt}


_WRAPPERS = {"submodel", "property", "submodelElementCollection", "qualifier", "reference", "assetAdministrationShell", "conceptDescription",
             "file", "blob"}


def _ln(e) -> str:
    return e.tag.split("}")[-1] if isinstance(e.tag, str) else ""


def _child(e, name):
    for c in e:
        if _ln(c) == name:
            return c
    return None


def _text(e, name):
    c = _child(e, name)
    return None if c is None else (c.text or "")


def _tok_xml(e) -> int:
    d = _child(e, "description")
    if d is not None:
        for ls in d:
            if _text(ls, "language") == "en":
                t = _text(ls, "text") or ""
                if t[:1] == "t" and t[1:].isdigit():
                    return int(t[1:])
    return -1


def _quals_xml(e):
    qs = _child(e, "qualifiers")
    out = []
    for q in (qs if qs is not None else []):
        v = _text(q, "value") or ""
        out.append([_text(q, "type"), int(v[1:]) if v[1:].isdigit() else -1])
    return out


def item_of_xml(e, tag: Optional[str] = None) -> Any:
    """e: an element whose children are the object's fields; tag: the wrapper tag if known"""
    names = [_ln(c) for c in e]
    if tag is None:
        if "keys" in names:
            tag = "reference"
        elif "type" in names and "valueType" in names:
            tag = "qualifier"
        elif "assetInformation" in names:
            tag = "assetAdministrationShell"
        elif "id" in names and "kind" in names:
            tag = "submodel"
        elif "id" in names:
            tag = "conceptDescription"
        elif "valueType" in names:
            tag = "property"
        elif "contentType" in names:
            tag = "att"        # a File or a Blob: an XML response for a single element does not say which
        else:
            tag = "submodelElementCollection"
    def ref_of(r):
        d = {"k": "ref", "id": _text(list(_child(r, "keys"))[-1], "value")}
        rsem = _child(r, "referredSemanticId")
        if rsem is not None:
            d["rs"] = _text(list(_child(rsem, "keys"))[-1], "value")
        return d
    if tag == "reference":
        return ref_of(e)
    if tag in ("file", "blob", "att"):
        v = _text(e, "value")
        return mk_att(tag, _text(e, "idShort"), _tok_xml(e), _text(e, "contentType"), (v is not None) if tag == "file" else v, _quals_xml(e))
    if tag == "qualifier":
        v = _text(e, "value") or ""
        return {"k": "qual", "t": _text(e, "type"), "v": int(v[1:]) if v[1:].isdigit() else -1}
    if tag == "assetAdministrationShell":
        sms = _child(e, "submodels")
        rl = [ref_of(r) for r in (sms if sms is not None else [])]
        return mk_shell(_text(e, "id"), _text(e, "idShort"), _tok_xml(e), sorted(r["id"] for r in rl), {r["id"]: r["rs"] for r in rl if "rs" in r})
    if tag == "submodel":
        ses = _child(e, "submodelElements")
        return {"k": "sm", "id": _text(e, "id"), "root": mk_elem("sm", _text(e, "idShort"), _tok_xml(e), _quals_xml(e),
                                                                  [item_of_xml(c, _ln(c)) for c in (ses if ses is not None else [])])}
    if tag == "conceptDescription":
        return mk_cd(_text(e, "id"), _text(e, "idShort"), _tok_xml(e))
    if tag == "property":
        return mk_elem("prop", _text(e, "idShort"), _tok_xml(e), _quals_xml(e))
    if tag == "submodelElementCollection":
        v = _child(e, "value")
        return mk_elem("coll", _text(e, "idShort"), _tok_xml(e), _quals_xml(e), [item_of_xml(c, _ln(c)) for c in (v if v is not None else [])])
    return {"k": "?", "raw": tag}


def parse_location(loc: Optional[str]) -> Any:
    if loc is None:
        return None
    p = urllib.parse.urlsplit(loc).path
    if not p.startswith(BASE + "/"):
        return ["?", loc]
    segs = [urllib.parse.unquote(x) for x in p[len(BASE) + 1:].split("/")]
    def dec(x):
        try:
            return base64.urlsafe_b64decode(x + "==").decode("utf-8")
        except Exception:
            return "?" + x
    top = {"shells": "shell", "submodels": "sm", "concept-descriptions": "cd"}
    if len(segs) == 2 and segs[0] in top:
        return [top[segs[0]], dec(segs[1])]
    if len(segs) == 4 and segs[0] == "submodels" and segs[2] == "submodel-elements":
        return ["elem", dec(segs[1]), segs[3].split(".")]
    if len(segs) == 4 and segs[0] == "submodels" and segs[2] == "qualifiers":
        return ["qual", dec(segs[1]), None, dec(segs[3])]
    if len(segs) == 6 and segs[0] == "submodels" and segs[2] == "submodel-elements" and segs[4] == "qualifiers":
        return ["qual", dec(segs[1]), segs[3].split("."), dec(segs[5])]
    return ["?", loc]


def canon_response(method: str, resp) -> Any:
    """real response -> the model's output vocabulary: ["resp", status, loc, body]"""
    from lxml import etree
    status = resp.status_code
    loc = parse_location(resp.headers.get("Location"))
    data = resp.get_data()
    ct = (resp.headers.get("Content-Type") or "").split(";")[0].strip()
    if not data:
        return ["resp", status, loc, ["empty"]]
    if ct == "text/html":
        return ["resp", status, loc, ["plain"]]
    try:
        if ct == "application/json":
            j = json.loads(data)
            if isinstance(j, dict) and set(j.keys()) == {"success", "messages"}:
                ok = j["success"] is False and isinstance(j["messages"], list) and (status < 400 or (
                    len(j["messages"]) == 1 and j["messages"][0].get("messageType") == "Error" and isinstance(j["messages"][0].get("text"), str)
                    and isinstance(j["messages"][0].get("code"), str)))
                return ["resp", status, loc, ["result"] if ok else ["bad-result", j]]
            if isinstance(j, dict) and "paging_metadata" in j:
                return ["resp", status, loc, ["page", [item_of_json(x) for x in j["result"]], int(j["paging_metadata"]["cursor"])]]
            if isinstance(j, list):
                return ["resp", status, loc, ["items", [item_of_json(x) for x in j]]]
            return ["resp", status, loc, ["item", item_of_json(j)]]
        if ct in ("application/xml", "text/xml"):
            root = etree.fromstring(data)
            names = [_ln(c) for c in root]
            if "success" in names and "messages" in names:
                ok = _text(root, "success") == "false"
                return ["resp", status, loc, ["result"] if ok else ["bad-result", data.decode("utf-8", "replace")]]
            if root.get("cursor") is not None:
                return ["resp", status, loc, ["page", [item_of_xml(c, _ln(c)) for c in root], int(root.get("cursor"))]]
            if not names or names[0] in _WRAPPERS:
                return ["resp", status, loc, ["items", [item_of_xml(c, _ln(c)) for c in root]]]
            return ["resp", status, loc, ["item", item_of_xml(root)]]
    except Exception as e:  # unparsable payload: reported verbatim, never hidden
        return ["resp", status, loc, ["unparsable", type(e).__name__, data[:120].decode("utf-8", "replace")]]
    return ["resp", status, loc, ["other", resp.headers.get("Content-Type"), base64.b64encode(data).decode("ascii")]]


def exc_name(e: BaseException) -> Any:
    n = type(e).__name__
    if n == "AASConstraintViolation":
        return ["AASCV", getattr(e, "constraint_id", -1)]
    if isinstance(e, binascii.Error):
        return "binascii.Error"
    return n


# ------------------------------------------------------------------------------------------- requests

ACCEPTS = [(None, "json"), ("application/json", "json"), ("application/xml", "xml"), ("text/xml", "textxml"), ("*/*", "json"),
           ("image/png", "none"), ("text/xml;q=0.5, application/json;q=0.4", "textxml"), ("text/html, application/xml;q=0.9", "xml")]
CTYPES = [("application/json", "json"), ("application/xml", "xml"), ("text/xml", "textxml"), ("text/xml; charset=utf-8", "textxml"),
          ("application/json; charset=utf-8", "json"), ("text/plain", "other"), (None, "none")]
MALFORMED = {"json": [b"{", b"{}", b"5", b"null", b'{"modelType":"Submodel"}', b'{"modelType":"Submodel","id":""}', b'"x"', b"\xff\xfe",
                      b'{"modelType":"Property","idShort":"a b","valueType":"xs:string"}', b'{"modelType":"Nonsense","id":"x"}'],
             "xml": [b"<a", b"<a/>", b"", b"<?xml version='1.0'?>", b"\xff\xfe", b'<aas:submodel xmlns:aas="https://admin-shell.io/aas/3/0"/>',
                     b'<aas:submodel xmlns:aas="https://admin-shell.io/aas/3/0"><aas:id></aas:id></aas:submodel>']}
# (round 5) well-formed documents of every class that are malformed in an OPTIONAL, NESTED position only (a semantic id without keys / of an
# unknown type, a language string without text, a value id that is no reference): a strict reader rejects them whichever its mode
# (full or stripped), a failsafe reader would log and drop the part
_NSX = b' xmlns:aas="https://admin-shell.io/aas/3/0"'
_BADREF_X = b"<aas:semanticId><aas:type>Nonsense</aas:type><aas:keys/></aas:semanticId>"
_BADLANG_X = b"<aas:description><aas:langStringTextType><aas:language>en</aas:language></aas:langStringTextType></aas:description>"
_BADREF_J = b'"semanticId":{"type":"Nonsense","keys":[]}'
_BADLANG_J = b'"description":[{"language":"en"}]'
MALFORMED["json"] += [
    b'{"modelType":"Submodel","id":"urn:nested:1",' + _BADREF_J + b"}",
    b'{"modelType":"Submodel","id":"urn:nested:2",' + _BADLANG_J + b"}",
    b'{"modelType":"Submodel","id":"urn:nested:3","administration":{"version":"x y"}}',
    b'{"modelType":"Property","idShort":"x1","valueType":"xs:string",' + _BADREF_J + b"}",
    b'{"modelType":"Property","idShort":"x1","valueType":"xs:string","valueId":{"type":"ExternalReference"}}',
    b'{"modelType":"ConceptDescription","id":"urn:nested:4",' + _BADLANG_J + b"}",
    b'{"modelType":"AssetAdministrationShell","id":"urn:nested:5","assetInformation":{"assetKind":"Instance","globalAssetId":"urn:a"},' + _BADLANG_J + b"}",
    b'{"type":"q1","valueType":"xs:string","valueId":{"type":"ExternalReference"}}',
]
MALFORMED["xml"] += [
    b"<aas:submodel" + _NSX + b"><aas:id>urn:nested:1</aas:id>" + _BADREF_X + b"</aas:submodel>",
    b"<aas:submodel" + _NSX + b">" + _BADLANG_X + b"<aas:id>urn:nested:2</aas:id></aas:submodel>",
    b"<aas:submodel" + _NSX + b"><aas:administration><aas:version>x y</aas:version></aas:administration><aas:id>urn:nested:3</aas:id></aas:submodel>",
    b"<aas:property" + _NSX + b"><aas:idShort>x1</aas:idShort>" + _BADREF_X + b"<aas:valueType>xs:string</aas:valueType></aas:property>",
    b"<aas:property" + _NSX + b"><aas:idShort>x1</aas:idShort><aas:valueType>xs:string</aas:valueType><aas:valueId><aas:type>ExternalReference</aas:type></aas:valueId></aas:property>",
    b"<aas:conceptDescription" + _NSX + b">" + _BADLANG_X + b"<aas:id>urn:nested:4</aas:id></aas:conceptDescription>",
    b"<aas:assetAdministrationShell" + _NSX + b">" + _BADLANG_X + b"<aas:id>urn:nested:5</aas:id><aas:assetInformation><aas:assetKind>Instance</aas:assetKind>"
    b"<aas:globalAssetId>urn:a</aas:globalAssetId></aas:assetInformation></aas:assetAdministrationShell>",
    b"<aas:qualifier" + _NSX + b"><aas:type>q1</aas:type><aas:valueType>xs:string</aas:valueType><aas:valueId><aas:type>ExternalReference</aas:type></aas:valueId></aas:qualifier>",
]
# nested deeper than the parsers follow (json: the interpreter's recursion limit; lxml: 256 levels)
TOO_DEEP = {"json": [b"[" * 100000, b'{"a":' * 50000 + b"1" + b"}" * 50000, b"[" * 5000 + b"]" * 5000],
            "xml": [b"<a>" * 300 + b"</a>" * 300, b'<aas:submodel xmlns:aas="https://admin-shell.io/aas/3/0">' + b"<aas:a>" * 2000 + b"</aas:a>" * 2000 + b"</aas:submodel>"]}
# (round 4) ... and one whose elements the constructors would recurse into if the parser let it through: collections within collections
_O, _C = b"<aas:submodelElementCollection><aas:idShort>c1</aas:idShort><aas:value>", b"</aas:value></aas:submodelElementCollection>"
TOO_DEEP["xml"] += [_O.replace(b">", b' xmlns:aas="https://admin-shell.io/aas/3/0">', 1) + _O * (n - 1) + _C * n for n in (300, 1200)]
QVALS = [None, "0", "1", "2", "3", "10", "-1", "x", "", "1_0", " 2", "+1", "٣", "99999999999999999999", "9223372036854775807"]


def b64(s: str, pad: bool = True) -> str:
    r = base64.urlsafe_b64encode(s.encode("utf-8")).decode("ascii")
    return r if pad else r.rstrip("=")


def b64_outcome(raw: str) -> Any:
    """outcome of the standard library on a path segment (an input of the model, like int() for query values)"""
    try:
        return ["ok", base64.urlsafe_b64decode(raw + "==").decode("utf-8")]
    except binascii.Error:
        return "binascii"
    except UnicodeDecodeError:
        return "unicode"
    except ValueError:
        return "nonascii"


def qint(v: Optional[str]) -> Any:
    if v is None:
        return None
    try:
        return int(v)
    except ValueError:
        return "bad"


def mk_req(method: str, segs: List[str], accept: int = 0, ctype: int = 6, body: Any = "absent", body_bytes: bytes = b"",
           limit: Optional[str] = None, cursor: Optional[str] = None, level: Optional[str] = None, sem: Any = None,
           xq: Optional[str] = None, form: Optional[Dict[str, Any]] = None) -> Dict[str, Any]:
    """A request: everything needed to send it (segs/headers/bytes) and to describe it to the model (classes).
    `body` is the abstract payload ({"p":...}) or "absent" | "malformed" | "toodeep" | "array" | "raw" (oracle only: no model class).
    `xq`: further raw query string (sent as is); `form`: a multipart/form-data body instead of `bytes`
    ({"fileName": str | None, "file": [base64 content, file name, mimetype] | None})."""
    R = {"m": method, "segs": segs, "acc": accept, "ct": ctype, "body": body, "bytes": base64.b64encode(body_bytes).decode("ascii"),
         "limit": limit, "cursor": cursor, "level": level, "sem": sem}
    if xq is not None:
        R["xq"] = xq
    if form is not None:
        R["form"] = form
    return R


def model_line(R: Dict[str, Any]) -> List[Any]:
    lim, cur = qint(R["limit"]), qint(R["cursor"])
    big = lambda x: "bad" if isinstance(x, int) and abs(x) > 2 ** 62 and False else x
    return ["req", {"m": R["m"], "path": [[s, b64_outcome(s)] for s in R["segs"]], "acc": ACCEPTS[R["acc"]][1], "ct": CTYPES[R["ct"]][1],
                    "body": R["body"], "limit": big(lim), "cursor": big(cur), "core": R["level"] == "core"}]


def url_of(R: Dict[str, Any]) -> str:
    u = BASE + "".join("/" + urllib.parse.quote(s, safe="$=.") for s in R["segs"])
    q = [(k, R[k2]) for k, k2 in (("limit", "limit"), ("cursor", "cursor"), ("level", "level")) if R[k2] is not None]
    qs = ([urllib.parse.urlencode(q)] if q else []) + ([R["xq"]] if R.get("xq") else [])
    if qs:
        u += "?" + "&".join(qs)
    return u


_APP_CLASSES: Dict[Any, Any] = {}


def reclass_store(store) -> None:
    """every identifiable of the store and every referable below it that is an instance of an SDK class becomes an instance of
    a (cached) application-defined subclass of that class"""
    from basyx.aas import model
    subs = set(_APP_CLASSES.values())

    def walk(o):
        if isinstance(o, model.Referable):
            c = o.__class__
            if c not in subs:
                if c not in _APP_CLASSES:
                    _APP_CLASSES[c] = type("App" + c.__name__, (c,), {})
                    subs.add(_APP_CLASSES[c])
                try:
                    o.__class__ = _APP_CLASSES[c]
                except TypeError:
                    pass
            if isinstance(o, model.UniqueIdShortNamespace):
                for ch in o:
                    walk(ch)
    for o in list(store):
        walk(o)


class Server:
    """A real WSGIApp over a real object store, driven in-process."""

    _app: Any = None
    _built = 0

    def __init__(self, file_backed: bool = False):
        from basyx.aas import model
        from basyx.aas.adapter import http, aasx
        from werkzeug.test import Client
        import logging
        logging.getLogger("basyx").setLevel(logging.ERROR)      # the readers warn about every oddity of a body on stderr
        self.file_backed = file_backed
        self.dir = None
        self.last_exc = None
        # (round 5, C11) before every request the stored objects become instances of application-defined subclasses of their
        # classes (an application may hand WSGIApp a store filled through its own deriving decoder); in-memory stores only
        self.reclass = False
        if file_backed:
            from basyx.aas.backend import local_file
            self.dir = tempfile.mkdtemp(prefix="c10-")
            self.store = local_file.LocalFileObjectStore(self.dir)
            self.store.check_directory(create=True)
        else:
            self.store = model.DictObjectStore()
        self.files = aasx.DictSupplementaryFileContainer()
        # Building the application compiles its 78 routing rules (most of the cost of a short history).  WSGIApp keeps its two
        # stores in plain attributes read by the handlers at request time, so a built application is re-used over fresh stores;
        # every 20th server builds a new one, so that the constructor stays exercised.
        Server._built += 1
        app = Server._app if Server._built % 20 else None
        if app is None or set(vars(app)) != {"object_store", "file_store", "url_map"}:
            app = Server._app = http.WSGIApp(self.store, self.files, base_path=BASE)
        app.object_store, app.file_store = self.store, self.files
        self.app = app
        self.client = Client(self.app)

    def close(self):
        if self.dir:
            shutil.rmtree(self.dir, ignore_errors=True)

    def send(self, R: Dict[str, Any], raw: bool = False) -> Any:
        """raw: the response as it is - ["raw", status, parsed Location, Content-Type, bytes] - instead of its abstraction"""
        headers = {}
        if ACCEPTS[R["acc"]][0] is not None:
            headers["Accept"] = ACCEPTS[R["acc"]][0]
        kw: Dict[str, Any] = {}
        data = base64.b64decode(R["bytes"])
        if CTYPES[R["ct"]][0] is not None:
            kw["content_type"] = CTYPES[R["ct"]][0]
        if data or R["m"] in ("POST", "PUT"):
            kw["data"] = data
        form = R.get("form")
        if form is not None:
            # written out by hand: a client is free to put any bytes into the part headers
            bd = "----c10boundary"
            parts = []
            if form.get("fileName") is not None:
                parts.append(f'--{bd}\r\nContent-Disposition: form-data; name="fileName"\r\n\r\n'.encode() + form["fileName"].encode("utf-8", "surrogatepass") + b"\r\n")
            if form.get("file") is not None:
                content, fn, mime = form["file"]
                parts.append(f'--{bd}\r\nContent-Disposition: form-data; name="file"; filename="'.encode() + fn.encode("utf-8", "surrogatepass") + b'"\r\nContent-Type: '
                             + mime.encode("utf-8", "surrogatepass") + b"\r\n\r\n" + base64.b64decode(content) + b"\r\n")
            kw = {"data": b"".join(parts) + f"--{bd}--\r\n".encode(), "content_type": f"multipart/form-data; boundary={bd}"}
        self.last_exc = None
        if self.reclass and not self.file_backed:
            reclass_store(self.store)
        try:
            resp = self.client.open(url_of(R), method=R["m"], headers=headers, **kw)
        except Exception as e:  # an exception left the WSGI callable
            import traceback
            self.last_exc = (type(e).__name__, str(e)[:300], [f.name for f in traceback.extract_tb(e.__traceback__)])
            return ["crash", exc_name(e)]
        if raw:
            return ["raw", resp.status_code, parse_location(resp.headers.get("Location")), resp.headers.get("Content-Type"), resp.get_data()]
        return canon_response(R["m"], resp)

    def snapshot(self) -> List[Any]:
        def abs_(o):
            try:
                return sdk_abs(o)
            except RecursionError:      # (oracle only) an object nested deeper than the interpreter follows
                return {"k": "other:too-deep", "id": getattr(o, "id", None)}
        objs = [abs_(o) for o in self.store]
        if self.file_backed:
            objs.sort(key=lambda o: o.get("id", ""))
        return objs

    def snapshot_full(self) -> List[Any]:
        """Everything a rejected request must leave alone: every stored object (the abstraction by public attributes where it
        covers the class, and the complete serialised form), and the file container (name -> content hash, content type).
        An object that cannot be abstracted/serialised is represented by the reason (constant across a request that leaves it alone)."""
        from basyx.aas.adapter.json import AASToJsonEncoder
        objs = []
        def by_ids(x):
            # children addressed by idShort are a set: a file-backed store hands out the live object (its own order) or, once that
            # was collected, a fresh one (the document's order) - the order is no stored data
            if isinstance(x, dict):
                x = {k: by_ids(v) for k, v in x.items()}
                if isinstance(x.get("ch"), list) and all(isinstance(c, dict) and c.get("ids") is not None for c in x["ch"]):
                    x["ch"] = sorted(x["ch"], key=lambda c: str(c["ids"]))
                return x
            return [by_ids(v) for v in x] if isinstance(x, list) else x
        for o in self.store:
            try:
                a = json.dumps(by_ids(sdk_abs(o)), sort_keys=True)
            except Exception as e:
                a = f"not-abstracted:{type(e).__name__}"
            try:
                j = json.dumps(canon_doc(json.loads(json.dumps(o, cls=AASToJsonEncoder))), sort_keys=True)
            except Exception as e:
                j = f"not-serialised:{type(e).__name__}"
            objs.append([str(getattr(o, "id", None)), a, j])
        objs.sort()
        files = sorted([n, self.files.get_sha256(n).hex(), self.files.get_content_type(n)] for n in self.files)
        return [objs, files]


def canon_out(o: Any, file_backed: bool) -> Any:
    """order-insensitive parts: a shell's references are a Python set; a file-backed store lists in directory order"""
    if not (isinstance(o, list) and o and o[0] == "resp"):
        return o
    body = o[3]
    def fix(it):
        if isinstance(it, dict) and it.get("k") == "shell":
            return dict(it, refs=sorted(it["refs"]))
        return it
    if body[0] == "item":
        body = ["item", fix(body[1])]
    elif body[0] in ("page", "items"):
        items = [fix(x) for x in body[1]]
        if items and all(isinstance(x, dict) and x.get("k") == "ref" for x in items):
            items.sort(key=lambda x: x["id"])
        if file_backed and items and all(isinstance(x, dict) and "id" in x for x in items):
            items.sort(key=lambda x: x["id"])
        body = [body[0], items] + body[2:]
    return ["resp", o[1], o[2], body]


# ------------------------------------------------------------------------------------------- generators

def gen_elem(rng: random.Random, depth: int, ids: Optional[str], kind: Optional[str] = None, zoo: bool = False) -> Dict[str, Any]:
    """zoo (oracle only): also File and Blob elements"""
    if kind is None and zoo and rng.random() < 0.35:
        kind = rng.choice(["file", "file", "blob"])
    k = kind or ("coll" if depth > 0 and rng.random() < 0.4 else "prop")
    q = [[t, rng.randrange(3)] for t in QTYPES if rng.random() < 0.45]
    if k == "file":
        return mk_att("file", ids, rng.randrange(4), rng.choice(ATT_CTYPES), None, q)
    if k == "blob":
        return mk_att("blob", ids, rng.randrange(4), rng.choice(ATT_CTYPES),
                      rng.choice([None, base64.b64encode(rng.choice(FILE_BYTES)).decode("ascii")]), q)
    ch = []
    if k == "coll":
        for n in rng.sample(IDSHORTS, rng.randint(0, len(IDSHORTS))):
            ch.append(gen_elem(rng, depth - 1, n, zoo=zoo))
    return mk_elem(k, ids, rng.randrange(4), q, ch)


def gen_obj(rng: random.Random, kind: str, i: str, zoo: bool = False) -> Dict[str, Any]:
    """zoo (oracle only): File/Blob elements; references of a shell that carry a referredSemanticId"""
    ids = rng.choice([None, "x1", "sh"])
    if kind == "sm":
        q = [[t, rng.randrange(3)] for t in QTYPES if rng.random() < 0.45]
        ch = [gen_elem(rng, 2, n, zoo=zoo) for n in rng.sample(IDSHORTS, rng.randint(0, len(IDSHORTS)))]
        return mk_sm(i, ids, rng.randrange(4), q, ch)
    if kind == "shell":
        refs = sorted(rng.sample(IDS, rng.randint(0, 2)))
        rs = {x: y for x, y in ((x, rng.choice(REF_SEMS)) for x in refs) if y is not None} if zoo else None
        return mk_shell(i, ids, rng.randrange(4), refs, rs)
    return mk_cd(i, ids, rng.randrange(4))


TOP = {"shell": "shells", "sm": "submodels", "cd": "concept-descriptions"}


def body_for(rng: random.Random, payload: Dict[str, Any], cls: str = "ok") -> Tuple[int, Any, bytes]:
    """(content-type index, abstract body, bytes).  cls: ok | malformed | toodeep | array | absent | badct"""
    ct = rng.choice([0, 0, 0, 1, 2, 3, 4])
    fmt = "json" if CTYPES[ct][1] == "json" else "xml"
    abstract = {"obj": {"p": "obj", "o": payload}, "elem": {"p": "elem", "e": payload}, "qual": {"p": "qual", "t": payload.get("t"), "v": payload.get("v")},
                "ref": {"p": "ref", "id": payload.get("id")}}[payload_class(payload)]
    if cls == "ok":
        return ct, abstract, serialise(payload, fmt)
    if cls == "malformed":
        return ct, "malformed", rng.choice(MALFORMED[fmt])
    if cls == "toodeep":
        return ct, "toodeep", rng.choice(TOO_DEEP[fmt])
    if cls == "array":
        return 0, "array", b"[" + serialise(payload, "json") + b"]"
    if cls == "absent":
        return ct, "absent", b""
    ct = rng.choice([5, 6])
    return ct, abstract, serialise(payload, "json")


def payload_class(p: Dict[str, Any]) -> str:
    return {"sm": "obj", "shell": "obj", "cd": "obj", "prop": "elem", "coll": "elem", "file": "elem", "blob": "elem", "qual": "qual", "ref": "ref"}[p["k"]]


def rand_path(rng: random.Random, deep: bool = True) -> List[str]:
    n = rng.choice([1, 1, 2, 2, 3]) if deep else 1
    return [rng.choice(IDSHORTS) for _ in range(n)]


def all_paths(node: Dict[str, Any], prefix=()) -> List[Tuple[List[str], Dict[str, Any]]]:
    out = []
    for c in node.get("ch", []):
        out.append((list(prefix) + [c["ids"]], c))
        out += all_paths(c, tuple(prefix) + (c["ids"],))
    return out


def gen_request(rng: random.Random, wild: float = 0.15, snapshot: Optional[List[Any]] = None) -> Dict[str, Any]:
    """One request over the pools; mostly well-formed, with a share `wild` of deviating input classes.  Given the current
    store snapshot, most requests address resources that exist (so that histories exercise the success paths)."""
    snapshot = snapshot or []
    w = rng.random() < wild
    acc = rng.choice([0, 0, 1, 1, 2, 3, 4, 6, 7]) if not w else rng.randrange(len(ACCEPTS))
    i = rng.choice(IDS)
    # most requests address an id with "its" kind, so that histories build up state instead of answering 404
    kind = PREFERRED[i] if rng.random() < 0.8 else rng.choice(["sm", "sm", "sm", "shell", "cd"])
    existing = [o for o in snapshot if o.get("k") == kind]
    target = None
    if existing and rng.random() < 0.7:
        target = rng.choice(existing)
        i = target["id"]
    pad = rng.random() < 0.7
    seg_id = b64(i, pad)
    if w and rng.random() < 0.3:
        seg_id = rng.choice(["A", base64.urlsafe_b64encode(b"\xff\xfe").decode(), "ä", "$metadata", "a b", b64("zz"), b64(i) + "=="])
    level = rng.choice([None, None, None, "core", "deep"])
    lim = rng.choice([None, None, "1", "2", "3"]) if not w else rng.choice(QVALS)
    cur = rng.choice([None, None, "0", "1", "2"]) if not w else rng.choice(QVALS)
    r = rng.random()
    if not existing and rng.random() < 0.65:
        r = 0.2        # nothing of this kind stored yet: create
    elif target is None and existing and r >= 0.37 and rng.random() < 0.5:
        target = rng.choice(existing)
        i = target["id"]
        seg_id = b64(i, pad)
    bcls = "ok" if not w else rng.choice(["ok", "malformed", "malformed", "array", "array", "absent", "absent", "badct", "badct", "toodeep"])
    def with_body(method, segs, payload, sem=None, **kw):
        ct, ab, by = body_for(rng, payload, bcls)
        return mk_req(method, segs, acc, ct, ab, by, level=level, sem=sem, **kw)
    top = TOP[kind]
    if r < 0.12:
        return mk_req("GET", [top] + (["$metadata"] if kind == "sm" and rng.random() < 0.2 else []), acc, limit=lim, cursor=cur, level=level)
    if r < 0.27:
        o = gen_obj(rng, kind if rng.random() < 0.9 or not w else rng.choice(["sm", "shell", "cd"]), i)
        return with_body("POST", [top], o)
    if r < 0.37:
        return mk_req(rng.choice(["GET", "GET", "HEAD"]) if w else "GET", [top, seg_id] + (["$metadata"] if kind == "sm" and rng.random() < 0.2 else []), acc, level=level)
    if r < 0.47:
        body_id = i if rng.random() < 0.85 else rng.choice(IDS)
        bk = kind if rng.random() < 0.95 else rng.choice(["sm", "shell", "cd"])
        return with_body("PUT", [top, seg_id], gen_obj(rng, bk, body_id))
    if r < 0.53:
        return mk_req("DELETE", [top, seg_id], acc)
    sm_seg = seg_id
    if r < 0.58:
        return mk_req("GET", ["submodels", sm_seg, "submodel-elements"] + (["$metadata"] if rng.random() < 0.2 else []), acc, limit=lim, cursor=cur, level=level)
    path = rand_path(rng)
    tnode = None
    if target is not None and kind == "sm" and rng.random() < 0.75:
        ps = all_paths(target["root"])
        if ps:
            path, tnode = rng.choice(ps)
    praw = ".".join(path)
    if w and rng.random() < 0.3:
        praw = rng.choice(["a-b", "a..b", "0", "a.0", "_a", "ä", "a." + "x" * 129, "a.b.c1.a.b", "a b", ""]) or "%20"
    if r < 0.66:
        return mk_req("GET", ["submodels", sm_seg, "submodel-elements", praw] + (["$metadata"] if rng.random() < 0.2 else []), acc, level=level)
    if r < 0.76:
        e = gen_elem(rng, 1, rng.choice(IDSHORTS + [None] if w else IDSHORTS))
        if tnode is not None and tnode["k"] != "coll" and len(path) > 1 and rng.random() < 0.7:
            praw = ".".join(path[:-1])
        segs = ["submodels", sm_seg, "submodel-elements"] + ([praw] if rng.random() < 0.6 else [])
        return with_body("POST", segs, e)
    if r < 0.84:
        ek = tnode["k"] if tnode is not None and tnode["k"] in ("prop", "coll") and rng.random() < 0.85 else rng.choice(["prop", "coll"])
        e = gen_elem(rng, 1, path[-1] if rng.random() < 0.85 else rng.choice(IDSHORTS), kind=ek)
        return with_body("PUT", ["submodels", sm_seg, "submodel-elements", praw], e)
    if r < 0.88:
        return mk_req("DELETE", ["submodels", sm_seg, "submodel-elements", praw], acc)
    # qualifiers (on the submodel or on an element) and submodel refs
    on_elem = rng.random() < 0.5
    qsegs = ["submodels", sm_seg] + (["submodel-elements", praw] if on_elem else []) + ["qualifiers"]
    qt = rng.choice(QTYPES)
    qnode = (tnode if on_elem else (target["root"] if target is not None and kind == "sm" else None))
    if qnode is not None and qnode.get("q") and rng.random() < 0.7:
        qt = rng.choice(qnode["q"])[0]
    qseg = b64(qt, pad) if not (w and rng.random() < 0.2) else "A"
    if r < 0.895:
        return mk_req("GET", qsegs + ([qseg] if rng.random() < 0.6 else []), acc, level=level)
    if r < 0.92:
        return with_body("POST", qsegs, {"k": "qual", "t": rng.choice(QTYPES), "v": rng.randrange(3)})
    if r < 0.95:
        return with_body("PUT", qsegs + [qseg], {"k": "qual", "t": qt if rng.random() < 0.6 else rng.choice(QTYPES), "v": rng.randrange(3)})
    if r < 0.96:
        return mk_req("DELETE", qsegs + [qseg], acc)
    sh = ["shells", seg_id, "submodel-refs"]
    if r < 0.975:
        return mk_req("GET", sh, acc)
    if r < 0.99:
        return with_body("POST", sh, {"k": "ref", "id": rng.choice(IDS)})
    return mk_req("DELETE", sh + [b64(rng.choice(IDS))], acc)


def nested_kind_clash(old: Dict[str, Any], new: Dict[str, Any]) -> bool:
    """does `new` change the class of an element that exists under the same idShort in `old` (at any depth)?"""
    o = {c["ids"]: c for c in old.get("ch", [])}
    for c in new.get("ch", []):
        if c["ids"] in o:
            if o[c["ids"]]["k"] != c["k"] or nested_kind_clash(o[c["ids"]], c):
                return True
    return False


def find_elem(root: Dict[str, Any], path: List[str]) -> Optional[Dict[str, Any]]:
    cur = root
    for seg in path:
        nxt = [c for c in cur.get("ch", []) if c["ids"] == seg]
        if not nxt or cur["k"] not in ("sm", "coll"):
            return None
        cur = nxt[0]
    return cur


_FLAGS: Dict[str, bool] = {}


def sdk_flags() -> Dict[str, bool]:
    if not _FLAGS:
        _FLAGS.update(c10_translate.probe_update_from(C.REPO))
    return _FLAGS


def in_tie_scope(R: Dict[str, Any], snapshot: List[Any]) -> bool:
    """(Only on a tree whose update_nss_from does not replace class-changed children, i.e. without C12's repair.)
    Requests on which update_from meets a class change *below* the addressed node raise out of update_nss_from after a
    partial, dict-order dependent mutation (known finding http:PUT:nested-class-change).  The model only approximates the
    partial state, so the correspondence generator skips them (they are exercised by the oracle and the finding's replay)."""
    if R["m"] != "PUT" or not isinstance(R["body"], dict) or sdk_flags()["classChangeReplaces"]:
        return True
    segs = R["segs"]
    if len(segs) >= 2 and segs[0] == "submodels":
        d = b64_outcome(segs[1])
        if not isinstance(d, list):
            return True
        sm = next((o for o in snapshot if o.get("k") == "sm" and o.get("id") == d[1]), None)
        if sm is None:
            return True
        if len(segs) == 2 and R["body"].get("p") == "obj" and R["body"]["o"].get("k") == "sm":
            new = R["body"]["o"]["root"]
            if R["level"] == "core":
                return True
            return not nested_kind_clash(sm["root"], new)
        if len(segs) == 4 and segs[2] == "submodel-elements" and R["body"].get("p") == "elem":
            old = find_elem(sm["root"], segs[3].split("."))
            if old is None or R["level"] == "core":
                return True
            return not nested_kind_clash(old, R["body"]["e"])
    return True


class Lazy:
    """A history generated while it runs: each request is drawn knowing the store snapshot before it."""

    def __init__(self, seed: str, length: int, wild: float):
        self.rng = random.Random(seed)
        self.length = length
        self.wild = wild

    def requests(self, snapshot_fn):
        for _ in range(self.length):
            yield gen_request(self.rng, self.wild, snapshot_fn())


def gen_histories(ctx: C.Ctx, rng: random.Random, n: int, length: Tuple[int, int], wild: float) -> List[Any]:
    return [Lazy(f"h:{rng.random()}", rng.randint(*length), wild) for _ in range(n)]


# ------------------------------------------------------------------------------------------- correspondence

def run_histories(histories: List[List[Dict[str, Any]]], file_backed: bool, cov: Optional[C.Coverage], label: str):
    """Run histories on the implementation (filtering out-of-scope requests), return (lines, impl outputs, index)."""
    lines: List[Any] = []
    impl: List[Any] = []
    index: List[Tuple[int, int]] = []
    kept: List[List[Dict[str, Any]]] = []
    for hi, h in enumerate(histories):
        srv = Server(file_backed)
        try:
            lines.append(["reset"]); impl.append(["reset"]); index.append((hi, -1))
            lines.append(["mode", file_backed]); impl.append(["unit"]); index.append((hi, -1))
            snap = srv.snapshot()
            done: List[Dict[str, Any]] = []
            outcomes = []
            state = {"snap": snap}
            for R in (h.requests(lambda: state["snap"]) if isinstance(h, Lazy) else h):
                snap = state["snap"]
                if not in_tie_scope(R, snap):
                    continue
                out = srv.send(R)
                done.append(R)
                lines.append(model_line(R)); impl.append(canon_out(out, file_backed)); index.append((hi, len(done) - 1))
                snap = srv.snapshot()
                state["snap"] = snap
                lines.append(["view"]); impl.append(snap); index.append((hi, len(done) - 1))
                outcomes.append(out[1] if out[0] == "resp" else "crash")
                if cov is not None:
                    cov.hit(f"{label}:{R['m']}:{out[1] if out[0] == 'resp' else 'crash'}")
            kept.append(done)
            if cov is not None:
                cov.evaluations += 1
                if any(R["m"] in ("POST", "PUT", "DELETE") and str(o).startswith("2") and any(R2["m"] == "GET" for R2 in done[k + 1:])
                       for k, (R, o) in enumerate(zip(done, outcomes))):
                    cov.nontrivial.add(C.sha([(R["m"], len(R["segs"]), o) for R, o in zip(done, outcomes)]))
        finally:
            srv.close()
    return lines, impl, index, kept


def compare(main: str, lines, impl, index, kept, file_backed: bool, where: str) -> List[C.Disagreement]:
    out = C.run_model(main, lines)
    if len(out) != len(impl):
        return [C.Disagreement(f"{where}: driver output length", None, len(out), len(impl))]
    dis: List[C.Disagreement] = []
    for k, (m, i) in enumerate(zip(out, impl)):
        if lines[k][0] == "req":
            m = canon_out(m, file_backed)
            q = lines[k][1]
            if file_backed and (q["limit"] is not None or q["cursor"] is not None) and len(q["path"]) <= 2 \
                    and all(isinstance(x, list) and x and x[0] == "resp" and x[3][0] == "page" for x in (m, i)):
                # a file-backed store lists in directory order: which objects fall into a page is not determined
                m = ["resp", m[1], m[2], ["page", len(m[3][1]), m[3][2]]]
                i = ["resp", i[1], i[2], ["page", len(i[3][1]), i[3][2]]]
        elif lines[k][0] == "view":
            m = [fix_view(x) for x in m]
            if file_backed:
                m.sort(key=lambda o: o.get("id", ""))
        if m != i:
            hi, ri = index[k]
            dis.append(C.Disagreement(f"{where}: {lines[k][0]} after request {ri}", {"mode": "file" if file_backed else "dict", "reqs": kept[hi][: ri + 1]}, m, i))
            if len(dis) >= 5:
                break
    return dis


def fix_view(o):
    if isinstance(o, dict) and o.get("k") == "shell":
        return dict(o, refs=sorted(o["refs"]))
    return o


def exhaustive_short(rng: random.Random) -> List[List[Dict[str, Any]]]:
    """all histories of length <= 3 over a small alphabet of requests on two ids (create/replace/delete/read of one kind)"""
    import itertools
    a, b = IDS[0], IDS[2]
    def P(o):
        return mk_req("POST", ["submodels"], 1, 0, {"p": "obj", "o": o}, serialise(o, "json"))
    def U(i, o):
        return mk_req("PUT", ["submodels", b64(i)], 1, 0, {"p": "obj", "o": o}, serialise(o, "json"))
    oa = mk_sm(a, None, 1, [], [mk_elem("prop", "a", 1)])
    oa2 = mk_sm(a, "x1", 2, [["qa", 1]], [mk_elem("coll", "b", 2, [], [mk_elem("prop", "a", 0)])])
    ob = mk_sm(b, None, 3)
    alpha = [P(oa), P(ob), U(a, oa2), U(a, ob), mk_req("DELETE", ["submodels", b64(a)], 1), mk_req("GET", ["submodels", b64(a)], 1),
             mk_req("GET", ["submodels"], 1, limit="1", cursor="1"),
             mk_req("POST", ["submodels", b64(a), "submodel-elements"], 1, 0, {"p": "elem", "e": mk_elem("prop", "b", 0)}, serialise(mk_elem("prop", "b", 0), "json"))]
    return [list(h) for L in (1, 2, 3) for h in itertools.product(alpha, repeat=L)]


def correspond(ctx: C.Ctx, cov: C.Coverage, main: str = "C10") -> List[C.Disagreement]:
    rng = random.Random(f"C10:{ctx.seed}")
    cov.rule = ("random request histories (mostly well-formed, 15% deviating input classes) over pools of 4 identifiers (incl. '/', '+', '=', '?', "
                "non-ASCII, padded and unpadded base64url), 3 idShorts, 2 qualifier types, objects with nested collections, JSON/XML bodies, 8 Accept "
                "and 7 Content-Type variants, limit/cursor/level values, plus all histories of length <= 3 over 8 requests on two ids; after every "
                "request status, Location, canonical payload and the complete store snapshot are compared with the model. non-trivial = the "
                "history contains a successful write followed by a read; distinct = by (method, path length, status) sequence")
    hs = gen_histories(ctx, rng, ctx.budget(200, 2200), (4, 14), 0.15)
    ex = exhaustive_short(rng) if ctx.tier == "thorough" else [h for h in exhaustive_short(rng) if len(h) <= 2]
    dis: List[C.Disagreement] = []
    lines, impl, index, kept = run_histories(hs + ex, False, cov, "dict")
    dis += compare(main, lines, impl, index, kept, False, "dict store")
    cov.extra["exhaustive_short_histories"] = len(ex)
    # file-backed store: same handlers, persistence only through commit()
    hf = gen_histories(ctx, rng, ctx.budget(25, 300), (4, 12), 0.1)
    lines, impl, index, kept2 = run_histories(hf, True, cov, "file")
    dis += compare(main, lines, impl, index, kept2, True, "file store")
    cov.samples = [[(R["m"], url_of(R)) for R in kept[0]], [(R["m"], url_of(R)) for R in kept2[0]]]
    cov.extra["neutral_zones"] = ["int() spellings of limit/cursor accepted by Python ('+1', ' 2', '1_0', non-ASCII digits)",
                                  "order of a shell's submodel references (a Python set) and of file-backed listings (directory order)",
                                  "PUT bodies whose id/idShort/class differs from the addressed resource: 400 and no change is accepted as is"]
    return dis


# ------------------------------------------------------------------------------------------- oracle: reference repository

def norm(o: Any) -> Any:
    """order-insensitive normal form of an abstract object (children by idShort, qualifiers by type)"""
    if isinstance(o, dict):
        d = {k: norm(v) for k, v in o.items()}
        if d.get("k") == "file":
            d["val"] = d.get("val") is not None and d.get("val") is not False
        if "rs" in d and not d["rs"]:
            del d["rs"]
        if "ch" in d:
            d["ch"] = sorted(d["ch"], key=lambda c: str(c.get("ids")))
        if "q" in d:
            d["q"] = sorted(d["q"])
        if "refs" in d:
            d["refs"] = sorted(d["refs"])
        return d
    if isinstance(o, list):
        return [norm(x) for x in o]
    return o


def strip_abs(o: Dict[str, Any]) -> Dict[str, Any]:
    o = copy.deepcopy(o)
    if o["k"] == "sm":
        o["root"]["q"], o["root"]["ch"] = [], []
    elif o["k"] == "shell":
        o["refs"] = []
    elif o["k"] in ("prop", "coll"):
        o["q"], o["ch"] = [], []
    return o


class RefRepo:
    """The specification: a map from identifier to object, with the obvious create/read/replace/delete semantics.
    Written without looking at the SDK: plain dicts and lists of the abstract objects."""

    def __init__(self):
        self.m: Dict[str, Dict[str, Any]] = {}

    def get(self, kind: str, i: str):
        o = self.m.get(i)
        return o if o is not None and o["k"] == kind else None

    def listing(self, kind: str) -> List[Dict[str, Any]]:
        return [o for o in self.m.values() if o["k"] == kind]


class OracleRun:
    """Drives one server and the reference repository with *semantic* operations and checks every clause of the statement."""

    def __init__(self, file_backed: bool, rng: random.Random):
        self.srv = Server(file_backed)
        self.ref = RefRepo()
        self.rng = rng
        self.trace: List[Dict[str, Any]] = []
        self.fb = file_backed
        self.clashed: set = set()       # submodels that received a PUT changing the class of a nested element
        self.uploads: Dict[str, Any] = {}    # "submodel id|path" of a File -> (fileName, content, content type) of the upload it holds
        self.victims: set = set()            # Files that held the very upload (fileName, content, content type) ANOTHER File held when that one's was deleted
        self.stats: Dict[str, int] = {}
        self.cur_op: Optional[str] = None

    def close(self):
        self.srv.close()

    def send(self, R):
        self.trace.append(R)
        out = self.srv.send(R)
        if self.cur_op is not None:
            key = f"oracle:{self.cur_op}:{out[1] if out[0] == 'resp' else 'crash'}"
            self.stats[key] = self.stats.get(key, 0) + 1
            self.cur_op = None      # only the operation's own request, not the probes that follow it
        return out

    def fail(self, sig, what, observed=None, required=None) -> C.Failing:
        return C.Failing(sig, what, {"mode": "file" if self.fb else "dict", "reqs": list(self.trace)}, observed, required)

    # -- request builders (random encodings: Accept, Content-Type/format, base64 padding)
    def acc(self):
        return self.rng.choice([0, 1, 2, 3, 4])

    def seg(self, i):
        return b64(i, self.rng.random() < 0.7)

    def body(self, payload):
        ct = self.rng.choice([0, 0, 1, 2])
        fmt = "json" if CTYPES[ct][1] == "json" else "xml"
        return ct, serialise(payload, fmt)

    def payload_of(self, out, stripped_ok=False):
        return out[3][1] if out[0] == "resp" and out[3][0] == "item" else None

    def is_json(self, acc):
        return ACCEPTS[acc][1] == "json"

    # -- the clauses
    def classify_payload(self, where: str, i: str, got, want, what: str) -> C.Failing:
        """a payload that differs from the reference repository: name the recorded defect classes precisely"""
        if got is not None and norm(zero_quals(got)) == norm(zero_quals(want)):
            return self.fail("http:PUT:qualifier-value-not-replaced", f"after a PUT the qualifiers below {i!r} keep their old values", got, want)
        if i in self.clashed:
            return self.fail("http:PUT:nested-class-change", f"after a PUT that changes the class of a nested element, {i!r} is not the replacement", got, want)
        return self.fail(where, what, got, want)

    def check_read(self, kind, i) -> Optional[C.Failing]:
        acc = self.acc()
        core = kind != "shell" and self.rng.random() < 0.15
        level = "core" if core else self.rng.choice([None, None, None, "deep"])      # any other level value is the full object
        out = self.send(mk_req("GET", [TOP[kind], self.seg(i)], acc, level=level))
        want = self.ref.get(kind, i)
        if out[0] != "resp":
            return self.fail(f"http:GET:{kind}:crash", f"GET {kind} {i!r} raised {out[1]}", out)
        if want is None:
            if out[1] != 404:
                return self.fail(f"http:GET:{kind}:unknown-not-404", f"GET of unknown {kind} {i!r} answered {out[1]}", out, 404)
            return None
        if out[1] != 200:
            return self.fail(f"http:GET:{kind}:stored-not-200", f"GET of stored {kind} {i!r} answered {out[1]}", out, 200)
        got = self.payload_of(out)
        if core:
            if norm(got) != norm(strip_abs(want)):
                if not self.is_json(acc) and norm(zero_quals(got)) == norm(zero_quals(want)) and norm(want) != norm(strip_abs(want)):
                    return self.fail("http:GET:level-core:xml-not-stripped", f"GET {kind} {i!r}?level=core with an XML Accept returns the full object", got, strip_abs(want))
                if norm(zero_quals(got)) == norm(zero_quals(strip_abs(want))) or norm(zero_quals(got)) == norm(zero_quals(want)):
                    return None     # judged by the un-stripped read
                return self.classify_payload(f"http:GET:{kind}:core-payload", i, got, strip_abs(want), f"GET {kind} {i!r}?level=core differs from the stripped reference object")
            return None
        if norm(got) != norm(want):
            if got is not None and got.get("id") != i:
                return self.fail(f"http:GET:{kind}:filed-under-foreign-id", f"{kind} read under {i!r} reports id {got.get('id')!r}", got, want)
            return self.classify_payload(f"http:GET:{kind}:payload", i, got, want, f"GET {kind} {i!r} differs from the reference repository")
        return None

    def check_listing(self, kind) -> Optional[C.Failing]:
        acc = self.acc()
        out = self.send(mk_req("GET", [TOP[kind]], acc, limit="100"))
        want = self.ref.listing(kind)
        if out[0] != "resp" or out[1] != 200 or out[3][0] != "page":
            return self.fail(f"http:LIST:{kind}:status", f"listing of {kind} answered {out[:2]}", out)
        got = out[3][1]
        if sorted(json.dumps(norm(x), sort_keys=True) for x in got) != sorted(json.dumps(norm(x), sort_keys=True) for x in want):
            ids_got, ids_want = sorted(x.get("id") for x in got), sorted(x["id"] for x in want)
            if ids_got != ids_want:
                return self.fail(f"http:LIST:{kind}:members", f"listing of {kind} shows ids {ids_got}, the repository holds {ids_want}", ids_got, ids_want)
            if sorted(json.dumps(norm(zero_quals(x)), sort_keys=True) for x in got) == sorted(json.dumps(norm(zero_quals(x)), sort_keys=True) for x in want):
                return self.fail("http:PUT:qualifier-value-not-replaced", f"after a PUT the qualifiers in the listing of {kind} keep their old values", got, want)
            if self.clashed:
                return self.fail("http:PUT:nested-class-change", f"after a PUT that changes the class of a nested element the listing of {kind} is not the replacement", got, want)
            return self.fail(f"http:LIST:{kind}:payload", f"listing of {kind} differs from the reference repository", got, want)
        # paging: following the cursor with a random limit > 0 visits every element exactly once
        limit = self.rng.choice([1, 2, 3])
        cursor, pages, seen = "0", 0, []
        while True:
            o2 = self.send(mk_req("GET", [TOP[kind]], acc, limit=str(limit), cursor=cursor))
            if o2[0] != "resp" or o2[1] != 200 or o2[3][0] != "page":
                return self.fail(f"http:PAGE:{kind}:status", f"page request answered {o2[:2]}", o2)
            if not o2[3][1]:
                break
            if len(o2[3][1]) > limit or (len(o2[3][1]) < limit and len(seen) + len(o2[3][1]) < len(got)):
                return self.fail(f"http:PAGE:{kind}:page-size", f"a page requested with limit={limit} holds {len(o2[3][1])} items "
                                 f"({len(seen)} of {len(got)} seen before)", len(o2[3][1]), limit)
            seen += o2[3][1]
            cursor = str(o2[3][2])
            pages += 1
            if pages > len(want) + 3:
                return self.fail(f"http:PAGE:{kind}:no-end", "following the cursor does not reach an empty page")
        if [json.dumps(norm(x), sort_keys=True) for x in seen] != [json.dumps(norm(x), sort_keys=True) for x in got] and not self.fb:
            return self.fail(f"http:PAGE:{kind}:walk", f"pages of size {limit} concatenate to {len(seen)} items, the listing has {len(got)}", seen, got)
        if sorted(json.dumps(norm(x), sort_keys=True) for x in seen) != sorted(json.dumps(norm(x), sort_keys=True) for x in got):
            return self.fail(f"http:PAGE:{kind}:walk", f"pages of size {limit} do not visit every element exactly once", seen, got)
        return None

    def check_elements(self, i) -> Optional[C.Failing]:
        """every element of the reference submodel is readable under exactly its idShort path"""
        sm = self.ref.get("sm", i)
        if sm is None:
            return None
        def walk(node, path):
            for c in node["ch"]:
                yield path + [c["ids"]], c
                yield from walk(c, path + [c["ids"]])
        for path, want in walk(sm["root"], []):
            out = self.send(mk_req("GET", ["submodels", self.seg(i), "submodel-elements", ".".join(path)], self.acc()))
            if out[0] != "resp" or out[1] != 200:
                if i in self.clashed:
                    return self.fail("http:PUT:nested-class-change", f"after a PUT that changes the class of a nested element, {'.'.join(path)} of {i!r} answered {out[:2]}", out, 200)
                return self.fail("http:GET:elem:stored-not-200", f"element {'.'.join(path)} of {i!r} answered {out[:2]}", out, 200)
            got = self.payload_of(out)
            if isinstance(got, dict) and got.get("k") == "att" and want["k"] in ("file", "blob"):
                got = dict(got, k=want["k"])
            if norm(got) != norm(want):
                if got is not None and got.get("ids") != path[-1]:
                    return self.fail("http:GET:elem:filed-under-foreign-idshort", f"element read under {'.'.join(path)} reports idShort {got.get('ids')!r}", got, want)
                return self.classify_payload("http:GET:elem:payload", i, got, want, f"element {'.'.join(path)} of {i!r} differs from the reference repository")
            if want["k"] in ("file", "blob"):
                f = self.check_attachment(i, path, want)
                if f:
                    return f
        return None

    def check_attachment(self, i, path, want) -> Optional[C.Failing]:
        """a File / Blob answers with exactly the content it holds (what was uploaded to it / its value), 404 if it holds none"""
        out = self.send(mk_req("GET", ["submodels", self.seg(i), "submodel-elements", ".".join(path), "attachment"], self.acc()))
        where = f"attachment of {'.'.join(path)} of {i!r}"
        if out[0] != "resp":
            return self.fail("http:GET:attachment:crash", f"GET {where} raised {out[1]}", out)
        if want["val"] is None:
            if out[1] != 404:
                return self.fail("http:GET:attachment:none-not-404", f"GET {where}, which holds no content, answered {out[1]}", out, 404)
            return None
        if out[1] != 200:
            if out[1] == 404 and want["k"] == "file" and f"{i}|{'.'.join(path)}" in self.victims:
                return self.fail("http:attachment:shared-upload-deleted", f"GET {where} answered 404 after the attachment of ANOTHER File, uploaded with "
                                 "the same fileName, content and content type, was deleted", out, 200)
            return self.fail("http:GET:attachment:stored-not-200", f"GET {where} answered {out[1]}", out, 200)
        body = out[3]
        got = body[2] if body[0] == "other" else None
        if got is None or base64.b64decode(got) != base64.b64decode(want["val"]):
            return self.fail("http:GET:attachment:payload", f"GET {where} does not return the content this element holds", body, want["val"])
        if (body[1] or "").split(";")[0].strip() != want["cty"]:
            return self.fail("http:GET:attachment:content-type", f"GET {where} is answered with Content-Type {body[1]!r}", body[1], want["cty"])
        return None

    def check_refs(self, i) -> Optional[C.Failing]:
        """the references of a stored shell are listed completely (incl. their referredSemanticId)"""
        sh = self.ref.get("shell", i)
        if sh is None:
            return None
        out = self.send(mk_req("GET", ["shells", self.seg(i), "submodel-refs"], self.acc(), limit="100"))
        if out[0] != "resp" or out[1] != 200 or out[3][0] != "page":
            return self.fail("http:LIST:refs:status", f"submodel-refs of {i!r} answered {out[:2]}", out)
        want = sorted(json.dumps(dict({"k": "ref", "id": x}, **({"rs": sh["rs"][x]} if x in sh.get("rs", {}) else {})), sort_keys=True) for x in sh["refs"])
        got = sorted(json.dumps(x, sort_keys=True) for x in out[3][1])
        if got != want:
            return self.fail("http:LIST:refs:members", f"submodel-refs of {i!r} differ from the reference repository", got, want)
        return None

    def sweep(self) -> Optional[C.Failing]:
        for kind in ("sm", "shell", "cd"):
            for i in IDS:
                f = self.check_read(kind, i)
                if f:
                    return f
            f = self.check_listing(kind)
            if f:
                return f
        for i in IDS:
            f = self.check_elements(i) or self.check_refs(i)
            if f:
                return f
        return None

    def forget_uploads(self, i: str, path: Optional[List[str]] = None):
        """the Files at / below `path` of submodel `i` are gone or replaced: so is what they held"""
        pre = f"{i}|" + (".".join(path) if path else "")
        for k in [k for k in self.uploads if k == pre or k.startswith(pre + ".") or not path and k.startswith(pre)]:
            del self.uploads[k]
            self.victims.discard(k)

    # -- semantic operations
    def op(self, op: List[Any]) -> Optional[C.Failing]:
        k = op[0]
        rng = self.rng
        if k == "read":
            # explicit probe: ["read", kind, id, accept index, level] — deterministic (used by recorded cases)
            _, kind, i, acc, level = op
            out = self.send(mk_req("GET", [TOP[kind], b64(i)], acc, level=level))
            want = self.ref.get(kind, i)
            if out[0] != "resp" or want is None or out[1] != 200:
                return None if out[0] == "resp" else self.fail(f"http:GET:{kind}:crash", f"GET {kind} {i!r} raised {out[1]}", out)
            got = self.payload_of(out)
            exp = strip_abs(want) if level == "core" else want
            if norm(got) != norm(exp):
                if level == "core" and not self.is_json(acc) and norm(got) == norm(want):
                    return self.fail("http:GET:level-core:xml-not-stripped", f"GET {kind} {i!r}?level=core with an XML Accept returns the full object", got, exp)
                return self.classify_payload(f"http:GET:{kind}:payload", i, got, exp, f"GET {kind} {i!r} differs from the reference repository")
            return None
        if k == "create":
            kind, o = op[1], op[2]
            ct, by = self.body(o)
            level = op[3] if len(op) > 3 else None
            out = self.send(mk_req("POST", [TOP[kind]], self.acc(), ct, {"p": "obj", "o": o}, by, level=level))
            if out[0] != "resp":
                return self.fail(f"http:POST:{kind}:crash", f"POST {kind} raised {out[1]}", out)
            if o["id"] in self.ref.m:
                if out[1] != 409:
                    return self.fail(f"http:POST:{kind}:duplicate-not-409", f"POST of existing id {o['id']!r} answered {out[1]}", out, 409)
                return None
            if out[1] != 201:
                return self.fail(f"http:POST:{kind}:not-201", f"POST {kind} answered {out[1]}", out, 201)
            stored = strip_abs(o) if level == "core" and kind != "shell" else o
            self.ref.m[o["id"]] = copy.deepcopy(stored)
            if out[2] != [kind, o["id"]]:
                return self.fail(f"http:POST:{kind}:location", f"Location {out[2]} does not name the created {kind} {o['id']!r}", out[2], [kind, o["id"]])
            return None
        if k == "replace":
            _, kind, i, o = op
            ct, by = self.body(o)
            out = self.send(mk_req("PUT", [TOP[kind], self.seg(i)], self.acc(), ct, {"p": "obj", "o": o}, by))
            if out[0] != "resp":
                if kind == "sm" and self.ref.get("sm", i) and nested_kind_clash(self.ref.get("sm", i)["root"], o["root"]):
                    return self.fail("http:PUT:nested-class-change", f"PUT submodel changing the class of a nested element raised {out[1]}", out)
                return self.fail(f"http:PUT:{kind}:crash", f"PUT {kind} raised {out[1]}", out)
            if self.ref.get(kind, i) is None:
                if out[1] != 404:
                    return self.fail(f"http:PUT:{kind}:unknown-not-404", f"PUT of unknown {kind} {i!r} answered {out[1]}", out, 404)
                return None
            if o["id"] != i or o["k"] != kind:
                # neutral zone: a replacement claiming another identity may be rejected (4xx, nothing changes) ...
                if 400 <= out[1] < 500:
                    return None
                # ... or re-filed; whatever happened, the sweep below must find every object under exactly its own id
                self.ref.m.pop(i)
                self.ref.m[o["id"]] = copy.deepcopy(o)
                return None
            if out[1] != 204:
                return self.fail(f"http:PUT:{kind}:not-204", f"PUT {kind} {i!r} answered {out[1]}", out, 204)
            if kind == "sm" and nested_kind_clash(self.ref.m[i]["root"], o["root"]):
                self.clashed.add(i)
            self.ref.m[i] = copy.deepcopy(o)
            self.forget_uploads(i)
            return None
        if k == "delete":
            _, kind, i = op
            out = self.send(mk_req("DELETE", [TOP[kind], self.seg(i)], self.acc()))
            if out[0] != "resp":
                return self.fail(f"http:DELETE:{kind}:crash", f"DELETE {kind} raised {out[1]}", out)
            if self.ref.get(kind, i) is None:
                if out[1] != 404:
                    return self.fail(f"http:DELETE:{kind}:unknown-not-404", f"DELETE of unknown {kind} {i!r} answered {out[1]}", out, 404)
                return None
            if out[1] != 204:
                return self.fail(f"http:DELETE:{kind}:not-204", f"DELETE {kind} {i!r} answered {out[1]}", out, 204)
            del self.ref.m[i]
            self.forget_uploads(i)
            return None
        if k in ("elem-create", "elem-replace", "elem-delete"):
            i, path = op[1], op[2]
            sm = self.ref.get("sm", i)
            segs = ["submodels", self.seg(i), "submodel-elements"] + ([".".join(path)] if path else [])
            if k == "elem-create":
                e = op[3]
                ct, by = self.body(e)
                out = self.send(mk_req("POST", segs, self.acc(), ct, {"p": "elem", "e": e}, by))
            elif k == "elem-replace":
                e = op[3]
                ct, by = self.body(e)
                out = self.send(mk_req("PUT", segs, self.acc(), ct, {"p": "elem", "e": e}, by))
            else:
                out = self.send(mk_req("DELETE", segs, self.acc()))
            target = find_elem(sm["root"], path) if sm else None
            if out[0] != "resp":
                if k == "elem-replace" and target is not None and nested_kind_clash(target, e):
                    return self.fail("http:PUT:nested-class-change", f"PUT element changing the class of a nested element raised {out[1]}", out)
                return self.fail(f"http:{k}:crash", f"{k} raised {out[1]}", out)
            if sm is None or target is None:
                if not 400 <= out[1] < 500:
                    return self.fail(f"http:{k}:unknown-not-4xx", f"{k} on an unknown submodel/element answered {out[1]}", out, "404")
                if out[1] != 404 and (sm is None or all(find_elem(sm["root"], path[:n]) is None or find_elem(sm["root"], path[:n])["k"] in ("sm", "coll") for n in range(len(path)))):
                    return self.fail(f"http:{k}:unknown-not-404", f"{k} on an unknown submodel/element answered {out[1]}", out, 404)
                return None
            if k == "elem-create":
                if target["k"] not in ("sm", "coll") or e["ids"] is None:
                    if not 400 <= out[1] < 500:
                        return self.fail("http:elem-create:invalid-not-4xx", f"POST below a property / without idShort answered {out[1]}", out)
                    return None
                if any(c["ids"] == e["ids"] for c in target["ch"]):
                    if out[1] != 409:
                        return self.fail("http:elem-create:duplicate-not-409", f"POST of existing idShort {e['ids']!r} answered {out[1]}", out, 409)
                    return None
                if out[1] != 201:
                    return self.fail("http:elem-create:not-201", f"POST element answered {out[1]}", out, 201)
                target["ch"].append(copy.deepcopy(e))
                if out[2] != ["elem", i, path + [e["ids"]]]:
                    return self.fail("http:elem-create:location", f"Location {out[2]} does not name the created element", out[2], ["elem", i, path + [e["ids"]]])
                return None
            if not path:
                if not 400 <= out[1] < 500:
                    return self.fail(f"http:{k}:no-path-not-4xx", f"{k} without a path answered {out[1]}", out)
                return None
            parent = find_elem(sm["root"], path[:-1])
            if k == "elem-delete":
                if out[1] != 204:
                    return self.fail("http:elem-delete:not-204", f"DELETE element answered {out[1]}", out, 204)
                parent["ch"] = [c for c in parent["ch"] if c["ids"] != path[-1]]
                self.forget_uploads(i, path)
                o2 = self.send(mk_req("GET", segs, self.acc()))
                if o2[0] != "resp" or o2[1] != 404:
                    return self.fail("http:elem-delete:still-there", f"element {'.'.join(path)} answered {o2[:2]} after its DELETE was answered 204", o2, 404)
                return None
            if e["ids"] != path[-1] or e["k"] != target["k"]:
                if 400 <= out[1] < 500:
                    return None
                parent["ch"] = [copy.deepcopy(e) if c["ids"] == path[-1] else c for c in parent["ch"]]
                self.forget_uploads(i, path)
                return None
            if out[1] != 204:
                return self.fail("http:elem-replace:not-204", f"PUT element answered {out[1]}", out, 204)
            if nested_kind_clash(target, e):
                self.clashed.add(i)
            parent["ch"] = [copy.deepcopy(e) if c["ids"] == path[-1] else c for c in parent["ch"]]
            self.forget_uploads(i, path)
            return None
        if k in ("att-put", "att-del"):
            i, path = op[1], op[2]
            sm = self.ref.get("sm", i)
            target = find_elem(sm["root"], path) if sm and path else None
            segs = ["submodels", self.seg(i), "submodel-elements", ".".join(path), "attachment"]
            if k == "att-put":
                _, _, _, fname, content, mime = op
                out = self.send(mk_req("PUT", segs, self.acc(), form={"fileName": fname, "file": [content, fname.split("/")[-1] or "f", mime]}))
            else:
                out = self.send(mk_req("DELETE", segs, self.acc()))
            if out[0] != "resp":
                return self.fail(f"http:{k}:crash", f"{k} raised {out[1]}", out)
            if target is None or target["k"] not in ("file", "blob") or (k == "att-put" and target["k"] != "file"):
                # unknown submodel / element, or an element that cannot hold this: some 4xx, nothing changes (the sweep checks that)
                if not 400 <= out[1] < 500:
                    return self.fail(f"http:{k}:invalid-not-4xx", f"{k} on {'.'.join(path)} of {i!r} (no such File/Blob) answered {out[1]}", out, "4xx")
                return None
            key = f"{i}|{'.'.join(path)}"
            if k == "att-del":
                if target["val"] is None:
                    if out[1] != 404:
                        return self.fail("http:att-del:none-not-404", f"DELETE of an attachment that does not exist answered {out[1]}", out, 404)
                    return None
                if out[1] != 204:
                    return self.fail("http:att-del:not-204", f"DELETE attachment answered {out[1]}", out, 204)
                target["val"] = None
                if key in self.uploads:
                    up = self.uploads.pop(key)
                    self.victims |= {k2 for k2, u2 in self.uploads.items() if u2 == up}
                self.victims.discard(key)
                return None
            if target["val"] is not None:
                if out[1] != 409:
                    return self.fail("http:att-put:occupied-not-409", f"upload to a File that holds an attachment already answered {out[1]}", out, 409)
                return None
            if mime != target["cty"]:
                if not 400 <= out[1] < 500:
                    return self.fail("http:att-put:wrong-type-not-4xx", f"upload of {mime!r} to a File of content type {target['cty']!r} answered {out[1]}", out, 415)
                return None
            if out[1] != 204:
                return self.fail("http:att-put:not-204", f"upload to the File {'.'.join(path)} of {i!r} answered {out[1]}", out, 204)
            target["val"] = content
            self.uploads[key] = [fname, content, mime]
            self.victims.discard(key)
            return None
        if k in ("ref-add", "ref-del", "sp-get", "sp-delete", "sp-put"):
            i, smid = op[1], op[2]
            sh = self.ref.get("shell", i)
            has = sh is not None and smid in sh["refs"]
            if k == "ref-add":
                # a second reference to the same submodel that differs in its referredSemanticId only is outside the reference
                # semantics (a map has one entry per id): the generated reference then repeats the one that is there
                rs = sh.get("rs", {}).get(smid) if has else op[3]
                r = {"k": "ref", "id": smid}
                if rs is not None:
                    r["rs"] = rs
                ct, by = self.body(r)
                out = self.send(mk_req("POST", ["shells", self.seg(i), "submodel-refs"], self.acc(), ct, {"p": "ref", "id": smid}, by))
            elif k == "ref-del":
                out = self.send(mk_req("DELETE", ["shells", self.seg(i), "submodel-refs", self.seg(smid)], self.acc()))
            elif k == "sp-get":
                out = self.send(mk_req("GET", ["shells", self.seg(i), "submodels", self.seg(smid)] + list(op[3]), self.acc()))
            elif k == "sp-delete":
                out = self.send(mk_req("DELETE", ["shells", self.seg(i), "submodels", self.seg(smid)], self.acc()))
            else:
                ct, by = self.body(op[3])
                out = self.send(mk_req("PUT", ["shells", self.seg(i), "submodels", self.seg(smid)], self.acc(), ct, {"p": "obj", "o": op[3]}, by))
            if out[0] != "resp":
                return self.fail(f"http:{k}:crash", f"{k} raised {out[1]}", out)
            if sh is None or (not has and k != "ref-add"):
                if out[1] != 404:
                    return self.fail(f"http:{k}:unknown-not-404", f"{k} on a shell / reference that does not exist answered {out[1]}", out, 404)
                return None
            if k == "ref-add":
                if has:
                    if out[1] != 409:
                        return self.fail("http:ref-add:duplicate-not-409", f"POST of a reference the shell holds already answered {out[1]}", out, 409)
                    return None
                if out[1] != 201:
                    return self.fail("http:ref-add:not-201", f"POST of a submodel reference answered {out[1]}", out, 201)
                sh["refs"] = sorted(sh["refs"] + [smid])
                if rs is not None:
                    sh.setdefault("rs", {})[smid] = rs
                return None
            if k == "ref-del":
                if out[1] != 204:
                    return self.fail("http:ref-del:not-204", f"DELETE of the reference to {smid!r}, which the shell {i!r} lists, answered {out[1]}", out, 204)
                sh["refs"] = [x for x in sh["refs"] if x != smid]
                sh.get("rs", {}).pop(smid, None)
                return None
            if k == "sp-get":
                if out[1] != 307:
                    return self.fail("http:sp-get:not-307", f"GET below /shells/{{id}}/submodels/{{id}} for a listed reference answered {out[1]}", out, 307)
                if not op[3] and out[2] != ["sm", smid]:
                    return self.fail("http:sp-get:location", f"the redirect names {out[2]}, not the submodel {smid!r}", out[2], ["sm", smid])
                return None
            stored = self.ref.get("sm", smid)
            if stored is None:
                # a listed reference to something that is not a stored submodel: not found, nothing changes
                if out[1] != 404:
                    return self.fail(f"http:{k}:dangling-not-404", f"{k} through a reference to {smid!r}, which is not a stored submodel, answered {out[1]}", out, 404)
                return None
            if k == "sp-delete":
                if out[1] != 204:
                    return self.fail("http:sp-delete:not-204", f"DELETE of the stored submodel {smid!r} through the shell {i!r} answered {out[1]}", out, 204)
                del self.ref.m[smid]
                self.forget_uploads(smid)
                sh["refs"] = [x for x in sh["refs"] if x != smid]
                sh.get("rs", {}).pop(smid, None)
                return None
            o = op[3]
            if o["id"] != smid:
                # neutral zone as for PUT /submodels/{id}: rejected (4xx, unchanged) or re-filed under the id it claims (and the
                # shell's reference follows); the sweep demands "reachable under exactly its own identifier" either way
                if 400 <= out[1] < 500:
                    return None
                self.ref.m.pop(smid)
                self.ref.m[o["id"]] = copy.deepcopy(o)
                self.forget_uploads(smid)
                rs = sh.get("rs", {}).pop(smid, None)
                sh["refs"] = sorted(set([x for x in sh["refs"] if x != smid] + [o["id"]]))
                return None
            if out[1] != 204:
                return self.fail("http:sp-put:not-204", f"PUT of the stored submodel {smid!r} through the shell {i!r} answered {out[1]}", out, 204)
            if nested_kind_clash(stored["root"], o["root"]):
                self.clashed.add(smid)
            self.ref.m[smid] = copy.deepcopy(o)
            self.forget_uploads(smid)
            return None
        raise ValueError(op)


def gen_semantic_ops(rng: random.Random, n: int, allow_known: bool) -> List[List[Any]]:
    """Semantic operations for the reference-repository oracle.  The generator follows what the history has created so far (a
    plain approximation `made`: ids, element paths, references), so that most operations address resources that exist: a history
    starts by creating a few objects, an operation that needs a kind of which nothing exists yet becomes its creation, uploads go
    to File elements (few file names and contents: different Files upload under the same fileName), reference operations to
    references a shell holds (some carrying a referredSemanticId)."""
    ops: List[List[Any]] = []
    made: Dict[str, Dict[str, Any]] = {}
    def known(kind):
        return [i for i, o in made.items() if o["k"] == kind]
    def create(kind, i=None):
        if i is None:
            free = [x for x in IDS if x not in made]
            i = rng.choice(free) if free and rng.random() < 0.85 else rng.choice(IDS)
        o = gen_obj(rng, kind, i, zoo=True)
        if kind == "shell" and known("sm") and rng.random() < 0.8:
            refs = sorted(set(rng.sample(known("sm"), rng.randint(1, min(2, len(known("sm"))))) + (o["refs"][:1] if rng.random() < 0.3 else [])))
            rs = {x: y for x, y in ((x, rng.choice(REF_SEMS)) for x in refs) if y is not None}
            o = mk_shell(i, o["ids"], o["tok"], refs, rs)
        core = rng.random() < 0.08
        ops.append(["create", kind, o] + (["core"] if core else []))
        if i not in made:
            made[i] = strip_abs(o) if core and kind != "shell" else copy.deepcopy(o)
    def need(kind):
        """an id of a stored object of this kind (mostly), creating one first if there is none"""
        if not known(kind):
            create(kind)
        ks = known(kind)
        return rng.choice(ks) if ks and rng.random() < 0.9 else rng.choice(IDS)
    def some_path(i, kinds=None):
        o = made.get(i)
        if o is not None and o["k"] == "sm" and rng.random() < 0.9:
            ps = [p for p, e in all_paths(o["root"]) if kinds is None or e["k"] in kinds]
            if ps:
                return rng.choice(ps)
        return rand_path(rng)
    def sm_elem(i, p):
        o = made.get(i)
        return find_elem(o["root"], p) if o is not None and o["k"] == "sm" and p else None
    for _ in range(rng.randint(1, 3)):
        create(rng.choice(["sm", "sm", "sm", "shell", "cd"]))
    while len(ops) < n:
        r = rng.random()
        kind = rng.choice(["sm", "sm", "shell", "cd"])
        if r < 0.12:
            create(kind)
        elif r < 0.26:
            i = need(kind)
            o = gen_obj(rng, kind, i if rng.random() < 0.9 else rng.choice(IDS), zoo=True)
            ops.append(["replace", kind, i, o])
            if made.get(i, {}).get("k") == kind and o["id"] == i:
                made[i] = copy.deepcopy(o)
        elif r < 0.31:
            i = need(kind)
            ops.append(["delete", kind, i])
            if made.get(i, {}).get("k") == kind:
                del made[i]
        elif r < 0.45:
            i = need("sm")
            path = some_path(i, ("coll",))[: rng.choice([0, 0, 1, 2, 3])]
            if sm_elem(i, path) is None:
                path = []
            e = gen_elem(rng, 1, rng.choice(IDSHORTS), zoo=True)
            ops.append(["elem-create", i, path, e])
            parent = find_elem(made[i]["root"], path) if made.get(i, {}).get("k") == "sm" else None
            if parent is not None and parent["k"] in ("sm", "coll") and all(c["ids"] != e["ids"] for c in parent["ch"]):
                parent["ch"].append(copy.deepcopy(e))
        elif r < 0.54:
            i = need("sm")
            p = some_path(i)
            old = sm_elem(i, p)
            k2 = old["k"] if old is not None and rng.random() < 0.8 else rng.choice(["prop", "coll", "file", "blob"])
            e = gen_elem(rng, 1, p[-1] if rng.random() < 0.9 else rng.choice(IDSHORTS), kind=k2, zoo=True)
            ops.append(["elem-replace", i, p, e])
            if old is not None and old["k"] == e["k"] and e["ids"] == p[-1]:
                parent = find_elem(made[i]["root"], p[:-1])
                parent["ch"] = [copy.deepcopy(e) if c["ids"] == p[-1] else c for c in parent["ch"]]
        elif r < 0.59:
            i = need("sm")
            p = some_path(i)
            ops.append(["elem-delete", i, p])
            if sm_elem(i, p) is not None:
                parent = find_elem(made[i]["root"], p[:-1])
                parent["ch"] = [c for c in parent["ch"] if c["ids"] != p[-1]]
        elif r < 0.80:
            # attachments
            i = need("sm")
            o = made.get(i)
            files = [p for p, e in all_paths(o["root"]) if e["k"] == "file"] if o is not None and o["k"] == "sm" else []
            if not files and rng.random() < 0.8 and o is not None and o["k"] == "sm":
                free = [x for x in IDSHORTS if all(c["ids"] != x for c in o["root"]["ch"])]
                if free:
                    e = gen_elem(rng, 0, rng.choice(free), kind="file")
                    ops.append(["elem-create", i, [], e])
                    o["root"]["ch"].append(copy.deepcopy(e))
                    continue
            allf = [(j, p) for j in known("sm") for p, e in all_paths(made[j]["root"]) if e["k"] == "file"]
            if allf and rng.random() < 0.3:
                # the second life of a content: upload -> delete -> upload of the identical bytes (or of other bytes), to the same File or
                # to another one, under the same fileName or another one; the sweep downloads every attachment afterwards
                j, p = rng.choice(allf)
                content = rng.choice(FILE_BYTES)
                fname = rng.choice(FILE_NAMES)
                enc = lambda b: base64.b64encode(b).decode("ascii")
                if rng.random() < 0.5:
                    ops.append(["att-del", j, p])        # whatever it holds now
                ops.append(["att-put", j, p, fname, enc(content), sm_elem(j, p)["cty"]])
                for _ in range(rng.choice([1, 1, 2])):
                    ops.append(["att-del", j, p])
                    j2, p2 = (j, p) if rng.random() < 0.6 else rng.choice(allf)
                    if rng.random() < 0.35:
                        content = rng.choice(FILE_BYTES)
                    if (j2, p2) != (j, p) and rng.random() < 0.5:
                        ops.append(["att-del", j2, p2])
                    ops.append(["att-put", j2, p2, fname if rng.random() < 0.6 else rng.choice(FILE_NAMES), enc(content), sm_elem(j2, p2)["cty"]])
                    j, p = j2, p2
                continue
            if rng.random() < 0.35:
                # several Files of the repository (this submodel's and the others') receive uploads, mostly under one fileName
                fname = rng.choice(FILE_NAMES)
                chosen = rng.sample(allf, min(len(allf), rng.randint(2, 3)))
                content = rng.choice(FILE_BYTES)
                for j, p in chosen:
                    ops.append(["att-put", j, p, fname if rng.random() < 0.8 else rng.choice(FILE_NAMES),
                                base64.b64encode(content if rng.random() < 0.5 else rng.choice(FILE_BYTES)).decode("ascii"), sm_elem(j, p)["cty"]])
                if chosen and rng.random() < 0.5:
                    # ... and one of them is deleted again: the others keep theirs
                    ops.append(["att-del"] + list(rng.choice(chosen)))
                continue
            p = rng.choice(files) if files and rng.random() < 0.85 else some_path(i, ("file", "blob") if rng.random() < 0.8 else None)
            if rng.random() < 0.7:
                e = sm_elem(i, p)
                mime = e["cty"] if e is not None and "cty" in e and rng.random() < 0.9 else rng.choice(ATT_CTYPES)
                ops.append(["att-put", i, p, rng.choice(FILE_NAMES), base64.b64encode(rng.choice(FILE_BYTES)).decode("ascii"), mime])
            else:
                ops.append(["att-del", i, p])
        else:
            if not known("sm"):
                create("sm")
            sh = need("shell")
            o = made.get(sh)
            held = o["refs"] if o is not None and o["k"] == "shell" else []
            smid = rng.choice(held) if held and rng.random() < 0.75 else need("sm")
            r2 = rng.random()
            if r2 < 0.3 or not held:
                ops.append(["ref-add", sh, smid, rng.choice(REF_SEMS)])
                if o is not None and o["k"] == "shell" and smid not in o["refs"]:
                    o["refs"] = sorted(o["refs"] + [smid])
            elif r2 < 0.55:
                ops.append(["ref-del", sh, smid])
                if o is not None and o["k"] == "shell":
                    o["refs"] = [x for x in o["refs"] if x != smid]
            elif r2 < 0.7:
                ops.append(["sp-get", sh, smid, rng.choice([[], [], ["submodel-elements"]])])
            elif r2 < 0.85:
                ops.append(["sp-delete", sh, smid])
                if o is not None and o["k"] == "shell" and smid in o["refs"] and made.get(smid, {}).get("k") == "sm":
                    del made[smid]
                    o["refs"] = [x for x in o["refs"] if x != smid]
            else:
                ops.append(["sp-put", sh, smid, gen_obj(rng, "sm", smid if rng.random() < 0.88 else rng.choice(IDS), zoo=True)])
                if o is not None and o["k"] == "shell" and smid in o["refs"] and made.get(smid, {}).get("k") == "sm" and ops[-1][3]["id"] == smid:
                    made[smid] = copy.deepcopy(ops[-1][3])
    return ops


def zero_quals(o):
    """the object with every qualifier value replaced by 0 (to recognise 'differs in qualifier values only')"""
    if isinstance(o, dict):
        return {k: ([[t, 0] for t, _ in v] if k == "q" else zero_quals(v)) for k, v in o.items()}
    if isinstance(o, list):
        return [zero_quals(x) for x in o]
    return o


def strip_quals(o):
    if isinstance(o, dict):
        return {k: ([] if k == "q" else strip_quals(v)) for k, v in o.items()}
    if isinstance(o, list):
        return [strip_quals(x) for x in o]
    return o


def run_semantic(ops: List[List[Any]], file_backed: bool, seed: Any, sweep: bool = True, stats: Optional[Dict[str, int]] = None) -> Optional[C.Failing]:
    run = OracleRun(file_backed, random.Random(f"sem:{seed}"))
    try:
        for k, op in enumerate(ops):
            run.cur_op = op[0]
            f = run.op(copy.deepcopy(op))
            run.cur_op = None
            # sweep = "some": the complete sweep after about a third of the operations and after the last one (search speed);
            # recorded cases are replayed with the sweep after every operation
            if f is None and sweep and (sweep != "some" or k == len(ops) - 1 or random.Random(f"sw:{seed}:{k}").random() < 0.3):
                f = run.sweep()
            if f is not None:
                f.case = {"kind": "semantic", "mode": "file" if file_backed else "dict", "ops": ops[: k + 1], "seed": str(seed)}
                return f
        return None
    finally:
        if stats is not None:
            for k, v in run.stats.items():
                stats[k] = stats.get(k, 0) + v
        run.close()


def oracle(ctx: C.Ctx, cov: C.Coverage, only_directed: bool = False) -> List[C.Failing]:
    rng = random.Random(f"C10-oracle:{ctx.seed}")
    out: List[C.Failing] = []
    sigs = set()
    n = 0 if only_directed else ctx.budget(240, 1800)
    cov.extra["oracle"] = ("semantic operation histories against the reference repository (a dict of plain objects): create / replace / delete of shells, "
                           "submodels, concept descriptions; nested elements incl. File and Blob; uploads to / downloads from / deletions of "
                           "attachments with 2 file names x 3 contents x 2 content types (different Files upload under one name); submodel "
                           "references with and without referredSemanticId (add, delete, listing); PUT / DELETE / redirect through a shell's "
                           "reference; after an operation the sweep reads every id x kind, the listings, a cursor walk, every element by its "
                           "path, every attachment, every shell's references")
    for hi in range(n):
        ops = gen_semantic_ops(rng, rng.randint(5, 14), True)
        fb = hi % 5 == 4
        f = run_semantic(ops, fb, (ctx.seed, hi), "some", stats=cov.histogram)
        cov.hit("oracle-histories")
        if f is not None:
            f = run_semantic(f.case["ops"], fb, (ctx.seed, hi)) or f       # the first operation after which the complete sweep fails
        if f is not None and f.sig not in sigs:
            sigs.add(f.sig)
            f.case["ops"] = C.ddmin(f.case["ops"], lambda o, f=f, fb=fb, hi=hi: (lambda g: g is not None and g.sig == f.sig)(run_semantic(o, fb, (ctx.seed, hi))), 60)
            out.append(f)
    # (round 6) directed: every kind of attachment operation on a Blob that holds content and on a File, at the top and inside a
    # collection, in BOTH store modes (what a handler changes without committing is lost on a file-backed store only)
    b64c = base64.b64encode(FILE_BYTES[0]).decode("ascii")
    for fb in (False, True):
        for nested in (False, True):
            els = [mk_att("blob", "a", 1, ATT_CTYPES[0], b64c), mk_att("file", "b", 1, ATT_CTYPES[0], None)]
            root = [mk_elem("coll", "c1", 1, [], els)] if nested else els
            pre = ["c1"] if nested else []
            sm_ = mk_sm(IDS[0], None, 1, [], root)
            ops = [["create", "sm", sm_], ["att-del", IDS[0], pre + ["a"]], ["att-del", IDS[0], pre + ["a"]],
                   ["att-put", IDS[0], pre + ["b"], FILE_NAMES[0], b64c, ATT_CTYPES[0]], ["att-del", IDS[0], pre + ["b"]],
                   ["att-put", IDS[0], pre + ["b"], FILE_NAMES[1], b64c, ATT_CTYPES[0]]]
            f = run_semantic(ops, fb, (ctx.seed, "att", fb, nested))
            cov.hit("oracle-histories")
            if f is not None and f.sig not in sigs:
                sigs.add(f.sig)
                out.append(f)
    # (round 7) directed: a replacement of a qualifier that is refused (its body claims the type of ANOTHER existing qualifier) leaves
    # the addressed qualifier where it is - a map does not change when it rejects; on the submodel and on an element, both store modes
    for fb in (False, True):
        srv = Server(fb)
        try:
            qs = [[QTYPES[0], 1], [QTYPES[1], 2]]
            sm_ = mk_sm(IDS[0], None, 1, qs, [mk_elem("prop", "a", 1, qs)])
            srv.send(mk_req("POST", ["submodels"], 1, 0, {"p": "obj", "o": sm_}, serialise(sm_, "json")))
            for base in (["submodels", b64(IDS[0])], ["submodels", b64(IDS[0]), "submodel-elements", "a"]):
                segs = base + ["qualifiers", b64(QTYPES[0])]
                before = srv.send(mk_req("GET", segs, 1))
                body = {"k": "qual", "t": QTYPES[1], "v": 0}
                put = srv.send(mk_req("PUT", segs, 1, 0, {"p": "qual", "t": QTYPES[1], "v": 0}, serialise(body, "json")))
                after = srv.send(mk_req("GET", segs, 1))
                case = {"kind": "qualifier-rename", "mode": "file" if fb else "dict", "segs": segs}
                f = None
                if put[0] != "resp" or not 400 <= put[1] < 500:
                    f = C.Failing("http:qual-put:rename-onto-existing:not-4xx", f"PUT {'/'.join(segs)} with a body of the existing type {QTYPES[1]!r} gave {put[:2]}", case, put)
                elif after != before:
                    f = C.Failing("http:qual-put:refused-but-changed", f"PUT {'/'.join(segs)} was refused ({put[1]}) but GET of the addressed qualifier "
                                  f"answers {after[:2]} afterwards (before: {before[:2]})", case, after, before)
                cov.hit("oracle-histories")
                if f is not None and f.sig not in sigs:
                    sigs.add(f.sig)
                    out.append(f)
        finally:
            srv.close()
    # documents over the whole metamodel (round 4)
    cov.extra["oracle_documents"] = ("histories of create / replace / delete of submodels and of nested elements written as plain JSON documents over all 14 element "
                                     "classes (typed values of Property, Range, Qualifier, Extension drawn from families of Python-equal forms; lists of 10 element "
                                     "types x value types x semanticIdListElement with children), bodies in JSON and in XML (hand-written correspondence); replacements: a "
                                     "typed attribute moved within its family (same Python value, other valueType / lexical form / zone), a list replaced by a list "
                                     "of another type (itself or inside the replaced ancestor), a changed member, a fresh document of the class; after every "
                                     "accepted write every element by its path, the element listing, the submodel and the listing of submodels are read in JSON "
                                     "AND in XML and compared with the reference document (also the 201 body)")
    for hi in range(0 if only_directed else ctx.budget(120, 900)):
        ops = gen_doc_ops(rng, rng.randint(5, 10))
        fb = hi % 5 == 4
        f = run_docs(ops, fb, (ctx.seed, hi), "some", stats=cov.histogram)
        cov.hit("oracle-document-histories")
        if f is not None:
            f = run_docs(f.case["ops"], fb, (ctx.seed, hi)) or f
        if f is not None and f.sig not in sigs:
            sigs.add(f.sig)
            f.case["ops"] = C.ddmin(f.case["ops"], lambda o, f=f, fb=fb, hi=hi: (lambda g: g is not None and g.sig == f.sig)(run_docs(o, fb, (ctx.seed, hi))), 60)
            out.append(f)
    for f in list_child_probe(False) + list_child_probe(True):
        if f.sig not in sigs:
            sigs.add(f.sig)
            out.append(f)
    # (round 8) directed: the replacement of an ANCESTOR (the submodel, or a collection in it) holds, under a stored idShort, an
    # element of ANOTHER class - for every ordered pair of element classes, sub- and superclasses of each other included
    # (AnnotatedRelationshipElement / RelationshipElement): what is read afterwards is the replacement, class and all
    drng = random.Random(f"C10-retype:{ctx.seed}")
    pairs = [(c1, c2) for c1 in DOC_CLASSES for c2 in DOC_CLASSES if c1 != c2]
    if ctx.tier == "quick":
        sub = [pr for pr in pairs if {pr[0], pr[1]} == {"RelationshipElement", "AnnotatedRelationshipElement"}]
        pairs = sub + drng.sample([pr for pr in pairs if pr not in sub], 24)
    for k, (c1, c2) in enumerate(pairs):
        for nested in (False, True):
            fb = (k + nested) % 3 == 0
            a, b = doc_elem(drng, "x1", 2, c1), doc_elem(drng, "x1", 2, c2)
            def wrap(e):
                inner = {"modelType": "SubmodelElementCollection", "idShort": "mid", "value": [e]} if nested else e
                return {"modelType": "Submodel", "id": IDS[0], "submodelElements": [inner]}
            ops = [["d-create", wrap(a)], ["d-replace", IDS[0], wrap(b)]]
            if nested and k % 2:
                ops = [["d-create", wrap(a)], ["d-elem-replace", IDS[0], ["mid"], wrap(b)["submodelElements"][0]]]
            try:
                refd: Dict[str, Dict[str, Any]] = {}
                if any(doc_apply(refd, copy.deepcopy(op)) is None for op in ops):
                    continue
            except Exception:
                continue
            f = run_docs(ops, fb, (ctx.seed, "retype", k, nested))
            cov.hit("oracle-document-histories")
            if f is not None and f.sig not in sigs:
                sigs.add(f.sig)
                out.append(f)
    return out


# ------------------------------------------------------------------------------------------- oracle 2: documents over the whole metamodel
# (round 4) The reference repository of this part holds plain JSON documents - submodels whose elements range over all 14 concrete
# element classes, with typed values (Property, Range, Qualifier, Extension) - and demands of every read, at every level (the
# submodel, its element listing, every nested element by its idShort path, the listing of all submodels) and in BOTH response
# formats, the document the history put there.  Request bodies (JSON as the document is, XML through `xml_of_doc`) and the reading of
# XML responses (`doc_of_xml`) are written by hand from the regular correspondence between the two formats, not through the SDK.

# Families of (valueType, lexical form) whose *Python* values compare equal although they are different contents:
# 1 == True == 1.0 == Decimal("1.00"), equal instants written in different zones, dates that differ in the zone only, equal bytes,
# str subclasses.  A replacement that moves a typed attribute within its family must be read back like any other replacement.
# (All forms are ones the types' canonical writing returns verbatim.)
EQ_FAMILIES = [
    [("xs:int", "1"), ("xs:boolean", "true"), ("xs:double", "1.0"), ("xs:float", "1.0"), ("xs:decimal", "1"), ("xs:decimal", "1.0"), ("xs:decimal", "1.00"),
     ("xs:integer", "1"), ("xs:long", "1"), ("xs:unsignedByte", "1"), ("xs:positiveInteger", "1")],
    [("xs:int", "0"), ("xs:boolean", "false"), ("xs:double", "0.0"), ("xs:double", "-0.0"), ("xs:decimal", "0"), ("xs:decimal", "0.0"), ("xs:decimal", "0.00"),
     ("xs:nonNegativeInteger", "0"), ("xs:nonPositiveInteger", "0"), ("xs:short", "0"), ("xs:float", "0.0")],
    [("xs:int", "5"), ("xs:double", "5.0"), ("xs:decimal", "5.0"), ("xs:decimal", "5.00"), ("xs:byte", "5"), ("xs:float", "5.0"), ("xs:unsignedLong", "5"),
     ("xs:decimal", "5")],
    [("xs:dateTime", "2020-01-01T12:00:00+00:00"), ("xs:dateTime", "2020-01-01T13:00:00+01:00"), ("xs:dateTime", "2020-01-01T06:30:00-05:30")],
    [("xs:time", "12:00:00+00:00"), ("xs:time", "13:00:00+01:00"), ("xs:time", "06:30:00-05:30")],
    [("xs:date", "2020-01-01"), ("xs:date", "2020-01-01Z"), ("xs:date", "2020-01-01+01:00"), ("xs:date", "2020-01-01-05:00")],
    [("xs:hexBinary", "01ff"), ("xs:base64Binary", "Af8=")],
    [("xs:string", "abc"), ("xs:anyURI", "abc")],
    [("xs:string", "1"), ("xs:anyURI", "1"), ("xs:string", "1.0"), ("xs:string", "true")],
    [("xs:gYear", "2020"), ("xs:gYear", "2020+01:00"), ("xs:gYearMonth", "2020-01"), ("xs:gMonthDay", "--01-01"), ("xs:gDay", "---01"), ("xs:gMonth", "--01"),
     ("xs:duration", "P1D"), ("xs:dateTime", "2020-01-01T12:00:00")],
]
_FAMILY_OF = {tv: k for k, fam in enumerate(EQ_FAMILIES) for tv in fam}
DOC_CLASSES = ["Property", "MultiLanguageProperty", "Range", "Blob", "File", "ReferenceElement", "RelationshipElement", "AnnotatedRelationshipElement",
               "Entity", "BasicEventElement", "Operation", "Capability", "SubmodelElementCollection", "SubmodelElementList"]
DATA_CLASSES = ["Property", "MultiLanguageProperty", "Range", "Blob", "File", "ReferenceElement"]
# the member that holds the children addressed by idShort path below an element of the class
CHILD_MEMBER = {"Submodel": "submodelElements", "SubmodelElementCollection": "value", "Entity": "statements", "AnnotatedRelationshipElement": "annotations"}
LIST_TYPES = ["Property", "Property", "Range", "MultiLanguageProperty", "SubmodelElementCollection", "ReferenceElement", "File", "Blob", "Capability", "Entity"]


def typed(rng: random.Random, fam: Optional[int] = None) -> Tuple[str, str]:
    return rng.choice(EQ_FAMILIES[rng.randrange(len(EQ_FAMILIES)) if fam is None else fam])


def typed_range(rng: random.Random, fam: Optional[int] = None, other_than: Optional[str] = None) -> Tuple[str, str, str]:
    """(valueType, min, max): two forms of one family that have the same valueType"""
    while True:
        f = EQ_FAMILIES[rng.randrange(len(EQ_FAMILIES)) if fam is None else fam]
        vt, lo = rng.choice(f)
        if vt == other_than and len({t for t, _ in f}) > 1:
            continue
        return vt, lo, rng.choice([x for t, x in f if t == vt])


def doc_ref(rng: random.Random, model_ref: Optional[bool] = None, depth: int = 1) -> Dict[str, Any]:
    if model_ref is None:
        model_ref = rng.random() < 0.5
    if model_ref:
        keys = [{"type": "Submodel", "value": rng.choice(IDS)}]
        if rng.random() < 0.4:
            keys += [{"type": "SubmodelElementCollection", "value": rng.choice(IDSHORTS)}, {"type": "Property", "value": rng.choice(IDSHORTS)}][: rng.randint(1, 2)]
        r: Dict[str, Any] = {"type": "ModelReference", "keys": keys}
    else:
        r = {"type": "ExternalReference", "keys": [{"type": "GlobalReference", "value": rng.choice(["urn:x", "https://sem/2"])}]}
    if depth > 0 and rng.random() < 0.25:
        r["referredSemanticId"] = doc_ref(rng, False, depth - 1)
    return r


def doc_common(rng: random.Random, d: Dict[str, Any], sem: bool = True) -> Dict[str, Any]:
    if sem and rng.random() < 0.3:
        d["semanticId"] = doc_ref(rng)
    if "semanticId" in d and rng.random() < 0.35:      # AASd-118: only beside a semanticId
        d["supplementalSemanticIds"] = [doc_ref(rng) for _ in range(rng.randint(1, 2))]
    if rng.random() < 0.35:
        qs = []
        for t in QTYPES:
            if rng.random() < 0.6:
                vt, v = typed(rng)
                qs.append({"type": t, "valueType": vt, "value": v, "kind": rng.choice(["ConceptQualifier", "ValueQualifier", "TemplateQualifier"]),
                           **({"valueId": doc_ref(rng, False, 0)} if rng.random() < 0.2 else {})})
        if qs:
            d["qualifiers"] = qs
    if rng.random() < 0.4:
        d["description"] = [{"language": "en", "text": f"t{rng.randrange(4)}"}] + ([{"language": "de", "text": "ä"}] if rng.random() < 0.3 else [])
    if rng.random() < 0.15:
        d["displayName"] = [{"language": "de", "text": "n"}]
    if rng.random() < 0.15:
        d["category"] = rng.choice(["PARAMETER", "x"])
    if rng.random() < 0.3:
        es = []
        for n in ("e1", "e2"):
            if rng.random() < 0.6:
                vt, v = typed(rng)
                es.append({"name": n, "valueType": vt, "value": v, **({"refersTo": [doc_ref(rng, True, 0)]} if rng.random() < 0.3 else {})})
        if es:
            d["extensions"] = es
    return d


def doc_list(rng: random.Random, ids: Optional[str], other_than: Optional[Dict[str, Any]] = None) -> Dict[str, Any]:
    """a SubmodelElementList: element class x value type x semanticIdListElement, with children that fit; `other_than`: a list whose
    type attributes the new one must not share (the replacement of a list by a list of another type)"""
    while True:
        t = rng.choice(LIST_TYPES)
        d: Dict[str, Any] = {"modelType": "SubmodelElementList", "orderRelevant": rng.random() < 0.7, "typeValueListElement": t}
        vt = None
        if t in ("Property", "Range"):
            vt = typed(rng)[0]
            d["valueTypeListElement"] = vt
        sem = doc_ref(rng, False, 0) if rng.random() < 0.4 else None
        if sem is not None:
            d["semanticIdListElement"] = sem
        if other_than is None or any(d.get(k) != other_than.get(k) for k in ("typeValueListElement", "valueTypeListElement", "semanticIdListElement")):
            break
    if ids is not None:
        d["idShort"] = ids
    kids = []
    for _ in range(rng.choice([0, 1, 1, 2, 3])):
        c = doc_elem(rng, None, 0, t, value_type=vt, plain=True)
        if sem is not None and rng.random() < 0.7:
            c["semanticId"] = copy.deepcopy(sem)
        kids.append(c)
    if kids:
        d["value"] = kids
    return doc_common(rng, d)


def doc_elem(rng: random.Random, ids: Optional[str], depth: int = 2, cls: Optional[str] = None, value_type: Optional[str] = None,
             plain: bool = False) -> Dict[str, Any]:
    """a submodel element document; `value_type`: the valueType a Property / Range must have (children of a list); `plain`: no
    semanticId (children of a list with a semanticIdListElement)"""
    cls = cls or rng.choice(DOC_CLASSES + ["Property", "Range", "SubmodelElementList", "SubmodelElementList", "AnnotatedRelationshipElement", "SubmodelElementCollection"])
    if cls == "SubmodelElementList":
        return doc_list(rng, ids)
    d: Dict[str, Any] = {"modelType": cls}
    if ids is not None:
        d["idShort"] = ids
    kids = lambda: [doc_elem(rng, n, depth - 1) for n in rng.sample(IDSHORTS, rng.randint(0, 2))] if depth > 0 else []
    data = lambda n: doc_elem(rng, n, 0, rng.choice(DATA_CLASSES))
    def of_type(vt):
        forms = [tv for fam in EQ_FAMILIES for tv in fam if tv[0] == vt]
        return rng.choice(forms)
    if cls == "Property":
        vt, v = of_type(value_type) if value_type else typed(rng)
        d.update(valueType=vt)
        if rng.random() < 0.9:
            d["value"] = v
        if rng.random() < 0.15:
            d["valueId"] = doc_ref(rng, False, 0)
    elif cls == "MultiLanguageProperty":
        if rng.random() < 0.8:
            d["value"] = [{"language": "en", "text": rng.choice(["x", "y"])}] + ([{"language": "fr", "text": "é"}] if rng.random() < 0.3 else [])
    elif cls == "Range":
        if value_type:
            vt, lo = of_type(value_type)
            hi = of_type(value_type)[1]
        else:
            vt, lo, hi = typed_range(rng)
        d.update(valueType=vt)
        if rng.random() < 0.9:
            d["min"] = lo
        if rng.random() < 0.9:
            d["max"] = hi
    elif cls == "Blob":
        d.update(contentType=rng.choice(ATT_CTYPES))
        if rng.random() < 0.7:
            d["value"] = base64.b64encode(rng.choice(FILE_BYTES)).decode("ascii")
    elif cls == "File":
        d.update(contentType=rng.choice(ATT_CTYPES))
        if rng.random() < 0.4:
            d["value"] = rng.choice(["http://x/y.txt", "file.txt", "/f/never-uploaded.bin"])
    elif cls == "ReferenceElement":
        if rng.random() < 0.8:
            d["value"] = doc_ref(rng)
    elif cls in ("RelationshipElement", "AnnotatedRelationshipElement"):
        d.update(first=doc_ref(rng), second=doc_ref(rng))
        if cls == "AnnotatedRelationshipElement" and rng.random() < 0.75:
            d["annotations"] = [data(n) for n in rng.sample(IDSHORTS, rng.randint(1, 2))]
    elif cls == "Entity":
        if rng.random() < 0.5:
            d.update(entityType="SelfManagedEntity", globalAssetId="urn:asset")
        else:
            d.update(entityType="CoManagedEntity")
        if rng.random() < 0.6:
            d["statements"] = kids()
    elif cls == "BasicEventElement":
        d.update(observed=doc_ref(rng, True, 0), direction=rng.choice(["input", "output"]), state=rng.choice(["on", "off"]))
        if rng.random() < 0.3:
            d["messageTopic"] = "topic"
        # the optional time-valued members, in the literal form the SDK writes; a duration of length zero is a value like any other
        # (relativedelta() is falsy); maxInterval only for the output direction
        if rng.random() < 0.5:
            d["minInterval"] = rng.choice(["P0D", "P0D", "PT5S", "P1D"])
        if d["direction"] == "output" and rng.random() < 0.5:
            d["maxInterval"] = rng.choice(["P0D", "P0D", "PT0.5S", "P1Y2M"])
        if rng.random() < 0.3:
            d["lastUpdate"] = rng.choice(["2022-01-01T12:00:00+00:00", "0001-01-01T00:00:00+00:00"])
        if rng.random() < 0.2:
            d["messageBroker"] = doc_ref(rng, True, 0)
    elif cls == "Operation":
        names = rng.sample(IDSHORTS, rng.randint(0, 3))
        for n in names:
            d.setdefault(rng.choice(["inputVariables", "outputVariables", "inoutputVariables"]), []).append({"value": data(n)})
    elif cls == "SubmodelElementCollection":
        d["value"] = kids()
    d = doc_common(rng, d, sem=not plain)
    return {k: v for k, v in d.items() if v != []}


def doc_sm(rng: random.Random, i: str) -> Dict[str, Any]:
    d: Dict[str, Any] = {"modelType": "Submodel", "id": i, "submodelElements": [doc_elem(rng, n) for n in rng.sample(IDSHORTS, rng.randint(1, 3))]}
    if rng.random() < 0.5:
        d["idShort"] = rng.choice(["x1", "sh"])
    if rng.random() < 0.3:
        d["kind"] = rng.choice(["Instance", "Template"])
    if rng.random() < 0.2:
        d["administration"] = {"version": "1", "revision": "0"}
    return doc_common(rng, d)


def typed_sites(doc: Any) -> List[Dict[str, Any]]:
    """the dicts of a document that hold a typed value: Property, Range, Qualifier, Extension (valueType + value | min/max)"""
    out = []
    if isinstance(doc, dict):
        if "valueType" in doc and any(k in doc for k in ("value", "min", "max")):
            out.append(doc)
        for v in doc.values():
            out += typed_sites(v)
    elif isinstance(doc, list):
        for v in doc:
            out += typed_sites(v)
    return out


def twist(rng: random.Random, doc: Dict[str, Any], in_list_ok: bool = False) -> Optional[Dict[str, Any]]:
    """the document with ONE typed attribute moved within its family: another valueType / lexical form / zone whose Python value
    compares equal to the stored one (None if the document has no such attribute)"""
    doc = copy.deepcopy(doc)
    def frozen(d, inside=False):     # typed values of a list's children are bound to the list's valueTypeListElement
        out = []
        if isinstance(d, dict):
            if inside and "valueType" in d:
                out.append(id(d))
            for k, v in d.items():
                out += frozen(v, inside or (d.get("modelType") == "SubmodelElementList" and k == "value"))
        elif isinstance(d, list):
            for v in d:
                out += frozen(v, inside)
        return out
    fr = set(frozen(doc))
    sites = [s for s in typed_sites(doc) if id(s) not in fr]
    rng.shuffle(sites)
    for s in sites:
        vt = s["valueType"]
        if s.get("modelType") == "Range":
            fams = {_FAMILY_OF.get((vt, s[k])) for k in ("min", "max") if k in s}
            if len(fams) != 1 or None in fams:
                continue
            fam = fams.pop()
            cur = (vt, s.get("min"), s.get("max"))
            for _ in range(20):
                nvt, lo, hi = typed_range(rng, fam)
                new = (nvt, lo if "min" in s else None, hi if "max" in s else None)
                if new != cur:
                    s["valueType"] = nvt
                    if "min" in s:
                        s["min"] = lo
                    if "max" in s:
                        s["max"] = hi
                    return doc
            continue
        if "value" not in s or (vt, s["value"]) not in _FAMILY_OF:
            continue
        others = [tv for tv in EQ_FAMILIES[_FAMILY_OF[(vt, s["value"])]] if tv != (vt, s["value"])]
        if others:
            s["valueType"], s["value"] = rng.choice(others)
            return doc
    return None


def vary(rng: random.Random, doc: Dict[str, Any]) -> Dict[str, Any]:
    """a replacement for a stored document (same class, same id / idShort): the document with a typed attribute moved within its
    family, with a list replaced by a list of another type (at any depth), with a member changed, or a fresh document"""
    r = rng.random()
    ids, cls = doc.get("idShort"), doc["modelType"]
    if r < 0.45:
        t = twist(rng, doc)
        if t is not None:
            return t
    if r < 0.75:
        new = copy.deepcopy(doc)
        lists = []
        def find(d):
            if isinstance(d, dict):
                if d.get("modelType") == "SubmodelElementList":
                    lists.append(d)
                else:
                    for v in d.values():
                        find(v)
            elif isinstance(d, list):
                for v in d:
                    find(v)
        find(new)
        if lists:
            l = rng.choice(lists)
            fresh = doc_list(rng, l.get("idShort"), other_than=l)
            l.clear()
            l.update(fresh)
            return new
    if r < 0.85:
        new = copy.deepcopy(doc)
        new["description"] = [{"language": "en", "text": f"t{rng.randrange(4, 9)}"}]
        return new
    if cls == "Submodel":
        new = doc_sm(rng, doc["id"])
        # mostly the stored classes under the stored idShorts (updated in place)
        old = {c.get("idShort"): c for c in doc.get("submodelElements", [])}
        new["submodelElements"] = [doc_elem(rng, c["idShort"], 2, old[c["idShort"]]["modelType"]) if c.get("idShort") in old and rng.random() < 0.7 else c
                                   for c in new["submodelElements"]]
        return new
    return doc_elem(rng, ids, 2, cls)


# -- the regular correspondence between the JSON and the XML form of a document

_PLAIN_ITEMS = {"keys": "key", "description": "langStringTextType", "displayName": "langStringNameType", "qualifiers": "qualifier", "extensions": "extension",
                "supplementalSemanticIds": "reference", "refersTo": "reference", "isCaseOf": "reference", "submodels": "reference",
                "specificAssetIds": "specificAssetId", "inputVariables": "operationVariable", "outputVariables": "operationVariable",
                "inoutputVariables": "operationVariable"}
_POLY_LISTS = {"submodelElements", "statements", "annotations"}
_AAS_NS = "https://admin-shell.io/aas/3/0"


def xml_of_doc(doc: Dict[str, Any]) -> bytes:
    """the XML form of a document that has a modelType: members become child elements of the same name, the modelType becomes the tag,
    list items without a modelType are wrapped in the element their list prescribes"""
    from lxml import etree
    NS = "{" + _AAS_NS + "}"
    def obj(d, root=False):
        tag = d["modelType"][0].lower() + d["modelType"][1:]
        e = etree.Element(NS + tag, nsmap={"aas": _AAS_NS}) if root else etree.Element(NS + tag)
        fields(e, d)
        return e
    def fields(parent, d):
        for k, v in d.items():
            if k != "modelType":
                fill(etree.SubElement(parent, NS + k), k, v)
    def fill(c, k, v):
        if isinstance(v, bool):
            c.text = "true" if v else "false"
        elif isinstance(v, str):
            c.text = v
        elif isinstance(v, dict):
            if "modelType" in v:
                c.append(obj(v))
            else:
                fields(c, v)
        elif isinstance(v, list):
            for x in v:
                if isinstance(x, dict) and "modelType" in x:
                    c.append(obj(x))
                else:
                    fields(etree.SubElement(c, NS + (_PLAIN_ITEMS.get(k) or "langStringTextType")), x)
    return etree.tostring(obj(doc, True))


def doc_of_xml(e, model_type: Optional[str] = None) -> Dict[str, Any]:
    """an XML element whose children are the members of an object -> the document (the inverse of `xml_of_doc`)"""
    d: Dict[str, Any] = {}
    if model_type:
        d["modelType"] = model_type[0].upper() + model_type[1:]
    for c in e:
        k = _ln(c)
        kids = list(c)
        tags = {_ln(x) for x in kids}
        if k in _POLY_LISTS:
            d[k] = [doc_of_xml(x, _ln(x)) for x in kids]
        elif k in _PLAIN_ITEMS:
            d[k] = [doc_of_xml(x) for x in kids]
        elif k == "value" and kids:
            if _ln(e) == "operationVariable":
                d[k] = doc_of_xml(kids[0], _ln(kids[0]))
            elif tags <= {"langStringTextType"}:
                d[k] = [doc_of_xml(x) for x in kids]
            elif tags <= {"type", "keys", "referredSemanticId"}:
                d[k] = doc_of_xml(c)
            else:
                d[k] = [doc_of_xml(x, _ln(x)) for x in kids]
        elif kids:
            d[k] = doc_of_xml(c)
        else:
            d[k] = c.text or ""
    return d


def canon_doc(d: Any, top: bool = True) -> Any:
    """normal form of a document for comparison: booleans as in XML, absent = empty = default (kind, orderRelevant), members whose
    order carries no meaning (children addressed by idShort, qualifiers by type, extensions by name, language strings) sorted"""
    if isinstance(d, bool):
        return "true" if d else "false"
    if isinstance(d, list):
        items = [canon_doc(x, False) for x in d]
        for key in ("idShort", "language", "name"):
            if items and all(isinstance(x, dict) and key in x for x in items):
                items.sort(key=lambda x: json.dumps(x, sort_keys=True))
                return items
        if items and all(isinstance(x, dict) and "type" in x and "valueType" in x for x in items):
            items.sort(key=lambda x: json.dumps(x, sort_keys=True))
        return items
    if isinstance(d, dict):
        out = {}
        for k, v in d.items():
            v = canon_doc(v, False)
            if v is None or v == [] or v == {}:
                continue
            out[k] = v
        if out.get("kind") in ("Instance", "ConceptQualifier"):
            del out["kind"]
        if out.get("orderRelevant") == "true":
            del out["orderRelevant"]
        return out
    return d


def same_doc(got: Any, want: Any, typed_root: bool = True) -> bool:
    """`typed_root` False: the payload does not say its class (a single object in an XML response)"""
    g, w = canon_doc(got), canon_doc(want)
    if not typed_root and isinstance(w, dict) and isinstance(g, dict):
        w = {k: v for k, v in w.items() if k != "modelType"}
        g = {k: v for k, v in g.items() if k != "modelType"}
    return json.dumps(g, sort_keys=True) == json.dumps(w, sort_keys=True)


def doc_children(doc: Dict[str, Any]) -> List[Dict[str, Any]]:
    """the elements addressed by idShort directly below a document"""
    m = CHILD_MEMBER.get(doc.get("modelType"))
    kids = list(doc.get(m, [])) if m else []
    if doc.get("modelType") == "Operation":
        for k in ("inputVariables", "outputVariables", "inoutputVariables"):
            kids += [v["value"] for v in doc.get(k, [])]
    return kids


def doc_paths(doc: Dict[str, Any], prefix=()) -> List[Tuple[List[str], Dict[str, Any]]]:
    out = []
    for c in doc_children(doc):
        out.append((list(prefix) + [c["idShort"]], c))
        out += doc_paths(c, tuple(prefix) + (c["idShort"],))
    return out


def doc_find(doc: Dict[str, Any], path: List[str]) -> Optional[Dict[str, Any]]:
    cur = doc
    for seg in path:
        cur = next((c for c in doc_children(cur) if c.get("idShort") == seg), None)
        if cur is None:
            return None
    return cur


def moves_between_sets(old: Dict[str, Any], new: Dict[str, Any]) -> bool:
    """does the replacement move an idShort from one of the variable sets of a stored Operation into another one (at any depth)?  That is
    the recorded finding http:crash:PUT:update_from:idshort-moves-between-sets of C11 (AASd-022 out of update_from): not sent here."""
    if old.get("modelType") != new.get("modelType"):
        return False        # another class: replaced as a whole
    if old.get("modelType") == "Operation":
        where = lambda d: {v["value"].get("idShort"): k for k in ("inputVariables", "outputVariables", "inoutputVariables") for v in d.get(k, [])}
        wo, wn = where(old), where(new)
        if any(n in wo and wo[n] != k for n, k in wn.items()):
            return True
    oc = {c.get("idShort"): c for c in doc_children(old)}
    return any(c.get("idShort") in oc and moves_between_sets(oc[c.get("idShort")], c) for c in doc_children(new))


def doc_apply(ref: Dict[str, Dict[str, Any]], op: List[Any]) -> Optional[int]:
    """The reference repository: a map from identifier to document.  Applies the operation and returns the status a map answers
    with (201 / 204 / 409), or None if the operation does not apply to this state (its target does not exist, the replacement is of
    another class: the plain repository's ground) - such an operation is not sent."""
    k = op[0]
    if k == "d-create":
        d = op[1]
        if d["id"] in ref:
            return 409
        ref[d["id"]] = copy.deepcopy(d)
        return 201
    i = op[1]
    sm = ref.get(i)
    if sm is None:
        return None
    if k == "d-replace":
        if op[2]["id"] != i or moves_between_sets(sm, op[2]):
            return None
        ref[i] = copy.deepcopy(op[2])
        return 204
    if k == "d-delete":
        del ref[i]
        return 204
    path = op[2]
    target = doc_find(sm, path)
    if target is None:
        return None
    if k == "d-elem-create":
        e = op[3]
        m = CHILD_MEMBER.get(target["modelType"])
        if m is None or e.get("idShort") is None or (target["modelType"] == "AnnotatedRelationshipElement" and e["modelType"] not in DATA_CLASSES):
            return None
        if any(c.get("idShort") == e["idShort"] for c in doc_children(target)):
            return 409
        target.setdefault(m, []).append(copy.deepcopy(e))
        return 201
    if not path:
        return None
    parent = doc_find(sm, path[:-1])
    m = CHILD_MEMBER.get(parent["modelType"])
    if k == "d-elem-replace":
        e = op[3]
        if e["modelType"] != target["modelType"] or e.get("idShort") != path[-1] or moves_between_sets(target, e):
            return None
        target.clear()
        target.update(copy.deepcopy(e))
        return 204
    if k == "d-elem-delete":
        if m is None or not any(c is target for c in parent.get(m, [])):
            return None
        parent[m] = [c for c in parent[m] if c is not target]
        return 204
    raise ValueError(op)


def gen_doc_ops(rng: random.Random, n: int) -> List[List[Any]]:
    """operations on documents that apply to the state they meet (the generator runs the reference repository alongside)"""
    ref: Dict[str, Dict[str, Any]] = {}
    ops: List[List[Any]] = []
    def push(op):
        if doc_apply(ref, copy.deepcopy(op)) is not None:
            ops.append(op)
    tries = 0
    while len(ops) < n and tries < 20 * n:
        tries += 1
        r = rng.random()
        if not ref or r < 0.1:
            free = [x for x in IDS if x not in ref]
            push(["d-create", doc_sm(rng, rng.choice(free) if free and rng.random() < 0.9 else rng.choice(IDS))])
            continue
        i = rng.choice(sorted(ref))
        sm = ref[i]
        paths = doc_paths(sm)
        if r < 0.3:
            push(["d-replace", i, vary(rng, sm)])
        elif r < 0.33:
            push(["d-delete", i])
        elif r < 0.5:
            parents = [([], sm)] + [(p, e) for p, e in paths if e["modelType"] in CHILD_MEMBER]
            p, par = rng.choice(parents)
            ids = rng.choice(IDSHORTS)
            e = doc_elem(rng, ids, 1, rng.choice(DATA_CLASSES) if par["modelType"] == "AnnotatedRelationshipElement" else None)
            push(["d-elem-create", i, p, e])
        elif r < 0.92 and paths:
            # a replacement: preferably of elements that hold typed values / lists (below them or themselves)
            rich = [(p, e) for p, e in paths if typed_sites(e) or "SubmodelElementList" in json.dumps(e)]
            p, e = rng.choice(rich if rich and rng.random() < 0.7 else paths)
            push(["d-elem-replace", i, p, vary(rng, e)])
        elif paths:
            push(["d-elem-delete", i, rng.choice(paths)[0]])
    return ops


class DocRun:
    """Drives one server and the reference repository of documents; after every accepted write everything the written submodel
    offers is read back in JSON and in XML and compared with the document the reference repository holds."""

    def __init__(self, file_backed: bool, rng: random.Random):
        self.srv = Server(file_backed)
        self.ref: Dict[str, Dict[str, Any]] = {}
        self.rng = rng
        self.fb = file_backed
        self.trace: List[Dict[str, Any]] = []
        self.stats: Dict[str, int] = {}

    def close(self):
        self.srv.close()

    def send(self, R):
        self.trace.append(R)
        return self.srv.send(R, raw=True)

    def fail(self, sig, what, observed=None, required=None) -> C.Failing:
        return C.Failing(sig, what, {"mode": "file" if self.fb else "dict", "reqs": list(self.trace)}, observed, required)

    def seg(self, i):
        return b64(i, self.rng.random() < 0.7)

    def body(self, doc):
        if self.rng.random() < 0.5:
            return self.rng.choice([0, 0, 4]), json.dumps(doc).encode("utf-8")
        return self.rng.choice([1, 2, 3]), xml_of_doc(doc)

    @staticmethod
    def payload(out) -> Tuple[str, Any]:
        """("item" | "page" | "result" | "unparsable", documents)"""
        from lxml import etree
        ct, data = (out[3] or "").split(";")[0].strip(), out[4]
        try:
            if ct == "application/json":
                j = json.loads(data)
                if isinstance(j, dict) and "paging_metadata" in j:
                    return "page", j["result"]
                if isinstance(j, dict) and set(j) == {"success", "messages"}:
                    return "result", j
                return "item", j
            if ct in ("application/xml", "text/xml"):
                root = etree.fromstring(data)
                names = [_ln(c) for c in root]
                if root.get("cursor") is not None:
                    return "page", [doc_of_xml(c, _ln(c)) for c in root]
                if "success" in names and "messages" in names:
                    return "result", None
                return "item", doc_of_xml(root)
        except Exception as e:
            return "unparsable", f"{type(e).__name__}: {data[:200]!r}"
        return "other", ct

    def read(self, level: str, segs: List[str], want: Any, paged: bool, where: str) -> Optional[C.Failing]:
        """the resource in JSON and in XML: both must be the document(s) of the reference repository"""
        for fmt, acc in (("json", self.rng.choice([0, 1, 4])), ("xml", self.rng.choice([2, 3]))):
            out = self.send(mk_req("GET", segs, acc, limit="100" if paged else None))
            if out[0] != "raw":
                return self.fail(f"http:doc:{level}:{fmt}:crash", f"GET {where} ({fmt}) raised {out[1]}", out)
            if out[1] != 200:
                return self.fail(f"http:doc:{level}:{fmt}:status", f"GET {where} ({fmt}) of a stored resource answered {out[1]}", out[1], 200)
            kind, got = self.payload(out)
            if paged:
                ok = kind == "page" and len(got) == len(want) and sorted(json.dumps(canon_doc(x), sort_keys=True) for x in got) == \
                    sorted(json.dumps(canon_doc(x), sort_keys=True) for x in want)
            else:
                ok = kind == "item" and same_doc(got, want, typed_root=fmt == "json")
            if not ok:
                return self.fail(f"http:doc:{level}:{fmt}:payload", f"GET {where} as {fmt.upper()} is not the document the history put there", canon_doc(got), canon_doc(want))
        return None

    def verify(self, i: Optional[str]) -> Optional[C.Failing]:
        sm = self.ref.get(i) if i is not None else None
        if sm is not None:
            for path, e in doc_paths(sm):
                f = self.read("elem", ["submodels", self.seg(i), "submodel-elements", ".".join(path)], e, False, f"element {'.'.join(path)} ({e['modelType']}) of {i!r}")
                if f:
                    return f
            f = self.read("elem-listing", ["submodels", self.seg(i), "submodel-elements"], sm.get("submodelElements", []), True, f"the element listing of {i!r}") \
                or self.read("sm", ["submodels", self.seg(i)], sm, False, f"submodel {i!r}")
            if f:
                return f
        return self.read("sm-listing", ["submodels"], list(self.ref.values()), True, "/submodels")

    def op(self, op: List[Any], verify: bool = True) -> Optional[C.Failing]:
        k = op[0]
        want = doc_apply(self.ref, copy.deepcopy(op))
        if want is None:
            return None
        acc = self.rng.choice([0, 1, 2, 3, 4])
        if k == "d-create":
            ct, by = self.body(op[1])
            R = mk_req("POST", ["submodels"], acc, ct, "raw", by)
            i = op[1]["id"]
        else:
            i = op[1]
            base = ["submodels", self.seg(i)]
            if k == "d-replace":
                ct, by = self.body(op[2])
                R = mk_req("PUT", base, acc, ct, "raw", by)
            elif k == "d-delete":
                R = mk_req("DELETE", base, acc)
            else:
                segs = base + ["submodel-elements"] + ([".".join(op[2])] if op[2] else [])
                if k == "d-elem-delete":
                    R = mk_req("DELETE", segs, acc)
                else:
                    ct, by = self.body(op[3])
                    R = mk_req("POST" if k == "d-elem-create" else "PUT", segs, acc, ct, "raw", by)
        out = self.send(R)
        key = f"oracle:{k}:{out[1] if out[0] == 'raw' else 'crash'}"
        self.stats[key] = self.stats.get(key, 0) + 1
        if out[0] != "raw":
            return self.fail(f"http:{k}:crash", f"{k} raised {out[1]}", out)
        if out[1] != want:
            return self.fail(f"http:{k}:not-{want}", f"{k} answered {out[1]}", [out[1], out[4][:300].decode("utf-8", "replace")], want)
        if want == 201:
            loc = ["sm", i] if k == "d-create" else ["elem", i, op[2] + [op[3]["idShort"]]]
            if out[2] != loc:
                return self.fail(f"http:{k}:location", f"Location {out[2]} does not name the created resource", out[2], loc)
            # the created resource is the 201 body
            kind, got = self.payload(out)
            created = op[1] if k == "d-create" else op[3]
            if kind != "item" or not same_doc(got, created, typed_root=(out[3] or "").startswith("application/json")):
                return self.fail(f"http:{k}:body", f"the body of the 201 answer to {k} is not the created document", canon_doc(got), canon_doc(created))
        return self.verify(i) if verify and want != 409 else None


def run_docs(ops: List[List[Any]], file_backed: bool, seed: Any, verify: Any = True, stats: Optional[Dict[str, int]] = None) -> Optional[C.Failing]:
    run = DocRun(file_backed, random.Random(f"doc:{seed}"))
    try:
        for k, op in enumerate(ops):
            f = run.op(copy.deepcopy(op), verify is True or k == len(ops) - 1 or op[0] in ("d-replace", "d-elem-replace")
                       or random.Random(f"dv:{seed}:{k}").random() < 0.4)
            if f is not None:
                f.case = {"kind": "doc", "mode": "file" if file_backed else "dict", "ops": ops[: k + 1], "seed": str(seed)}
                return f
        return None
    finally:
        if stats is not None:
            for k, v in run.stats.items():
                stats[k] = stats.get(k, 0) + v
        run.close()


# ------------------------------------------------------------------------------------------- children of a SubmodelElementList

def list_child_probe(file_backed: bool = False) -> List[C.Failing]:
    """(round 8, named by a seeding agent) "all idShort paths incl. list indices": an element inside a SubmodelElementList is a
    resource like any other - it is read under `<list path>.<index>`, and a POST into the list answers with a location under
    which the created child is read."""
    out: List[C.Failing] = []
    srv = Server(file_backed)
    mode = "file" if file_backed else "dict"
    try:
        sm_doc = {"modelType": "Submodel", "id": "urn:lst", "submodelElements": [
            {"modelType": "SubmodelElementList", "idShort": "lst", "typeValueListElement": "Property", "valueTypeListElement": "xs:int",
             "value": [{"modelType": "Property", "valueType": "xs:int", "value": "10"}, {"modelType": "Property", "valueType": "xs:int", "value": "11"}]}]}
        r = srv.send(mk_req("POST", ["submodels"], 1, 0, "raw", json.dumps(sm_doc).encode()), raw=True)
        if r[0] != "raw" or r[1] != 201:
            return out                                              # nothing to judge
        base = ["submodels", b64("urn:lst"), "submodel-elements"]
        for idx, want in (("0", "10"), ("1", "11")):
            g = srv.send(mk_req("GET", base + ["lst." + idx], 1), raw=True)
            doc = None
            if g[0] == "raw" and g[1] == 200:
                try:
                    doc = json.loads(g[4])
                except Exception:
                    doc = None
            if not (isinstance(doc, dict) and doc.get("value") == want):
                out.append(C.Failing("http:list-child:GET:not-reachable", f"GET .../submodel-elements/lst.{idx} (child {idx} of a SubmodelElementList, value {want}) "
                                     f"answered {g[1] if g[0] == 'raw' else g}: an element inside a list cannot be addressed",
                                     {"kind": "list-child", "mode": mode, "which": "GET"}, g[1] if g[0] == "raw" else g, 200))
                break
        child = {"modelType": "Property", "valueType": "xs:int", "value": "12"}
        try:
            p_ = srv.client.open(url_of(mk_req("POST", base + ["lst"], 1, 0, "raw", b"")), method="POST", headers={"Accept": "application/json"},
                                 data=json.dumps(child).encode(), content_type="application/json")
        except Exception:
            p_ = None
        if p_ is not None and p_.status_code == 201:
            loc = p_.headers.get("Location")
            try:
                g = srv.client.get(urllib.parse.urlsplit(loc).path, headers={"Accept": "application/json"}) if loc else None
            except Exception:
                g = None
            ok = False
            if g is not None and g.status_code == 200:
                try:
                    ok = json.loads(g.get_data()).get("value") == "12"
                except Exception:
                    ok = False
            if not ok:
                out.append(C.Failing("http:list-child:POST:location-not-retrievable", "POST of a Property into a SubmodelElementList answered 201 with Location "
                                     f"{loc!r}; a GET of that location answers {g.status_code if g is not None else 'nothing'} - the created resource is not "
                                     "retrievable at the returned location", {"kind": "list-child", "mode": mode, "which": "POST"}))
    finally:
        srv.close()
    return out


def search(ctx: C.Ctx, disagreements, broken) -> List[C.Failing]:
    out: List[C.Failing] = []
    from props import c11
    for d in disagreements:
        if isinstance(d.case, dict) and "reqs" in d.case:
            f = c11.check_history(d.case["reqs"], d.case.get("mode", "dict"))
            if f:
                out.append(f)
    if out:
        return out
    # the sister property's oracle first (it judges every request of the same histories for purity of rejected requests - a
    # reference repository does not change when it rejects), then the own one with the budget of the thorough tier; recorded
    # findings of either property are not what broke
    own_known = {k["sig"] for k in C.load_known("C10") if k.get("status", "open") == "open"}
    sis_known = {k["sig"] for k in C.load_known("C11") if k.get("status", "open") == "open"}
    out = [f for f in c11.oracle(ctx, C.Coverage()) if f.sig not in sis_known]
    if out:
        return out
    big = C.Ctx(ctx.prop, "thorough", ctx.seed + 1, random.Random(), ctx.t0, ctx.jobs)
    out = [f for f in oracle(big, C.Coverage()) if f.sig not in own_known]
    if not out:
        out = [f for f in c11.oracle(big, C.Coverage()) if f.sig not in sis_known]
    return out


def replay(case) -> Optional[C.Failing]:
    if case.get("kind") == "qualifier-rename":
        fs = [f for f in oracle(C.Ctx("C10", "quick", 0, random.Random(0), 0.0, 1), C.Coverage(), only_directed=True)
              if f.case.get("kind") == "qualifier-rename" and f.case.get("mode") == case.get("mode") and f.case.get("segs") == case.get("segs")]
        return fs[0] if fs else None
    if case.get("kind") == "list-child":
        return next((f for f in list_child_probe(case.get("mode") == "file") if f.case.get("which") == case.get("which")), None)
    if case.get("kind") == "semantic":
        return run_semantic(case["ops"], case.get("mode") == "file", case.get("seed", 0), case.get("sweep", True))
    if case.get("kind") == "doc":
        return run_docs(case["ops"], case.get("mode") == "file", case.get("seed", 0))
    from props import c11
    return c11.check_history(case["reqs"], case.get("mode", "dict"))


def translate(ctx) -> List[str]:
    return c10_translate.translate(ctx)
