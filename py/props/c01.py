"""C01 — namespace containment: correspondence with Model/Ns.lean, oracle on the implementation.

One *history* is a list of op lines (JSON arrays).  Element and namespace handles are the order of creation:
  ["mk", kind, key|null, sem|null, cls, vt]         new element (kind "ref"|"qual"|"ext"); handle = number of elements so far
  ["ns", nskind, key|null, [[items of set 0], …], cfg|null]
                                                    new namespace built by the real constructor with initial items per
                                                    NamespaceSet (registration order); handle = number of namespaces so far;
                                                    SubmodelElement kinds become an element too (when the constructor returns)
  ["add"|"remove"|"discard", n, j, e]               set j of namespace n (index into namespace_element_sets)
  ["removeKey", n, j, key] ["pop", n, j] ["popAt", n, j, i] ["clear", n, j]
  ["insert", n, j, i, e] ["append", n, j, e] ["setItem", n, j, i, e] ["delItem", n, j, i]
  ["setSlice", n, j, [start,stop,step], [e…]] ["delSlice", n, j, [start,stop,step]] ["extend", n, j, [e…]]
  ["setValue", n, [e…]]                             SubmodelElementList.value = …
  ["rename", e, key|null]                           id_short / Qualifier.type / Extension.name setter
  ["setSem", e, sem|null]                           HasSemantics.semantic_id setter
  ["nsAdd", n, e] ["nsRemove", n, kind, key]        add_referable/add_qualifier/add_extension, remove_…_by_…
  ["view", [live namespaces], [probe keys]]         the whole public view
"""
from __future__ import annotations

import json
import os
import random
from typing import Any, Dict, List, Optional, Tuple

from vf import common as C

ID = "C01"
LEAN_MODULE = "Basyx.Props.C01"
LEVEL = "proof"

MANIFEST = {
    "text": "Lean theorems for ALL operation histories of an executable model of NamespaceSet / OrderedNamespaceSet (add, insert, "
            "append, set[i], set[slice], del, remove, discard, pop, clear, extend, construction with rollback), the id_short / "
            "Qualifier.type / Extension.name / semantic_id setters, the namespace level add/remove/get and SubmodelElementList's "
            "hooks, over nine namespace kinds: the containment invariant (keys unique across all sets of a namespace, parent link "
            "<=> membership, backend key = current identifying attribute, _order = duplicate-free permutation of the backend) holds "
            "initially and after EVERY operation whether it returns or raises, hence in every reachable state; under it iteration, "
            "len, membership, lookup by key, namespace getters and the positional view agree and show exactly the children; a "
            "single-element insertion, replacement, removal or rename that raises leaves sets and elements unchanged. The model is "
            "tied to the code by a differential run that compares the complete public view after every call; an independent oracle "
            "states the property on the live objects.",
    "note": "assumes fixes/C01-setitem-slice.patch (slice assignment materialises its iterable); generated list idShorts (uuid) "
            "modelled as fresh counter values; AASd-107/108/109/114 hook decisions modelled on class/semantic-id/value-type tags; "
            "rename atomicity of Qualifiers/Extensions under the side condition that their set has no list hooks; semantic_id "
            "assignment is covered by the invariant but is not atomic (outside C01's clause); CPython dict/list semantics; "
            "harness/generators trusted",
    "technique": "Lean 4 proof: invariant by induction over operations (state-surgery lemmas + exact specs of the two base "
                 "operations), view agreement and atomicity theorems; differential correspondence with the Python classes after "
                 "every call; delta-debugged oracle failures as replays",
}
ASSUMPTIONS = [
    "uuid-based generated idShorts of SubmodelElementList children are fresh (modelled as a counter)",
    "CPython dict (insertion order, popitem = last) and list (insert/pop/slice) semantics as modelled by Basyx.AList / Basyx.Ns",
    "all NamespaceSets of the SDK's model classes are single-attribute and case-sensitive (true of every class in basyx.aas.model); "
    "multi-attribute / case-insensitive sets of hand-made Namespace subclasses are outside the model",
    "elements are only put into sets of their own kind (Referable / Qualifier / Extension), as the type hints demand",
]

GEN_PREFIX = "generated_submodel_list_hack_"
SME_KINDS = {"smc": 4, "sml": 5, "entity": 6, "arel": 7, "op": 8, "holder": 0}
NS_SETS = {  # attribute kind of each registered set, in registration order
    "submodel": ["ref", "qual", "ext"], "smc": ["qual", "ext", "ref"], "sml": ["qual", "ext", "ref"],
    "entity": ["qual", "ext", "ref"], "arel": ["qual", "ext", "ref"], "op": ["qual", "ext", "ref", "ref", "ref"],
    "holder": ["qual", "ext"], "aas": ["ext"], "cd": ["ext"],
}
ATTR = {"ref": "id_short", "qual": "type", "ext": "name"}
GETTERS = ("get_referable", "get_qualifier_by_type", "get_extension_by_name")
SINGLE_OPS = {"add", "remove", "removeKey", "discard", "pop", "popAt", "insert", "append", "setItem", "delItem", "rename",
              "nsAdd", "nsRemove"}


# ------------------------------------------------------------------------------------------- implementation side

def _exc(e: Exception) -> List[Any]:
    from basyx.aas.model import AASConstraintViolation
    # Referable.__repr__ is called only while an error message is being formatted at a raise point.  On the pinned tree it
    # can raise itself (TypeError when an ancestor has no idShort; ValueError out of `parent.value.index(self)` while a slice
    # assignment has the element in the backend but not yet in `_order`); the call then still raises at the same point (state
    # effects are identical), only the exception type is replaced.  Reported as a wildcard matching any exception of the model.
    tb = e.__traceback__
    while tb is not None:
        if tb.tb_frame.f_code.co_name == "__repr__" and tb.tb_frame.f_code.co_filename.endswith("base.py"):
            return ["raise", "*repr*"]
        tb = tb.tb_next
    if isinstance(e, AASConstraintViolation):
        return ["raise", "AASCV", e.constraint_id]
    return ["raise", type(e).__name__]


class Hang(Exception):
    """a call of the implementation did not come back within the time limit"""


class time_limit:
    """SIGALRM based limit for calls into the implementation (a mutated tree may not terminate, e.g. Referable.__repr__
    on a parent cycle).  Only in the main thread of a process; elsewhere it is a no-op."""

    def __init__(self, seconds: float):
        self.seconds = seconds
        self.armed = False

    def __enter__(self):
        import signal
        import threading
        if threading.current_thread() is threading.main_thread():
            def onalarm(signum, frame):
                raise Hang()
            self.old = signal.signal(signal.SIGALRM, onalarm)
            signal.setitimer(signal.ITIMER_REAL, self.seconds)
            self.armed = True
        return self

    def __exit__(self, *exc):
        import signal
        if self.armed:
            signal.setitimer(signal.ITIMER_REAL, 0)
            signal.signal(signal.SIGALRM, self.old)
        return False


INSERTING = {"add": -1, "append": -1, "nsAdd": -1, "insert": 4, "setItem": 4}
INSERTING_MANY = {"setSlice": -1, "extend": -1, "setValue": -1}


class World:
    """The real objects of one history."""

    def __init__(self):
        self.elems: List[Any] = []
        self.nss: List[Any] = []          # namespace object or None (constructor failed, object unreachable)
        self.kinds: List[str] = []        # element kinds
        self.nskinds: List[str] = []
        self.h_of: Dict[int, int] = {}    # id(element object) -> handle
        self.n_of: Dict[int, int] = {}    # id(namespace object) -> handle

    # -- construction
    def _ref(self, sem):
        from basyx.aas import model
        return None if sem is None else model.ExternalReference((model.Key(model.KeyTypes.GLOBAL_REFERENCE, f"s{sem}"),))

    def _vt(self, vt):
        from basyx.aas import model
        return {None: None, 0: model.datatypes.String, 1: model.datatypes.Int}[vt]

    def _cls(self, cls):
        from basyx.aas import model
        return {0: model.Property, 1: model.Range, 2: model.MultiLanguageProperty, 3: model.Capability,
                4: model.SubmodelElementCollection, 5: model.SubmodelElementList, 6: model.Entity,
                7: model.AnnotatedRelationshipElement, 8: model.Operation}[cls]

    def mk(self, kind, key, sem, cls, vt):
        from basyx.aas import model
        if kind == "ref":
            if cls == 0:
                o = model.Property(key, self._vt(vt), semantic_id=self._ref(sem))
            elif cls == 1:
                o = model.Range(key, self._vt(vt), semantic_id=self._ref(sem))
            elif cls == 2:
                o = model.MultiLanguageProperty(key, semantic_id=self._ref(sem))
            else:
                o = model.Capability(key, semantic_id=self._ref(sem))
        elif kind == "qual":
            o = model.Qualifier(key, model.datatypes.String, semantic_id=self._ref(sem))
        else:
            o = model.Extension(key, semantic_id=self._ref(sem))
        self._reg_elem(o, kind)

    def _reg_elem(self, o, kind):
        self.h_of[id(o)] = len(self.elems)
        self.elems.append(o)
        self.kinds.append(kind)

    def ns(self, nskind, key, items, cfg):
        from basyx.aas import model
        it = [[self.elems[e] for e in l] for l in items]
        it += [[] for _ in range(5 - len(it))]
        n = len(self.nss)
        r0 = model.ExternalReference((model.Key(model.KeyTypes.GLOBAL_REFERENCE, "r"),))
        obj = None
        try:
            if nskind == "submodel":
                obj = model.Submodel(f"urn:sm:{n}", submodel_element=iter(it[0]), qualifier=iter(it[1]), extension=iter(it[2]))
            elif nskind == "smc":
                obj = model.SubmodelElementCollection(key, value=iter(it[2]), qualifier=iter(it[0]), extension=iter(it[1]))
            elif nskind == "sml":
                obj = model.SubmodelElementList(key, self._cls(cfg[0]), value=iter(it[2]), semantic_id_list_element=self._ref(cfg[1]),
                                                value_type_list_element=self._vt(cfg[2]), qualifier=iter(it[0]),
                                                extension=iter(it[1]))
            elif nskind == "entity":
                obj = model.Entity(key, model.EntityType.CO_MANAGED_ENTITY, statement=iter(it[2]), qualifier=iter(it[0]),
                                   extension=iter(it[1]))
            elif nskind == "arel":
                obj = model.AnnotatedRelationshipElement(key, r0, r0, annotation=iter(it[2]), qualifier=iter(it[0]),
                                                         extension=iter(it[1]))
            elif nskind == "op":
                obj = model.Operation(key, input_variable=iter(it[2]), output_variable=iter(it[3]),
                                      in_output_variable=iter(it[4]), qualifier=iter(it[0]), extension=iter(it[1]))
            elif nskind == "holder":
                obj = model.Property(key, model.datatypes.String, qualifier=iter(it[0]), extension=iter(it[1]))
            elif nskind == "aas":
                obj = model.AssetAdministrationShell(model.AssetInformation(global_asset_id="urn:asset"), f"urn:aas:{n}",
                                                     extension=iter(it[0]))
            elif nskind == "cd":
                obj = model.ConceptDescription(f"urn:cd:{n}", extension=iter(it[0]))
            else:
                raise RuntimeError(nskind)
            res = ["ok"]
        except Exception as e:  # the half-built object is reachable only through a child's parent link
            res = _exc(e)
            known = {id(x) for x in self.nss if x is not None}
            for el in self.elems:
                p = getattr(el, "parent", None)
                if p is not None and id(p) not in known:
                    obj = p
                    break
        self.nss.append(obj)
        self.nskinds.append(nskind)
        if obj is not None:
            self.n_of[id(obj)] = n
        if res == ["ok"] and nskind in SME_KINDS:
            self._reg_elem(obj, "ref")
        return res

    def sets(self, n):
        return self.nss[n].namespace_element_sets

    def builds_cycle(self, op: List[Any]) -> bool:
        """would `op` put a namespace element into itself or into one of its descendants?  (no namespace history; the
        SDK's __repr__ does not terminate on such a structure)"""
        k = op[0]
        if k in INSERTING:
            es = [op[INSERTING[k]]]
        elif k in INSERTING_MANY:
            es = list(op[INSERTING_MANY[k]])
        else:
            return False
        for e in es:
            if not (0 <= e < len(self.elems)) or not (0 <= op[1] < len(self.nss)):
                continue
            el = self.elems[e]
            if id(el) not in self.n_of:
                continue
            anc = self.nss[op[1]]
            for _ in range(200):
                if anc is None:
                    break
                if anc is el:
                    return True
                anc = getattr(anc, "parent", None)
            else:
                return True
        return False

    def live_arg(self) -> List[Any]:
        """the reachable namespaces with, per getter (get_referable, get_qualifier_by_type, get_extension_by_name):
        0 = the class has no such getter, 1 = probe it, 2 = SubmodelElementList.get_referable (takes indices: not probed)"""
        out = []
        for n, o in enumerate(self.nss):
            if o is None:
                continue
            fl = [1 if hasattr(o, g) else 0 for g in GETTERS]
            if self.nskinds[n] == "sml":
                fl[0] = 2
            out.append([n, fl])
        return out

    def key_arg(self, k):
        return getattr(self.elems[k[1]], ATTR[self.kinds[k[1]]]) if isinstance(k, list) else k

    # -- one call
    def step(self, op: List[Any]) -> Any:
        k = op[0]
        if k == "view":
            return self.view(op[1], op[2])
        try:
            if k == "mk":
                self.mk(*op[1:])
                return ["ok"]
            if k == "ns":
                return self.ns(*op[1:])
            if k in ("rename", "setSem"):
                el = self.elems[op[1]]
                if k == "rename":
                    setattr(el, ATTR[self.kinds[op[1]]], op[2])
                else:
                    el.semantic_id = self._ref(op[2])
                return ["ok"]
            if k == "nsAdd":
                ns, el = self.nss[op[1]], self.elems[op[2]]
                getattr(ns, {"ref": "add_referable", "qual": "add_qualifier", "ext": "add_extension"}[self.kinds[op[2]]])(el)
                return ["ok"]
            if k == "nsRemove":
                ns = self.nss[op[1]]
                getattr(ns, {"ref": "remove_referable", "qual": "remove_qualifier_by_type",
                             "ext": "remove_extension_by_name"}[op[2]])(self.key_arg(op[3]))
                return ["ok"]
            if k == "setValue":
                self.nss[op[1]].value = iter([self.elems[e] for e in op[2]])
                return ["ok"]
            s = self.sets(op[1])[op[2]]
            if k == "add":
                s.add(self.elems[op[3]])
            elif k == "remove":
                s.remove(self.elems[op[3]])
            elif k == "discard":
                s.discard(self.elems[op[3]])
            elif k == "removeKey":
                attr = next(iter(s.get_attribute_name_list()))
                if hasattr(s, "_order"):
                    s.remove((attr, self.key_arg(op[3])))
                else:
                    s.remove_by_id(attr, self.key_arg(op[3]))
            elif k == "pop":
                return ["ok", self.h_of[id(s.pop())]]
            elif k == "popAt":
                return ["ok", self.h_of[id(s.pop(op[3]))]]
            elif k == "clear":
                s.clear()
            elif k == "insert":
                s.insert(op[3], self.elems[op[4]])
            elif k == "append":
                s.append(self.elems[op[3]])
            elif k == "setItem":
                s[op[3]] = self.elems[op[4]]
            elif k == "delItem":
                del s[op[3]]
            elif k == "setSlice":
                s[slice(*op[3])] = iter([self.elems[e] for e in op[4]])
            elif k == "delSlice":
                del s[slice(*op[3])]
            elif k == "extend":
                s.extend(iter([self.elems[e] for e in op[3]]))
            else:
                raise RuntimeError(f"unknown op {op}")
            return ["ok"]
        except RuntimeError:
            raise
        except Exception as e:
            return _exc(e)

    # -- the public view
    def hkey(self, k):
        if isinstance(k, str) and k.startswith(GEN_PREFIX):
            return ["gen"]
        return k

    def hobj(self, o):
        if o is None:
            return None
        return self.h_of.get(id(o), "foreign")

    def view(self, live: List[int], probes: List[str]) -> Any:
        ev = []
        for h, el in enumerate(self.elems):
            p = getattr(el, "parent", None)
            ev.append([self.hkey(getattr(el, ATTR[self.kinds[h]])), None if p is None else self.n_of.get(id(p), "foreign")])
        keys: List[Any] = []
        for h, el in enumerate(self.elems):
            k = getattr(el, ATTR[self.kinds[h]])
            if k is not None:
                keys.append(k)
        keys += probes
        nv = []
        for n, flags in live:
            ns = self.nss[n]
            sv = []
            for s in ns.namespace_element_sets:
                attr = s.get_attribute_name_list()[0]
                it = [self.hobj(x) for x in s]
                ln = len(s)
                cont = [h for h, el in enumerate(self.elems) if el in s]
                look = []
                for k in keys:
                    look.append(self.hobj(s.get(attr, k)))
                ordered = hasattr(s, "__getitem__")
                pos = None
                if ordered:
                    pos = []
                    for i in range(ln):
                        try:
                            pos.append(self.hobj(s[i]))
                        except IndexError:
                            pos.append("IndexError")
                    try:
                        s[ln]
                        pos.append("no-IndexError")
                    except IndexError:
                        pass
                sv.append([attr, it, ln, cont, look, pos])
            # namespace-level getters
            nl = []
            for fl, getter in zip(flags, GETTERS):
                if fl == 0:
                    nl.append(None)
                    continue
                row = []
                for k in keys:
                    if fl == 2:
                        row.append(None)      # lists resolve indices, not idShorts (C07)
                        continue
                    try:
                        row.append(self.hobj(getattr(ns, getter)(k)))
                    except Exception:     # not found (KeyError; or TypeError out of the message's __repr__, see _exc)
                        row.append(None)
                nl.append(row)
            nv.append([n, sv, nl])
        return [ev, nv]


# ------------------------------------------------------------------------------------------- generator

ID_POOL = ["abc", "ABC", "aBc", "x1", "X1", "abc_", "b"]
BAD_IDS = ["", "1abc", "a-b", "_a", "a b", "ä", "a" * 129]
QT_POOL = ["t", "T", "t ", "u"]
BAD_QT = ["", "q" * 129]
SEMS = [None, None, 1, 2]


class HistoryGen:
    """Generates ops one at a time against the evolving implementation world (so that handles are always valid and choices
    can be biased towards members / non-members / addable elements).  All randomness from `rng`."""

    NS_KINDS = ["submodel", "smc", "sml", "sml", "sml", "entity", "arel", "op", "op", "holder", "aas", "cd"]

    def __init__(self, rng: random.Random):
        self.rng = rng
        self.w = World()
        self.cfgs: Dict[int, List[Any]] = {}     # list namespace -> cfg
        self.meta: List[Tuple[int, int]] = []    # per element (cls, vt)

    def elems(self, kind):
        return [h for h, k in enumerate(self.w.kinds) if k == kind]

    def note(self, op, res):
        """bookkeeping after the implementation executed `op`"""
        if op[0] == "mk":
            self.meta.append((op[4], op[5]))
        elif op[0] == "ns":
            if op[1] == "sml":
                self.cfgs[len(self.w.nss) - 1] = op[4]
            if res == ["ok"] and op[1] in SME_KINDS:
                self.meta.append((SME_KINDS[op[1]], 0))

    def mk_op(self, unnamed_bias=0.4) -> List[Any]:
        rng = self.rng
        cls = rng.choice([0, 0, 0, 0, 0, 1, 2])
        key = None if rng.random() < unnamed_bias else rng.choice(ID_POOL)
        return ["mk", "ref", key, rng.choice(SEMS + [None, None]), cls, rng.choice([0, 0, 0, 0, 1])]

    def setup(self) -> List[List[Any]]:
        rng = self.rng
        ops = [self.mk_op() for _ in range(rng.randint(5, 10))]
        for _ in range(rng.randint(1, 4)):
            ops.append(["mk", "qual", rng.choice(QT_POOL), rng.choice(SEMS), 0, 0])
        for _ in range(rng.randint(1, 3)):
            ops.append(["mk", "ext", rng.choice(QT_POOL), rng.choice(SEMS), 0, 0])
        return ops

    def ns_op(self) -> List[Any]:
        rng, w = self.rng, self.w
        kind = rng.choice(self.NS_KINDS)
        cfg = None
        if kind == "sml":
            cls = rng.choice([0, 0, 0, 0, 0, 0, 1, 2, 4])
            cfg = [cls, rng.choice([None, None, None, None, 1]), rng.choice([0, 0, 0, 0, 1]) if cls <= 1 else rng.choice([None, None, 0])]
            if rng.random() < 0.03:
                cfg[2] = None
        items = []
        for a in NS_SETS[kind]:
            pool = self.elems(a)
            if pool and rng.random() < 0.4:
                if rng.random() < 0.7:
                    free = [h for h in pool if getattr(w.elems[h], "parent", None) is None and id(w.elems[h]) not in w.n_of]
                    if kind == "sml" and a == "ref":
                        free = [h for h in free if w.elems[h].id_short is None and self.meta[h][0] == cfg[0]]
                    pool = free or pool
                items.append([rng.choice(pool) for _ in range(rng.randint(1, 3))])
            else:
                items.append([])
        key = rng.choice(ID_POOL + ID_POOL + [None]) if kind in SME_KINDS else None
        return ["ns", kind, key, items, cfg]

    def spell(self, h: int):
        """the key of element h as an op argument: the string, or ["of", h] for a generated idShort"""
        k = getattr(self.w.elems[h], ATTR[self.w.kinds[h]])
        return ["of", h] if isinstance(k, str) and k.startswith(GEN_PREFIX) else k

    def live(self) -> List[int]:
        return [n for n, o in enumerate(self.w.nss) if o is not None]

    def next_op(self) -> List[Any]:
        """next op; never builds a parent cycle (a namespace element inside itself or inside one of its descendants): the
        SDK's __repr__ (used in its error messages) does not terminate on such a structure, and it is no namespace history."""
        op = self._next_op()
        k = op[0]
        if k in ("add", "append", "nsAdd"):
            op[-1] = self.safe(op[1], op[-1])
        elif k in ("insert", "setItem"):
            op[4] = self.safe(op[1], op[4])
        elif k in ("setSlice", "extend", "setValue"):
            op[-1] = [self.safe(op[1], e) for e in op[-1]]
        return op

    def safe(self, n: int, e: int) -> int:
        w = self.w
        el = w.elems[e]
        if id(el) not in w.n_of:
            return e
        anc = w.nss[n]
        seen = 0
        while anc is not None and seen < 100:
            if anc is el:
                plain = [h for h, x in enumerate(w.elems) if w.kinds[h] == "ref" and id(x) not in w.n_of]
                return self.rng.choice(plain) if plain else e
            anc = getattr(anc, "parent", None)
            seen += 1
        return e

    def _next_op(self) -> List[Any]:
        rng, w = self.rng, self.w
        live = self.live()
        r = rng.random()
        if not live or r < 0.03:
            return self.ns_op()
        if r < 0.07:
            return self.mk_op(0.6)
        if r < 0.17:   # rename
            e = rng.randrange(len(w.elems))
            if rng.random() < 0.5:   # prefer contained elements
                cont = [h for h, el in enumerate(w.elems) if getattr(el, "parent", None) is not None]
                e = rng.choice(cont) if cont else e
            kd = w.kinds[e]
            if kd == "ref":
                key = rng.choice(ID_POOL * 3 + [None, None] + BAD_IDS)
            else:
                key = rng.choice(QT_POOL * 3 + BAD_QT)
            return ["rename", e, key]
        if r < 0.22:
            e = rng.randrange(len(w.elems))
            if rng.random() < 0.6:   # prefer list children
                cont = [h for h, el in enumerate(w.elems) if id(getattr(el, "parent", None)) in w.n_of
                        and w.nskinds[w.n_of[id(el.parent)]] == "sml"]
                e = rng.choice(cont) if cont else e
            return ["setSem", e, rng.choice(SEMS + [3])]
        n = rng.choice(live)
        if rng.random() < 0.4:   # prefer lists: most of the machinery is there
            ls = [m for m in live if w.nskinds[m] == "sml" and len(w.sets(m)) == 3]
            n = rng.choice(ls) if ls else n
        sets = w.sets(n)
        nskind = w.nskinds[n]
        if r < 0.27:
            e = rng.randrange(len(w.elems))
            meth = {"ref": "add_referable", "qual": "add_qualifier", "ext": "add_extension"}[w.kinds[e]]
            if hasattr(w.nss[n], meth):
                return ["nsAdd", n, e]
        elif r < 0.31:
            kd = rng.choice(["ref", "ref", "qual", "ext"])
            meth = {"ref": "remove_referable", "qual": "remove_qualifier_by_type", "ext": "remove_extension_by_name"}[kd]
            if hasattr(w.nss[n], meth):
                keys = [self.spell(h) for h, el in enumerate(w.elems)
                        if w.kinds[h] == kd and (getattr(el, "parent", None) is w.nss[n] or rng.random() < 0.2)]
                keys = [k for k in keys if k is not None] or (ID_POOL if kd == "ref" else QT_POOL)
                return ["nsRemove", n, kd, rng.choice(keys)]
        if not sets:
            return self.ns_op()
        # set-level op; prefer the referable sets
        cand = list(range(len(sets)))
        refsets = [j for j in cand if sets[j].get_attribute_name_list()[0] == "id_short"]
        j = rng.choice(refsets) if refsets and rng.random() < 0.8 else rng.choice(cand)
        s = sets[j]
        kd = {"id_short": "ref", "type": "qual", "name": "ext"}[s.get_attribute_name_list()[0]]
        ordered = hasattr(s, "__getitem__")
        members = [w.h_of[id(x)] for x in s if id(x) in w.h_of]
        pool = self.elems(kd)
        cfg = self.cfgs.get(n)

        def pick_new():
            """an element to insert: mostly one that the set will accept"""
            q = rng.random()
            if q < 0.7:
                free = [h for h in pool if getattr(w.elems[h], "parent", None) is None]
                if ordered and cfg is not None:
                    free = [h for h in free if w.elems[h].id_short is None and self.meta[h][0] == cfg[0]
                            and (cfg[0] > 1 or self.meta[h][1] == cfg[2] or rng.random() < 0.1)]
                elif kd == "ref":
                    free = [h for h in free if w.elems[h].id_short is not None or rng.random() < 0.1]
                if free:
                    return rng.choice(free)
            if q < 0.8 and members:
                return rng.choice(members)
            return rng.choice(pool) if pool else 0

        def pick_member(bias):
            q = rng.random()
            if members and q < bias:
                return rng.choice(members)
            if members and q < bias + 0.15:   # a look-alike: not a member, but carries a member's key
                mkeys = {getattr(w.elems[h], ATTR[kd]) for h in members}
                alike = [h for h in pool if h not in members and getattr(w.elems[h], ATTR[kd]) in mkeys]
                if alike:
                    return rng.choice(alike)
            return rng.choice(pool) if pool else 0

        def idx():
            ln = len(s)
            return rng.choice([0, 0, 1, ln - 1, ln - 1, ln, ln + 1, -1, -ln, -ln - 1, rng.randint(-3, 5)])

        def sl():
            def b():
                return rng.choice([None, None, 0, 1, 1, 2, 3, -1, -2, 5, -7])
            return [b(), b(), rng.choice([None, None, None, None, 1, 1, 2, -1, -2, 0])]

        if ordered and cfg is not None and cfg[0] <= 2 and rng.random() < 0.25:
            fit = [h for h in pool if getattr(w.elems[h], "parent", None) is None and w.elems[h].id_short is None
                   and self.meta[h][0] == cfg[0]]
            if len(fit) < 2:
                return ["mk", "ref", None, rng.choice([None, None, cfg[1], 1]), cfg[0], cfg[2] if cfg[2] is not None else 0]
        if ordered:
            kinds = ["add", "add", "append", "append", "insert", "insert", "insert", "setItem", "setItem", "setSlice", "setSlice",
                     "setSlice", "delItem", "delSlice", "popAt", "pop", "remove", "removeKey", "discard", "extend", "extend", "clear",
                     "setValue"]
            if len(s) < 3:     # keep lists populated: positional operations need something to act on
                kinds = ["add", "append", "insert", "insert", "extend", "extend", "setSlice"] * 3 + kinds
            elif len(s) < 6:
                kinds += ["insert", "insert", "append", "setItem", "setItem", "popAt", "delItem", "setSlice"]
        else:
            kinds = ["add", "add", "add", "add", "add", "remove", "remove", "discard", "discard", "removeKey", "pop", "clear"]
            if len(s) < 2:
                kinds += ["add", "add", "add"]
        k = rng.choice(kinds)
        if k == "add":
            return ["add", n, j, pick_new()]
        if k == "append":
            return ["append", n, j, pick_new()]
        if k == "insert":
            return ["insert", n, j, idx(), pick_new()]
        if k == "setItem":
            return ["setItem", n, j, idx(), pick_new()]
        if k == "setSlice":
            return ["setSlice", n, j, sl(), [pick_new() for _ in range(rng.choice([0, 1, 1, 2, 2, 3]))]]
        if k == "delItem":
            return ["delItem", n, j, idx()]
        if k == "delSlice":
            return ["delSlice", n, j, sl()]
        if k == "popAt":
            return ["popAt", n, j, idx()]
        if k == "pop":
            return ["pop", n, j]
        if k == "remove":
            return ["remove", n, j, pick_member(0.75)]
        if k == "discard":
            return ["discard", n, j, pick_member(0.6)]
        if k == "removeKey":
            keys = [self.spell(h) for h in members] if rng.random() < 0.75 else []
            keys = [x for x in keys if x is not None] or (ID_POOL if kd == "ref" else QT_POOL)
            return ["removeKey", n, j, rng.choice(keys)]
        if k == "extend":
            return ["extend", n, j, [pick_new() for _ in range(rng.choice([0, 1, 2, 2, 3]))]]
        if k == "setValue":
            if nskind != "sml" or not hasattr(w.nss[n], "_value"):
                return ["clear", n, j]
            return ["setValue", n, [pick_new() for _ in range(rng.choice([0, 1, 2, 3]))]]
        return ["clear", n, j] if rng.random() < 0.5 else ["pop", n, j]


PROBES = ["abc", "ABC", "t", "zz"]


def run_history(rng: random.Random, length: int, on_step=None) -> Tuple[List[List[Any]], List[Any], Optional[C.Failing]]:
    """Generate a history against the live implementation.  Returns (op lines incl. views, impl outputs, first oracle failure)."""
    g = HistoryGen(rng)
    lines: List[List[Any]] = []
    outs: List[Any] = []
    fail: Optional[C.Failing] = None
    orc = Oracle(g.w)
    hist: List[List[Any]] = []
    todo = g.setup() + [g.ns_op() for _ in range(rng.randint(2, 4))]
    try:
        with time_limit(60):
            for i in range(length + len(todo)):
                op = todo[i] if i < len(todo) else g.next_op()
                hist.append(op)
                before = orc.snapshot() if op[0] in SINGLE_OPS else None
                r = g.w.step(op)
                g.note(op, r)
                v = ["view", g.w.live_arg(), PROBES]
                vo = g.w.step(v)
                lines += [op, v]
                outs += [r, vo]
                if fail is None:
                    fail = orc.check(op, r, before, list(hist))
                if on_step:
                    on_step(op, r)
    except Hang:
        if fail is None:
            fail = C.Failing("ns:hang", "a call of the namespace API did not return within the time limit", list(hist))
    return lines, outs, fail


# ------------------------------------------------------------------------------------------- oracle

class Oracle:
    """The property stated directly over the live objects (no model involved)."""

    def __init__(self, w: World):
        self.w = w

    def snapshot(self):
        w = self.w
        el = []
        for h, o in enumerate(w.elems):
            el.append((getattr(o, ATTR[w.kinds[h]]), id(getattr(o, "parent", None)) if getattr(o, "parent", None) is not None else None,
                       o.semantic_id))
        ns = []
        for n, o in enumerate(w.nss):
            if o is None:
                continue
            for j, s in enumerate(o.namespace_element_sets):
                ids = [id(x) for x in s]
                ns.append((n, j, ids if hasattr(s, "__getitem__") else sorted(ids)))
        return (el, ns)

    def effect(self, op, res, before, after) -> Optional[str]:
        """what a call that RETURNED must have done (MutableSet / MutableSequence contract of the collections; a renamed child
        stays a child).  Returns a description of what is missing, or None."""
        w = self.w
        k = op[0]
        mem_b = {(n, j): set(ids) for n, j, ids in before[1]}
        mem_a = {(n, j): set(ids) for n, j, ids in after[1]}
        if k in ("add", "append", "insert", "setItem"):
            e = id(w.elems[op[-1]])
            if e not in mem_a.get((op[1], op[2]), ()):
                return f"{k} returned but element {op[-1]} is not in the collection"
        elif k == "nsAdd":
            e = id(w.elems[op[2]])
            if not any(e in ids for (n, j), ids in mem_a.items() if n == op[1]):
                return f"nsAdd returned but element {op[2]} is in no collection of namespace {op[1]}"
        elif k in ("remove", "discard"):
            e = id(w.elems[op[3]])
            if e in mem_a.get((op[1], op[2]), ()):
                return f"{k} returned but element {op[3]} is still in the collection"
            if k == "discard" and e not in mem_b.get((op[1], op[2]), ()) and after != before:
                return f"discard of non-member {op[3]} changed the namespace"
        elif k in ("pop", "popAt") and len(res) > 1:
            e = id(w.elems[res[1]])
            if e in mem_a.get((op[1], op[2]), ()) or e not in mem_b.get((op[1], op[2]), ()):
                return f"{k} returned element {res[1]}, which was not / still is in the collection"
        elif k == "rename":
            e = id(w.elems[op[1]])
            for key in mem_b:
                if (e in mem_b[key]) != (e in mem_a.get(key, ())):
                    return (f"rename returned but element {op[1]} "
                            f"{'left' if e in mem_b[key] else 'entered'} set {key[1]} of namespace {key[0]}")
            if getattr(w.elems[op[1]], ATTR[w.kinds[op[1]]]) != op[2]:
                return f"rename returned but the attribute of element {op[1]} is not the assigned value"
        return None

    def check(self, op, res, before, hist) -> Optional[C.Failing]:
        w = self.w
        k = op[0]

        def F(clause, what, obs=None, req=None):
            return C.Failing(f"ns:{k}:{clause}", what, hist, obs, req)

        raised = isinstance(res, list) and res and res[0] == "raise"
        # unexpected exception kinds out of a container call are reported by the correspondence, not here
        for n, ns in enumerate(w.nss):
            if ns is None:
                continue
            seen_keys: Dict[str, Dict[Any, int]] = {}
            members_of_ns = set()
            for j, s in enumerate(ns.namespace_element_sets):
                attr = s.get_attribute_name_list()[0]
                try:
                    it = list(s)
                    ln = len(s)
                except Exception as e:
                    return F("view-raises", f"iter/len of set {j} of namespace {n} raised {e!r}")
                if len(set(map(id, it))) != len(it):
                    return F("iter-duplicates", f"set {j} of namespace {n} iterates an element twice")
                if ln != len(it):
                    return F("len-vs-iter", f"set {j} of namespace {n}: len()={ln} but iteration yields {len(it)} elements", ln, len(it))
                ids = set(map(id, it))
                for h, el in enumerate(w.elems):
                    if (el in s) != (id(el) in ids):
                        return F("contains-vs-iter", f"set {j} of namespace {n}: `element {h} in set` is {el in s} but iteration "
                                 f"{'yields' if id(el) in ids else 'does not yield'} it")
                if hasattr(s, "__getitem__"):
                    try:
                        pos = [s[i] for i in range(ln)]
                    except IndexError:
                        return F("index-vs-len", f"set {j} of namespace {n}: indexing below len()={ln} raises IndexError")
                    if list(map(id, pos)) != list(map(id, it)):
                        return F("index-vs-iter", f"set {j} of namespace {n}: positional view differs from iteration")
                    try:
                        s[ln]
                        return F("index-vs-len", f"set {j} of namespace {n}: index len()={ln} does not raise IndexError")
                    except IndexError:
                        pass
                    for i, c in enumerate(it):
                        if s.index(c) != i:
                            return F("index-vs-iter", f"set {j} of namespace {n}: index() of the element at {i} is {s.index(c)}")
                for c in it:
                    members_of_ns.add(id(c))
                    if id(c) not in w.h_of:
                        return F("foreign-member", f"set {j} of namespace {n} contains an object that was never put in")
                    key = getattr(c, attr)
                    if key is None:
                        return F("member-without-key", f"set {j} of namespace {n} contains element {w.h_of[id(c)]} whose {attr} is None")
                    d = seen_keys.setdefault(attr, {})
                    if key in d:
                        return F("duplicate-key", f"namespace {n}: {attr}={self._k(key)!r} carried by elements {d[key]} and "
                                 f"{w.h_of[id(c)]}")
                    d[key] = w.h_of[id(c)]
                    if getattr(c, "parent", None) is not ns:
                        return F("member-parent", f"namespace {n} contains element {w.h_of[id(c)]} whose parent is not the namespace")
                    if s.get(attr, key) is not c:
                        return F("lookup-member", f"set {j} of namespace {n}: get({attr}={self._k(key)!r}) does not return the "
                                 f"contained element {w.h_of[id(c)]}")
                    try:
                        if s.get_object_by_attribute(attr, key) is not c:
                            return F("lookup-member", f"set {j} of namespace {n}: get_object_by_attribute returns another object")
                    except KeyError:
                        return F("lookup-member", f"set {j} of namespace {n}: get_object_by_attribute({self._k(key)!r}) raises KeyError "
                                 f"for contained element {w.h_of[id(c)]}")
                    getter = {"id_short": "get_referable", "type": "get_qualifier_by_type", "name": "get_extension_by_name"}[attr]
                    if hasattr(ns, getter) and not (attr == "id_short" and w.nskinds[n] == "sml"):
                        try:
                            if getattr(ns, getter)(key) is not c:
                                return F("ns-lookup", f"namespace {n}: {getter}({self._k(key)!r}) returns another object than the child")
                        except Exception as e:
                            return F("ns-lookup", f"namespace {n}: {getter}({self._k(key)!r}) raises {type(e).__name__} for contained "
                                     f"element {w.h_of[id(c)]}")
                # lookups never return a non-member
                for h, el in enumerate(w.elems):
                    key = getattr(el, ATTR[w.kinds[h]], None)
                    if key is None or ATTR[w.kinds[h]] != attr:
                        continue
                    got = s.get(attr, key)
                    if got is not None and id(got) not in ids:
                        return F("lookup-nonmember", f"set {j} of namespace {n}: get({self._k(key)!r}) returns an element that "
                                 "iteration does not yield")
            for h, el in enumerate(w.elems):
                if getattr(el, "parent", None) is ns and id(el) not in members_of_ns:
                    return F("parent-without-membership", f"element {h} names namespace {n} as parent but no set of it contains "
                             "the element")
        if before is not None and k in SINGLE_OPS:
            after = self.snapshot()
            if raised:
                if after != before:
                    return F("not-atomic", f"{k} raised {res[1:]} but changed the namespace or the element")
            else:
                miss = self.effect(op, res, before, after)
                if miss:
                    return F("effect", miss)
        return None

    @staticmethod
    def _k(key):
        return "<generated>" if isinstance(key, str) and key.startswith(GEN_PREFIX) else key


def check_history(hist: List[List[Any]]) -> Optional[C.Failing]:
    """Replay a fixed op list (no views) on the implementation under the oracle."""
    w = World()
    orc = Oracle(w)
    done: List[List[Any]] = []
    try:
        with time_limit(20):
            for op in hist:
                if op[0] == "view":
                    continue
                done.append(op)
                try:
                    if w.builds_cycle(op):
                        return None
                    before = orc.snapshot() if op[0] in SINGLE_OPS else None
                    r = w.step(op)
                except (IndexError, KeyError, AttributeError, RuntimeError, TypeError):
                    return None      # malformed after minimisation (a handle no longer exists)
                f = orc.check(op, r, before, list(done))
                if f is not None:
                    return f
    except Hang:
        return C.Failing("ns:hang", "a call of the namespace API did not return within 20 s", list(done))
    except RecursionError:
        return None
    return None


def minimise(f: C.Failing) -> C.Failing:
    def fails(ops):
        g = check_history(ops)
        return g is not None and g.sig == f.sig
    if f.sig == "ns:hang":
        return f
    case = [op for op in f.case if op[0] != "view"]
    if fails(case):
        small = C.ddmin(case, fails, max_tests=300)
        g = check_history(small)
        if g is not None and g.sig == f.sig:
            return g
    return f


# ------------------------------------------------------------------------------------------- entry points

def _budget(tier: str) -> Tuple[int, int]:
    """(histories, max ops per history): about 9k ops quick, about 195k ops thorough"""
    return (300, 40) if tier == "quick" else (1000, 300)


DIRECTED = [
    # slice assignment with more / fewer items than the slice (DESIGN A.1)
    [["mk", "ref", None, None, 0, 0], ["mk", "ref", None, None, 0, 0], ["mk", "ref", None, None, 0, 0], ["mk", "ref", None, None, 0, 0],
     ["ns", "sml", "l", [[], [], [3]], [0, None, 0]], ["setSlice", 0, 2, [0, 1, None], [0, 1, 2]]],
    [["mk", "ref", None, None, 0, 0], ["mk", "ref", None, None, 0, 0], ["mk", "ref", None, None, 0, 0], ["mk", "ref", None, None, 0, 0],
     ["ns", "sml", "l", [[], [], [2, 3]], [0, None, 0]], ["setSlice", 0, 2, [None, None, 2], [0]],
     ["setSlice", 0, 2, [None, None, -1], [0, 1]], ["setSlice", 0, 2, [5, 1, None], [0, 1]]],
    # failed semantic_id assignment inside a list (not part of C01's atomicity clause; the invariant must survive)
    [["mk", "ref", None, 1, 0, 0], ["mk", "ref", None, 1, 0, 0], ["ns", "sml", "l", [[], [], [0, 1]], [0, None, 0]],
     ["setSem", 0, 2], ["setSem", 1, 2], ["add", 0, 2, 0]],
    # the three Operation sets share one scope
    [["mk", "ref", "abc", None, 0, 0], ["mk", "ref", "abc", None, 0, 0], ["mk", "ref", "ABC", None, 0, 0],
     ["ns", "op", "o", [[], [], [0], [], []], None], ["add", 0, 3, 1], ["add", 0, 4, 2], ["rename", 2, "abc"], ["rename", 0, "ABC"],
     ["add", 0, 3, 0], ["nsRemove", 0, "ref", "abc"], ["add", 0, 4, 1]],
]


_RESULTS: Dict[Tuple[str, int], List[C.Failing]] = {}     # oracle failures seen while the correspondence drove the code


def _shard(args) -> Dict[str, Any]:
    """One worker: generate its share of the histories against the live implementation (with the oracle looking on), pipe
    the same lines through the Lean driver, compare line by line."""
    tier, seed, shard, nshards, nh, ln = args
    rng = random.Random(f"C01:{seed}:{shard}")
    lines: List[Any] = []
    impl: List[Any] = []
    index: List[Tuple[int, int]] = []
    hist_ops: List[List[List[Any]]] = []
    hist: Dict[str, int] = {}
    nontrivial = set()
    fails: List[C.Failing] = []
    sigs = set()
    n_ops = 0
    todo: List[Any] = list(DIRECTED) if shard == 0 else []
    todo += [None] * len(range(shard, nh, nshards))
    for hi, d in enumerate(todo):
        lines.append(["reset"])
        impl.append(["reset"])
        index.append((hi, -1))
        if d is not None:
            w = World()
            hl, ho = [], []
            for op in d:
                hl.append(op)
                ho.append(w.step(op))
                v = ["view", w.live_arg(), PROBES]
                hl.append(v)
                ho.append(w.step(v))
            fl = check_history(d)
        else:
            hl, ho, fl = run_history(rng, rng.randint(max(1, ln // 3), ln))
        if fl is not None and fl.sig not in sigs:
            sigs.add(fl.sig)
            fails.append(fl)
        hist_ops.append(hl)
        prev_view = None
        nskind = "-"
        for k, (l, o) in enumerate(zip(hl, ho)):
            lines.append(l)
            impl.append(o)
            index.append((hi, k))
            if l[0] == "view":
                op, r = hl[k - 1], ho[k - 1]
                changed = o != prev_view
                prev_view = o
                raised = isinstance(r, list) and r[:1] == ["raise"]
                if op[0] != "mk":
                    n_ops += 1
                    key = op[0] + (":raise" if raised else ":ok")
                    hist[key] = hist.get(key, 0) + 1
                    if raised:
                        key = "exc:" + ":".join(map(str, r[1:]))
                        hist[key] = hist.get(key, 0) + 1
                    if changed or raised:
                        nontrivial.add(C.sha([op[0], r[:3] if raised else "ok", len(json.dumps(o)) // 40,
                                              op[1] if op[0] == "ns" else "-"]))
    model = C.run_model("C01", lines)
    dis: List[C.Disagreement] = []
    if len(model) != len(impl):
        dis.append(C.Disagreement("driver output length", None, len(model), len(impl)))
    else:
        seen_h = set()
        for k, (m, i) in enumerate(zip(model, impl)):
            if i == ["raise", "*repr*"] and isinstance(m, list) and m[:1] == ["raise"]:
                continue
            if m != i:
                hi, oi = index[k]
                if hi in seen_h:
                    continue
                seen_h.add(hi)
                case = [l for l in hist_ops[hi][: oi + 1] if l[0] != "view"]
                dm, di = _diff(m, i)
                dis.append(C.Disagreement(f"ns line {json.dumps(lines[k])[:120]} (shard {shard}, history {hi})", case, dm, di))
                if len(dis) >= 5:
                    break
    sample = [l for l in hist_ops[-1] if l[0] != "view"][:14] if hist_ops else []
    return {"dis": dis, "hist": hist, "nontrivial": nontrivial, "ops": n_ops, "fails": fails, "lines": len(lines),
            "histories": len(todo), "sample": sample}


def correspond(ctx: C.Ctx, cov: C.Coverage) -> List[C.Disagreement]:
    nh, ln = _budget(ctx.tier)
    cov.rule = ("seeded random histories over pools with colliding / case-differing / None idShorts, qualifier types and extension "
                "names, nine namespace kinds (incl. the three Operation sets and SubmodelElementList with its hooks), elements owned "
                "by other namespaces, re-insertion of removed elements; after EVERY call (returned or raised) the whole public view "
                "(per element key+parent; per set iter, len, `in` for every element, get() for every key, positional view; per "
                "namespace get_referable/get_qualifier_by_type/get_extension_by_name) is compared with the model's view. "
                "non-trivial = the call changed the view or raised; distinct = (op kind, outcome, size class of the view, "
                "namespace kind for constructors)")
    nshards = max(1, min(ctx.jobs, 16, nh // 8))
    args = [(ctx.tier, ctx.seed, k, nshards, nh, ln) for k in range(nshards)]
    if nshards == 1:
        results = [_shard(args[0])]
    else:
        import multiprocessing as mp
        with mp.get_context("fork").Pool(nshards) as pool:
            results = pool.map(_shard, args)
    dis: List[C.Disagreement] = []
    fails: List[C.Failing] = []
    for r in results:
        dis += r["dis"]
        fails += r["fails"]
        cov.evaluations += r["ops"]
        cov.nontrivial |= r["nontrivial"]
        for k, v in r["hist"].items():
            cov.hit(k, v)
    cov.samples = [results[-1]["sample"]]
    cov.extra["histories"] = sum(r["histories"] for r in results)
    cov.extra["lines_compared"] = sum(r["lines"] for r in results)
    cov.extra["shards"] = nshards
    cov.extra["neutral_zones"] = [
        "which exception type a call raises when Referable.__repr__ itself fails while the error message is formatted (*repr*)",
        "semantic_id assignment is part of the histories (the invariant must survive it) but is not held to the atomicity "
        "clause: C01's clause names insertion, replacement, removal and rename only",
        "iteration order of unordered sets is compared with the model (dict order) but not judged by the oracle",
    ]
    _RESULTS[(ctx.tier, ctx.seed)] = fails
    return dis[:5]


def _diff(m, i):
    """Narrow a disagreement between two nested lists to the first differing leaf (for readable reports)."""
    path = []
    while isinstance(m, list) and isinstance(i, list) and len(m) == len(i):
        for k, (a, b) in enumerate(zip(m, i)):
            if a != b:
                path.append(k)
                m, i = a, b
                break
        else:
            break
    return [path, m], [path, i]


# ------------------------------------------------------------------ hand-made namespaces with case-insensitive sets (oracle only)

CI_NAMES = ["a", "A", "ab", "aB", "AB", "b", "zz", "Zz"]


def ci_history(seed: int, length: int) -> List[List[Any]]:
    rng = random.Random(f"C01ci:{seed}")
    ops = []
    for _ in range(length):
        r = rng.random()
        if r < 0.35:
            ops.append(["add", rng.randrange(2), rng.randrange(6), rng.choice(CI_NAMES)])
        elif r < 0.5:
            ops.append(["remove", rng.randrange(6)])
        elif r < 0.85:
            ops.append(["rename", rng.randrange(6), rng.choice(CI_NAMES)])
        else:
            ops.append(["discard", rng.randrange(2), rng.randrange(6)])
    return ops


def check_ci(ops: List[List[Any]]) -> Optional[C.Failing]:
    """`NamespaceSet(parent, [("id_short", False)])` — the case-insensitive flavour of the public API, in a namespace with two such
    sets.  The Lean model covers the SDK's own (case-sensitive) classes; here the same containment statement is checked against a
    plain reference: a map from the ASCII-upper-cased idShort to the element, per namespace."""
    from basyx.aas import model

    class CiNamespace(model.UniqueIdShortNamespace):
        def __init__(self):
            super().__init__()
            self.sets = [model.NamespaceSet(self, [("id_short", False)]), model.NamespaceSet(self, [("id_short", False)])]
    ns = CiNamespace()
    els = [model.Property(None, model.datatypes.Int) for _ in range(6)]
    where: Dict[int, int] = {}            # element handle -> set index

    def snapshot():
        return ([[id(x) for x in st] for st in ns.sets], [(e.id_short, e.parent is ns) for e in els])

    def fail(sig, what, oi):
        return C.Failing("ns:ci:" + sig, what, ["ci", ops[: oi + 1]])
    for oi, op in enumerate(ops):
        before = snapshot()
        raised = None
        try:
            if op[0] == "add":
                if op[2] not in where:
                    e = els[op[2]]
                    if e.parent is None:
                        e.id_short = op[3]
                    ns.sets[op[1]].add(e)
                    where[op[2]] = op[1]
            elif op[0] == "remove":
                if op[1] in where:
                    ns.sets[where[op[1]]].remove(els[op[1]])
                    del where[op[1]]
            elif op[0] == "discard":
                ns.sets[op[1]].discard(els[op[2]])
                if where.get(op[2]) == op[1]:
                    del where[op[2]]
            else:
                els[op[1]].id_short = op[2]
        except Exception as e:
            raised = e
        if raised is not None:
            if snapshot() != before and not (op[0] == "add" and els[op[2]].parent is None and before[1][op[2]][1] is False
                                             and [x for x in snapshot()[0]] == before[0]):
                return fail(f"{op[0]}:raised:not-atomic", f"{op} raised {type(raised).__name__} but changed the namespace or the element", oi)
        # the views agree, whatever happened
        seen_upper: Dict[str, int] = {}
        for si, st in enumerate(ns.sets):
            items = list(st)
            if len(items) != len(st):
                return fail("len-vs-iter", f"set {si}: len()={len(st)}, iteration yields {len(items)}", oi)
            for x in items:
                h = els.index(x)
                if x.parent is not ns:
                    return fail("member-parent", f"set {si} contains element {h} whose parent is not the namespace", oi)
                if where.get(h) != si:
                    return fail("membership", f"set {si} contains element {h}; expected sets: {where}", oi)
                up = x.id_short.upper()
                if up in seen_upper:
                    return fail("duplicate-name", f"elements {seen_upper[up]} and {h} carry the same idShort (ignoring case)", oi)
                seen_upper[up] = h
                for variant in (x.id_short, x.id_short.lower(), x.id_short.upper()):
                    if not st.contains_id("id_short", variant):
                        return fail("contains_id-misses-member", f"set {si}: contains_id({variant!r}) is False for member {x.id_short!r}", oi)
                    try:
                        if st.get_object_by_attribute("id_short", variant) is not x:
                            return fail("lookup-other", f"set {si}: lookup of {variant!r} is not the member {x.id_short!r}", oi)
                    except KeyError:
                        return fail("lookup-misses-member", f"set {si}: lookup of {variant!r} raises for member {x.id_short!r}", oi)
                if x not in st:
                    return fail("contains-vs-iter", f"set {si}: `in` is False for an element the iteration yields", oi)
        for h, e in enumerate(els):
            if (e.parent is ns) != (h in where) or (h in where and e not in ns.sets[where[h]]):
                return fail("parent-without-membership", f"element {h}: parent link and membership disagree", oi)
        for nm in CI_NAMES:
            if nm.upper() not in seen_upper and any(st.contains_id("id_short", nm) for st in ns.sets):
                return fail("contains_id-phantom", f"contains_id({nm!r}) is True although no member carries that idShort", oi)
    return None



# ------------------------------------------------------------------------------- positional contract of ordered sets

def list_contract_probe(case=None) -> List[C.Failing]:
    """(round 8) The positional view of an ordered set is a list: `del value[i]` does what `del list[i]` does (negative indices
    count from the end, an index out of range raises IndexError and changes nothing), and an `insert` whose position the list
    refuses (a str, None, a float) is refused BEFORE the object is taken in.  Every length 0..4 x every index -len-2..len+1,
    against a plain Python list of the same children."""
    from basyx.aas import model
    D = model.datatypes
    out: List[C.Failing] = []
    seen = set()

    def mk(n):
        return model.SubmodelElementList("l", model.Property, [model.Property(None, D.Int, k) for k in range(n)], value_type_list_element=D.Int)

    def view(lst, extra=()):
        v = lst.value
        return [len(v), [id(x) for x in v], [x.parent is lst for x in list(v) + list(extra)], [x in v for x in list(v) + list(extra)]]

    def add(f):
        if f.sig not in seen:
            seen.add(f.sig)
            out.append(f)
    todo = [case] if case else [["lc", "del", n, i] for n in range(5) for i in range(-n - 2, n + 2)] + \
        [["lc", "insert", n, pos] for n in (0, 2) for pos in ("0", None, 1.5)]
    for c in todo:
        _, what, n, arg = c
        lst = mk(n)
        kids = list(lst.value)
        if what == "del":
            ref = list(kids)
            try:
                del ref[arg]
                want = ref
            except IndexError:
                want = None
            before = view(lst)
            try:
                del lst.value[arg]
                got = list(lst.value)
                err = None
            except Exception as e:   # noqa
                got, err = None, type(e).__name__
            if want is None:
                if err != "IndexError":
                    add(C.Failing("ns:delItem:out-of-range:" + (err or "no-error"), f"del value[{arg}] on a list of {n}: a list raises IndexError, the set "
                                  f"{'raised ' + err if err else 'returned'}", c, err, "IndexError"))
                elif view(lst) != before:
                    add(C.Failing("ns:delItem:out-of-range:changed", f"del value[{arg}] on a list of {n} raised IndexError but changed the set", c))
            else:
                if err is not None:
                    add(C.Failing("ns:delItem:in-range:raises:" + err, f"del value[{arg}] on a list of {n} raised {err}", c, err, "removal"))
                elif [id(x) for x in got] != [id(x) for x in want] or len(lst.value) != len(want):
                    add(C.Failing("ns:delItem:in-range:wrong-children", f"del value[{arg}] on a list of {n} children left positions "
                                  f"{[kids.index(x) for x in got]}, a list leaves {[kids.index(x) for x in want]}", c))
                else:
                    gone = [x for x in kids if x not in want]
                    if any(x.parent is not None or x in lst.value for x in gone):
                        add(C.Failing("ns:delItem:in-range:removed-still-linked", f"del value[{arg}] on a list of {n}: the removed child keeps its parent", c))
        else:
            x = model.Property(None, D.Int, 99)
            before = view(lst, [x])
            try:
                lst.value.insert(arg, x)
                err = None
            except Exception as e:   # noqa
                err = type(e).__name__
            if err != "TypeError":
                add(C.Failing("ns:insert:bad-position:" + (err or "accepted"), f"value.insert({arg!r}, x) {'raised ' + err if err else 'was accepted'}; "
                              "a list raises TypeError", c, err, "TypeError"))
            elif view(lst, [x]) != before:
                add(C.Failing("ns:insert:bad-position:not-atomic", f"value.insert({arg!r}, x) raised TypeError but changed the set: "
                              f"len()={len(lst.value)}, iteration yields {len(list(lst.value))}, x.parent set: {x.parent is lst}, x in value: {x in lst.value}", c))
    return out


def oracle(ctx: C.Ctx, cov: C.Coverage) -> List[C.Failing]:
    """The oracle watched every call of the correspondence run (same histories); when that run did not happen (driver
    broken) the histories are generated again here."""
    fails = _RESULTS.get((ctx.tier, ctx.seed))
    if fails is None:
        nh, ln = _budget(ctx.tier)
        rng = random.Random(f"{ctx.prop}:oracle:{ctx.seed}")
        fails = []
        for d in DIRECTED:
            f = check_history(d)
            if f:
                fails.append(f)
        for _ in range(nh if ctx.tier == "quick" else nh // 4):
            _, _, f = run_history(rng, rng.randint(max(1, ln // 3), ln))
            if f:
                fails.append(f)
    out: List[C.Failing] = []
    sigs = set()
    for f in fails:
        if f.sig not in sigs:
            sigs.add(f.sig)
            out.append(minimise(f))
    for k in range(120 if ctx.tier == "quick" else 2000):
        f = check_ci(ci_history(ctx.seed * 100003 + k, 25))
        if f and f.sig not in sigs:
            sigs.add(f.sig)
            f.case = ["ci", C.ddmin(f.case[1], lambda o, f=f: (lambda g: g is not None and g.sig == f.sig)(check_ci(o)))]
            out.append(f)
    for f in list_contract_probe():
        if f.sig not in sigs:
            sigs.add(f.sig)
            out.append(f)
    cov.extra["oracle_failures_seen"] = len(fails)
    return out


def search(ctx: C.Ctx, disagreements, broken) -> List[C.Failing]:
    out: List[C.Failing] = []
    sigs = set()
    for d in disagreements:
        if isinstance(d.case, list) and d.case and isinstance(d.case[0], list):
            f = check_history(d.case)
            if f and f.sig not in sigs:
                sigs.add(f.sig)
                out.append(minimise(f))
    if out:
        return out
    rng = random.Random(f"{ctx.prop}:search:{ctx.seed}")
    for _ in range(1500 if ctx.tier == "quick" else 6000):
        _, _, f = run_history(rng, rng.randint(5, 60))
        if f and f.sig not in sigs:
            sigs.add(f.sig)
            out.append(minimise(f))
            if len(out) >= 3:
                break
    return out


def replay(case) -> Optional[C.Failing]:
    if isinstance(case, list) and len(case) == 4 and case[0] == "lc":
        return (list_contract_probe(case) or [None])[0]
    if isinstance(case, list) and len(case) == 2 and case[0] == "ci":
        return check_ci(case[1])
    return check_history(case)
