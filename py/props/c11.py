"""C11 — every bad request becomes a 4xx result, never a crash or another 5xx; rejected requests leave the store unchanged.
Shares the HTTP machinery, the Lean model (Model/Repo.lean) and the translator with C10 (py/props/c10.py)."""
from __future__ import annotations

import base64
import json
import random
from typing import Any, Dict, List, Optional

from vf import common as C
from props import c10, c10_translate

ID = "C11"
LEAN_MODULE = "Basyx.Props.C11"
LEVEL = "proof"

MANIFEST = {
    "text": "Lean theorems for EVERY state satisfying the store invariant and EVERY request of the model's request space (any method, path "
            "segments with any base64 outcome, Accept/Content-Type class, body class, limit/cursor value), lifted to every request history: "
            "the exception algebra ok | http code | py kind is closed (a Python exception can leave the WSGI callable only out of "
            "update_from itself — every other raisable kind at every modelled call site is mapped, with the except/raise tables regenerated "
            "from http.py); status in 2xx + {400,404,405,409,415,422} + 406 + 501-on-declared-routes; a request answered >= 400 leaves "
            "the store unchanged (handlers mutate only after the last raising step); 4xx/501 bodies are the Result structure, 406 plain. "
            "Tie: request class grid (route x method x id / idShort-path / body / header / query classes) through werkzeug.test.Client with "
            "store snapshots before/after, compared with the model after every request.",
    "note": "partial: 'no request whatsoever raises' over arbitrary bytes also depends on werkzeug, lxml and json internals (exercised by the "
            "malformed stream, not proved); update_from raising on a nested class change is a recorded finding (proved witness); handlers "
            "outside the model (attachments, asset-information, shell/submodel superpath, $reference) are covered by the oracle only",
    "technique": "Lean 4 proof: exception-safety predicate proved for every modelled handler, composed over routing; ast-extracted except/raise/status tables; differential correspondence + no-crash/no-5xx/pure-4xx oracle via werkzeug.test.Client",
}
ASSUMPTIONS = [
    "werkzeug routing, header parsing, multipart parsing and its exception classes' status codes are taken as given",
    "request bodies are abstracted to decode outcomes: a body labelled malformed is one every decoder rejects (checked by the tie on the malformed pool)",
    "base64 / int() of the standard library: their outcome on the raw segment / query value is an input of the model",
]

LITERALS = {"shells", "submodels", "concept-descriptions", "submodel-elements", "submodel-refs", "qualifiers", "$metadata", "$reference", "$value",
            "$path", "asset-information", "thumbnail", "attachment", "invoke", "invoke-async", "operation-status", "operation-results",
            "serialization", "description"}


def route_shape(R: Dict[str, Any]) -> str:
    """generalised path of a request for signatures: identifiers and idShort paths replaced by placeholders"""
    out = []
    prev = None
    for s in R["segs"]:
        if s in LITERALS:
            out.append(s)
        elif prev == "submodel-elements":
            out.append("{path}")
        else:
            out.append("{id}")
        prev = s
    return "/" + "/".join(out)


def declared_501(R: Dict[str, Any], rules) -> bool:
    """is the request's path one of the patterns whose endpoint is `not_implemented` for this method? (routing re-done by hand)"""
    segs = R["segs"]
    for path, methods, ep in rules:
        if ep != "not_implemented":
            continue
        if methods is not None and R["m"] not in methods and not (R["m"] == "HEAD" and "GET" in methods):
            continue
        pat = [p for p in path.split("/") if p]
        if len(pat) != len(segs):
            continue
        if all(p.startswith("<") or p == s for p, s in zip(pat, segs)):
            return True
    return False


_RULES = None


def rules():
    global _RULES
    if _RULES is None:
        _RULES = c10_translate.extract(C.REPO)[0]["rules"]
    return _RULES


def check_history_all(reqs: List[Dict[str, Any]], file_backed: bool = False) -> List[C.Failing]:
    """The statement of C11 over the implementation: no exception out of the WSGI callable, no 5xx other than 501 on a declared
    route, a response >= 400 leaves the store snapshot unchanged and carries the Result structure (406: plain).
    Returns every violation of the history (each with the prefix that leads to it)."""
    srv = c10.Server(file_backed)
    fails: List[C.Failing] = []
    try:
        for k, R in enumerate(reqs):
            before = srv.snapshot()
            out = srv.send(R)
            case = {"mode": "file" if file_backed else "dict", "reqs": reqs[: k + 1]}
            shape = f"{R['m']}:{route_shape(R)}"
            if out[0] == "crash":
                e = out[1] if isinstance(out[1], str) else "".join(str(x) for x in out[1])
                fails.append(C.Failing(f"http:crash:{shape}:{e}", f"{R['m']} {c10.url_of(R)} raised {out[1]} out of the WSGI callable", case, out))
                continue
            status = out[1]
            if status >= 500 and not (status == 501 and declared_501(R, rules())):
                fails.append(C.Failing(f"http:5xx:{shape}:{status}", f"{R['m']} {c10.url_of(R)} answered {status}", case, out))
                continue
            if status >= 400:
                after = srv.snapshot()
                if after != before:
                    fails.append(C.Failing(f"http:4xx-not-pure:{shape}:{status}", f"{R['m']} {c10.url_of(R)} answered {status} but changed the store",
                                           case, after, before))
                    continue
                body = out[3][0]
                want = "plain" if status == 406 else "result"
                if R["m"] != "HEAD" and body != want:
                    fails.append(C.Failing(f"http:4xx-body:{shape}:{status}", f"{R['m']} {c10.url_of(R)} answered {status} with body {out[3]}", case,
                                           out[3], want))
        return fails
    finally:
        srv.close()


def check_history(reqs: List[Dict[str, Any]], file_backed: bool = False) -> Optional[C.Failing]:
    """the violation at the last request of the history if there is one, otherwise the first violation"""
    fs = check_history_all(reqs, file_backed)
    for f in fs:
        if len(f.case["reqs"]) == len(reqs):
            return f
    return fs[0] if fs else None


# ------------------------------------------------------------------------------------------- class grid

ID_CLASSES = ["valid", "valid-unpadded", "unknown", "overpadded", "non-base64", "non-utf8", "non-ascii", "literal-like"]
PATH_CLASSES = ["valid", "unknown", "deep", "below-property", "bad-char", "empty-segment", "numeric", "too-long", "leading-underscore"]
BODY_CLASSES = ["ok", "malformed", "array", "absent", "badct", "wrong-class"]


def id_seg(rng: random.Random, cls: str, i: str) -> str:
    if cls == "valid":
        return c10.b64(i)
    if cls == "valid-unpadded":
        return c10.b64(i, False)
    if cls == "unknown":
        return c10.b64("zz" + i)
    if cls == "overpadded":
        return c10.b64(i) + "=="
    if cls == "non-base64":
        return "A"
    if cls == "non-utf8":
        return base64.urlsafe_b64encode(b"\xff\xfe").decode()
    if cls == "non-ascii":
        return "ä"
    return rng.choice(["$metadata", "$value", "a b"])


def path_seg(rng: random.Random, cls: str, existing: List[List[str]]) -> str:
    if cls == "valid" and existing:
        return ".".join(rng.choice(existing))
    if cls in ("valid", "unknown"):
        return ".".join(c10.rand_path(rng))
    if cls == "deep":
        return ".".join(rng.choice(c10.IDSHORTS) for _ in range(6))
    if cls == "below-property":
        return ".".join((rng.choice(existing) if existing else ["a"]) + ["a", "b"])
    return {"bad-char": "a-b", "empty-segment": "a..b", "numeric": "a.0", "too-long": "a." + "x" * 129, "leading-underscore": "_a"}[cls]


def grid_request(rng: random.Random, snapshot: List[Any], modelled_only: bool) -> Dict[str, Any]:
    """One request of the class grid: a route shape x method x identifier class x path class x body class x header/query variants."""
    sms = [o for o in snapshot if o.get("k") == "sm"]
    target = rng.choice(sms) if sms and rng.random() < 0.7 else None
    i = target["id"] if target else rng.choice(c10.IDS)
    existing = [p for p, _ in c10.all_paths(target["root"])] if target else []
    idc = rng.choice(ID_CLASSES) if rng.random() < 0.5 else "valid"
    pc = rng.choice(PATH_CLASSES) if rng.random() < 0.6 else "valid"
    bc = rng.choice(BODY_CLASSES)
    sid = id_seg(rng, idc, i)
    praw = path_seg(rng, pc, existing)
    qts = [q[0] for q in target["root"].get("q", [])] if target else []
    qraw = rng.choice(qts) if qts and rng.random() < 0.6 else rng.choice(c10.QTYPES)
    qt = c10.b64(qraw) if rng.random() < 0.85 else rng.choice(["A", "ä"])
    shapes = [["shells"], ["shells", sid], ["shells", sid, "submodel-refs"], ["shells", sid, "submodel-refs", c10.b64(rng.choice(c10.IDS))],
              ["submodels"], ["submodels", "$metadata"], ["submodels", sid], ["submodels", sid, "$metadata"],
              ["submodels", sid, "submodel-elements"], ["submodels", sid, "submodel-elements", "$metadata"],
              ["submodels", sid, "submodel-elements", praw], ["submodels", sid, "submodel-elements", praw, "$metadata"],
              ["submodels", sid, "qualifiers"], ["submodels", sid, "qualifiers", qt],
              ["submodels", sid, "submodel-elements", praw, "qualifiers"], ["submodels", sid, "submodel-elements", praw, "qualifiers", qt],
              ["concept-descriptions"], ["concept-descriptions", sid],
              ["serialization"], ["description"], ["submodels", "$value"], ["submodels", sid, "$value"], ["submodels", sid, "$path"],
              ["submodels", sid, "submodel-elements", praw, "invoke"], ["submodels", sid, "submodel-elements", praw, "$value"],
              ["shells", sid, "asset-information", "thumbnail"], ["nothing"], ["submodels", sid, "nothing"]]
    if not modelled_only:
        shapes += [["shells", sid, "asset-information"], ["shells", "$reference"], ["shells", sid, "$reference"], ["submodels", "$reference"],
                   ["submodels", sid, "$reference"], ["submodels", sid, "submodel-elements", "$reference"],
                   ["submodels", sid, "submodel-elements", praw, "$reference"], ["submodels", sid, "submodel-elements", praw, "attachment"],
                   ["shells", sid, "submodels", c10.b64(rng.choice(c10.IDS))], ["shells", sid, "submodels", c10.b64(rng.choice(c10.IDS)), "x", "y"]]
    segs = rng.choice(shapes)
    method = rng.choice(["GET", "GET", "POST", "PUT", "DELETE", "PATCH", "HEAD", "OPTIONS"])
    rename_onto = None
    if qts and len(qts) > 1 and rng.random() < 0.2:
        # a rename of a qualifier onto a type that exists already: must be rejected without touching the store
        segs, method, bc = ["submodels", c10.b64(i), "qualifiers", c10.b64(qraw)], "PUT", "ok"
        rename_onto = rng.choice([t for t in qts if t != qraw] or qts)
    acc = rng.randrange(len(c10.ACCEPTS))
    lim, cur = (rng.choice(c10.QVALS), rng.choice(c10.QVALS)) if rng.random() < 0.4 else (None, None)
    level = rng.choice([None, None, "core", "deep", ""])
    # a payload of the class the route expects (or, for wrong-class, of another one)
    top = segs[0]
    expect = "sm"
    if top == "shells":
        expect = "ref" if "submodel-refs" in segs else "shell"
    elif top == "concept-descriptions":
        expect = "cd"
    elif "qualifiers" in segs:
        expect = "qual"
    elif "submodel-elements" in segs:
        expect = "elem"
    kinds = ["sm", "shell", "cd", "elem", "qual", "ref"]
    k = expect if bc != "wrong-class" else rng.choice([x for x in kinds if x != expect])
    body_id = i if rng.random() < 0.8 else rng.choice(c10.IDS)
    if k in ("sm", "shell", "cd"):
        payload = c10.gen_obj(rng, k, body_id)
    elif k == "elem":
        last = praw.split(".")[-1] if praw.split(".")[-1] in c10.IDSHORTS else rng.choice(c10.IDSHORTS)
        payload = c10.gen_elem(rng, 1, rng.choice([last, last, rng.choice(c10.IDSHORTS), None]))
    elif k == "qual":
        payload = {"k": "qual", "t": rename_onto or (qraw if rng.random() < 0.5 else rng.choice(c10.QTYPES)), "v": rng.randrange(3)}
    else:
        payload = {"k": "ref", "id": rng.choice(c10.IDS)}
    if method in ("POST", "PUT", "PATCH") or rng.random() < 0.05:
        ct, ab, by = c10.body_for(rng, payload, "ok" if bc == "wrong-class" else bc)
        return c10.mk_req(method, segs, acc, ct, ab, by, limit=lim, cursor=cur, level=level)
    return c10.mk_req(method, segs, acc, limit=lim, cursor=cur, level=level)


class GridHistory(c10.Lazy):
    def __init__(self, seed: str, length: int, modelled_only: bool):
        self.rng = random.Random(seed)
        self.length = length
        self.modelled_only = modelled_only

    def requests(self, snapshot_fn):
        for k in range(self.length):
            snap = snapshot_fn()
            # keep some state around so that rejected requests have something they could damage
            if k < 3 or (not snap and self.rng.random() < 0.5):
                yield c10.gen_request(self.rng, 0.0, snap)
            else:
                yield grid_request(self.rng, snap, self.modelled_only)


def correspond(ctx: C.Ctx, cov: C.Coverage) -> List[C.Disagreement]:
    rng = random.Random(f"C11:{ctx.seed}")
    cov.rule = ("request class grid: 28 route shapes (all modelled routes, the declared-unimplemented ones, unknown routes) x 8 methods x 8 identifier "
                "classes (valid, unpadded, unknown, over-padded, non-base64, non-UTF-8, non-ASCII, literal-like) x 9 idShort-path classes x 6 body "
                "classes (ok, malformed from a pool of 17, array, absent, unsupported content type, wrong class) in JSON and XML x 8 Accept x 7 "
                "Content-Type variants x 15 limit/cursor values x level, against stores built up by well-formed requests; status, Location, "
                "payload and the complete store snapshot compared with the model after every request. non-trivial = the request is rejected "
                "for a reason other than unknown route; distinct = (method, route shape, status)")
    hs = [GridHistory(f"g:{ctx.seed}:{k}", rng.randint(8, 16), True) for k in range(ctx.budget(140, 1100))]
    dis: List[C.Disagreement] = []
    lines, impl, index, kept = c10.run_histories(hs, False, None, "dict")
    for h in kept:
        cov.evaluations += len(h)
    for k, l in enumerate(lines):
        if l[0] == "req":
            out = impl[k]
            st = out[1] if out[0] == "resp" else "crash"
            R = kept[index[k][0]][index[k][1]]
            shape = route_shape(R)
            cov.hit(f"{R['m']}:{st}")
            if st == "crash" or (isinstance(st, int) and st >= 400 and not (st == 404 and shape in ("/nothing", "/submodels/{id}/nothing"))):
                cov.nontrivial.add(C.sha([R["m"], shape, st]))
    dis += c10.compare("C11", lines, impl, index, kept, False, "dict store")
    hf = [GridHistory(f"gf:{ctx.seed}:{k}", rng.randint(6, 12), True) for k in range(ctx.budget(12, 120))]
    lines, impl, index, kept2 = c10.run_histories(hf, True, None, "file")
    for h in kept2:
        cov.evaluations += len(h)
    dis += c10.compare("C11", lines, impl, index, kept2, True, "file store")
    cov.samples = [[(R["m"], c10.url_of(R), c10.CTYPES[R["ct"]][0], R["body"] if isinstance(R["body"], str) else "object") for R in kept[0][:8]]]
    cov.extra["neutral_zones"] = ["int() spellings of limit/cursor accepted by Python ('+1', ' 2', '1_0', non-ASCII digits) are answered 200",
                                  "over-padded base64url identifiers are accepted (the decoder appends '==' itself)",
                                  "non-alphabet characters inside a base64url segment are skipped by the standard decoder"]
    return dis


def oracle(ctx: C.Ctx, cov: C.Coverage) -> List[C.Failing]:
    """The property over the implementation alone, on the full grid incl. the handlers outside the Lean model."""
    rng = random.Random(f"C11-oracle:{ctx.seed}")
    out: List[C.Failing] = []
    sigs = set()
    for k in range(ctx.budget(120, 1100)):
        fb = k % 6 == 5
        srv = c10.Server(fb)
        reqs: List[Dict[str, Any]] = []
        try:
            h = GridHistory(f"o:{ctx.seed}:{k}", rng.randint(8, 16), False)
            for R in h.requests(srv.snapshot):
                reqs.append(R)
                srv.send(R)
        finally:
            srv.close()
        # special inputs the grid cannot draw by chance
        if k % 10 == 0:
            reqs += special_requests(rng)
        cov.hit("oracle-histories")
        for f in check_history_all(reqs, fb):
            if f.sig not in sigs:
                sigs.add(f.sig)
                f.case["reqs"] = C.ddmin(f.case["reqs"], lambda rs, f=f, fb=fb: (lambda g: g is not None and g.sig == f.sig)(check_history(rs, fb)), 60)
                out.append(f)
    return out


def special_requests(rng: random.Random) -> List[Dict[str, Any]]:
    i = c10.IDS[0]
    sm = c10.mk_sm(i, None, 1, [], [c10.mk_elem("prop", "a", 1)])
    sh = c10.mk_shell(c10.IDS[2], None, 1, [i])
    P = lambda segs, o, p: c10.mk_req("POST", segs, 1, 0, {"p": p, "o" if p == "obj" else "e": o}, c10.serialise(o, "json"))
    return [P(["submodels"], sm, "obj"), P(["shells"], sh, "obj"),
            c10.mk_req("GET", ["submodels"], 1, limit="99999999999999999999"),
            c10.mk_req("GET", ["submodels"], 1, limit="1", cursor="9223372036854775807"),
            c10.mk_req("GET", ["submodels", "ä"], 1),
            P(["submodels", c10.b64(i), "submodel-elements"], c10.mk_elem("prop", None, 1), "elem"),
            c10.mk_req("DELETE", ["submodels", c10.b64(i)], 1),
            c10.mk_req("PUT", ["shells", c10.b64(c10.IDS[2]), "submodels", c10.b64(i)], 1, 0, {"p": "obj", "o": sm}, c10.serialise(sm, "json")),
            c10.mk_req("DELETE", ["shells", c10.b64(c10.IDS[2]), "submodels", c10.b64(i)], 1)]


def search(ctx: C.Ctx, disagreements, broken) -> List[C.Failing]:
    out: List[C.Failing] = []
    for d in disagreements:
        if isinstance(d.case, dict) and "reqs" in d.case:
            f = check_history(d.case["reqs"], d.case.get("mode") == "file")
            if f:
                out.append(f)
    if out:
        return out
    big = C.Ctx(ctx.prop, "thorough", ctx.seed + 1, random.Random(), ctx.t0, ctx.jobs)
    out = oracle(big, C.Coverage())
    if not out:
        # the sister property's oracle may see what broke; its own recorded findings are not C11's business
        known = {k["sig"] for k in C.load_known("C10")}
        out = [f for f in c10.oracle(big, C.Coverage()) if f.sig not in known]
    return out


def replay(case) -> Optional[C.Failing]:
    if case.get("kind") == "semantic":
        return c10.replay(case)
    return check_history(case["reqs"], case.get("mode") == "file")


def translate(ctx) -> List[str]:
    return c10_translate.translate(ctx)
