"""C11 — every bad request becomes a 4xx result, never a crash or another 5xx; rejected requests leave the store unchanged.
Shares the HTTP machinery, the Lean model (Model/Repo.lean) and the translator with C10 (py/props/c10.py)."""
from __future__ import annotations

import base64
import json
import random
import urllib.parse
from typing import Any, Dict, List, Optional

from vf import common as C
from props import c10, c10_translate

ID = "C11"
LEAN_MODULE = "Basyx.Props.C11"
LEVEL = "proof"

MANIFEST = {
    "text": "Lean theorems for EVERY state satisfying the store invariant and EVERY request of the model's request space (any method, path "
            "segments with any base64 outcome, Accept/Content-Type class, body class, limit/cursor value), lifted to every request history: "
            "the exception algebra ok | http code | py kind is closed (a Python exception can leave the WSGI callable only out of "
            "update_from itself — every other raisable kind at every modelled call site is mapped, with the except/raise tables regenerated "
            "from http.py); status in 2xx + {400,404,405,409,415,422} + 406 + 501-on-declared-routes; a request answered >= 400 leaves "
            "the store unchanged (handlers mutate only after the last raising step); 4xx/501 bodies are the Result structure, 406 plain. "
            "Tie: request class grid (route x method x id / idShort-path / body / header / query classes) through werkzeug.test.Client with "
            "store snapshots before/after, compared with the model after every request."
            " Which reader takes a request body is regenerated from http.py and proved strict (failsafe = False along the MRO) and stripped exactly for level=core (c11_body_readers_strict).",
    "note": "partial: 'no request whatsoever raises' over arbitrary bytes also depends on werkzeug, lxml and json internals (exercised by the "
            "malformed stream and the oracle's structural mutations of JSON/XML documents over the whole metamodel, not proved); exceptions out of "
            "update_from are recorded findings; handlers outside the model (attachments, asset-information, shell/submodel superpath, $reference, "
            "query filters) are covered by the oracle only",
    "technique": "Lean 4 proof: exception-safety predicate proved for every modelled handler, composed over routing; ast-extracted except/raise/status tables; differential correspondence + no-crash/no-5xx/pure-4xx oracle via werkzeug.test.Client",
}
ASSUMPTIONS = [
    "werkzeug routing, header parsing, multipart parsing and its exception classes' status codes are taken as given",
    "request bodies are abstracted to decode outcomes: a body labelled malformed is one every decoder rejects (checked by the tie on the malformed pool)",
    "base64 / int() of the standard library: their outcome on the raw segment / query value is an input of the model",
]

LITERALS = {"shells", "submodels", "concept-descriptions", "submodel-elements", "submodel-refs", "qualifiers", "$metadata", "$reference", "$value",
            "$path", "asset-information", "thumbnail", "attachment", "invoke", "invoke-async", "operation-status", "operation-results",
            "serialization", "description"}


def route_shape(R: Dict[str, Any]) -> str:
    """generalised path of a request for signatures: identifiers and idShort paths replaced by placeholders"""
    out = []
    prev = None
    for s in R["segs"]:
        if s in LITERALS:
            out.append(s)
        elif prev == "submodel-elements":
            out.append("{path}")
        else:
            out.append("{id}")
        prev = s
    return "/" + "/".join(out)


def declared_501(R: Dict[str, Any], rules) -> bool:
    """is the request's path one of the patterns whose endpoint is `not_implemented` for this method? (routing re-done by hand)"""
    segs = R["segs"]
    for path, methods, ep in rules:
        if ep != "not_implemented":
            continue
        if methods is not None and R["m"] not in methods and not (R["m"] == "HEAD" and "GET" in methods):
            continue
        pat = [p for p in path.split("/") if p]
        if len(pat) != len(segs):
            continue
        if all(p.startswith("<") or p == s for p, s in zip(pat, segs)):
            return True
    return False


_RULES = None


def rules():
    global _RULES
    if _RULES is None:
        _RULES = c10_translate.extract(C.REPO)[0]["rules"]
    return _RULES


class Checker:
    """The statement of C11 over the implementation, request by request: no exception out of the WSGI callable, no 5xx other than
    501 on a declared route, a response >= 400 leaves the store and the file container unchanged and carries the Result structure
    (406: plain).  Collects every violation of the history (each with the prefix that leads to it)."""

    def __init__(self, file_backed: bool = False, reclass: bool = False):
        self.fb = file_backed
        self.srv = c10.Server(file_backed)
        self.srv.reclass = reclass and not file_backed
        self.mode = "file" if file_backed else "dict+sub" if reclass else "dict"
        self.reqs: List[Dict[str, Any]] = []
        self.fails: List[C.Failing] = []

    def close(self):
        self.srv.close()

    def step(self, R: Dict[str, Any]) -> Any:
        srv = self.srv
        if srv.reclass:
            c10.reclass_store(srv.store)
        before = srv.snapshot_full()
        out = srv.send(R)
        self.reqs.append(R)
        case = {"mode": self.mode, "reqs": list(self.reqs)}
        shape = f"{R['m']}:{route_shape(R)}"
        url = c10.url_of(R)[:300]
        if out[0] == "crash":
            e = out[1] if isinstance(out[1], str) else "".join(str(x) for x in out[1])
            sig, why = crash_class(R, self.reqs, srv.last_exc)
            self.fails.append(C.Failing(sig or f"http:crash:{shape}:{e}", f"{R['m']} {url} raised {out[1]} out of the WSGI callable"
                                        + (f" ({srv.last_exc[1][:120]})" if srv.last_exc else "") + (f": {why}" if why else ""), case, out))
            return out
        status = out[1]
        if status >= 500 and not (status == 501 and declared_501(R, rules())):
            self.fails.append(C.Failing(f"http:5xx:{shape}:{status}", f"{R['m']} {url} answered {status}", case, out))
            return out
        if R.get("expect4xx") and status < 400:
            fmt = "xml" if "xml" in c10.CTYPES[R["ct"]][1] else "json"
            self.fails.append(C.Failing(f"http:malformed-accepted:{shape}:{fmt}{':core' if R.get('level') else ''}",
                                        f"{R['m']} {url} with the malformed {fmt} body {base64.b64decode(R['bytes'])[:160]!r} answered {status}",
                                        dict(case, kind="malformed-accepted"), status, "4xx"))
            return out
        if status >= 400:
            after = srv.snapshot_full()
            if after != before:
                self.fails.append(C.Failing(f"http:4xx-not-pure:{shape}:{status}", f"{R['m']} {url} answered {status} but changed the store",
                                            case, after, before))
                return out
            body = out[3][0]
            want = "plain" if status == 406 else "result"
            if R["m"] != "HEAD" and body != want:
                self.fails.append(C.Failing(f"http:4xx-body:{shape}:{status}", f"{R['m']} {url} answered {status} with body {str(out[3])[:200]}", case,
                                            out[3], want))
        return out


def check_history_all(reqs: List[Dict[str, Any]], file_backed: Any = False) -> List[C.Failing]:
    """`file_backed`: True | False | a mode string ("file", "dict", "dict+sub")"""
    mode = file_backed if isinstance(file_backed, str) else ("file" if file_backed else "dict")
    chk = Checker(mode == "file", mode == "dict+sub")
    try:
        for R in reqs:
            chk.step(R)
        return chk.fails
    finally:
        chk.close()


def body_depth(R: Dict[str, Any]) -> int:
    """nesting depth of a request body (brackets of a JSON text; of no interest for other bodies)"""
    d = m = 0
    for ch in base64.b64decode(R.get("bytes") or ""):
        if ch in (0x5B, 0x7B):
            d += 1
            m = max(m, d)
        elif ch in (0x5D, 0x7D):
            d -= 1
    return m


NESTING_DEPTH = 300     # recorded finding: JSON documents nested deeper than this (and accepted by the parser) are stored, then not serialisable


def crash_class(R: Dict[str, Any], prefix: List[Dict[str, Any]], exc) -> tuple:
    """Exceptions out of the WSGI callable that belong to a recorded input class get that class's signature (everything else is
    signed by method, route shape and exception class):
      * the response has to be XML and has to carry a string XML cannot represent (lxml refuses it);
      * a request body of this history is nested deeper than NESTING_DEPTH levels and the interpreter's recursion limit is hit
        somewhere else than in the parsing of a body (which has its own except clause);
      * Referable.update_from (PUT) raises AASd-022 because an idShort moves between two NamespaceSets of one namespace;
      * a stored xs:gYear / xs:gYearMonth value of year 0000 with a time zone has to be written (round 4);
      * a stored xs:duration with a field beyond the float range has to be written (round 4)."""
    if exc is None:
        return None, None
    name, msg, frames = exc
    if "http_exception_to_response" in frames:
        return None, None       # raised while an error result was rendered: not one of the recorded classes
    if (name == "ValueError" and "must be XML compatible" in msg or name == "UnicodeEncodeError" and "surrogates not allowed" in msg) \
            and c10.ACCEPTS[R["acc"]][1] in ("xml", "textxml"):
        return "http:crash:xml-response:string-not-xml-representable", "the XML response has to carry a string that XML cannot represent"
    if name == "AASConstraintViolation" and "already present in another set in the same namespace" in msg and "update_nss_from" in frames \
            and R["m"] == "PUT":
        return ("http:crash:PUT:update_from:idshort-moves-between-sets", "the replacement moves an idShort from one NamespaceSet of a namespace that has "
                "several (an Operation's variables) to another; Referable.update_from adds before it removes")
    if name == "ValueError" and "year 0 is out of range" in msg and "_serialize_date_tzinfo" in frames:
        return ("http:crash:response:zoned-year-zero-not-printable", "an xs:gYear / xs:gYearMonth value with year 0000 AND a time zone is parsed "
                "and stored, but xsd_repr() cannot write it (it builds a datetime.date of year 0 to ask the zone for its offset)")
    if name == "OverflowError" and "int too large to convert to float" in msg and "_serialize_duration" in frames:
        return ("http:crash:response:duration-field-not-printable", "an xs:duration with a field of more than 308 digits is parsed and stored, but "
                "xsd_repr() cannot write it (_serialize_duration formats the integer with {:.0f}, i.e. through a float)")
    if name == "RecursionError" and "json_list" not in frames and "xml" not in frames and any(body_depth(Q) > NESTING_DEPTH for Q in prefix):
        return "http:crash:nesting-depth:RecursionError", f"a request body of the history is nested deeper than {NESTING_DEPTH} levels"
    return None, None


def check_history(reqs: List[Dict[str, Any]], file_backed: Any = False) -> Optional[C.Failing]:
    """the violation at the last request of the history if there is one, otherwise the first violation"""
    fs = check_history_all(reqs, file_backed)
    for f in fs:
        if len(f.case["reqs"]) == len(reqs):
            return f
    return fs[0] if fs else None


# ------------------------------------------------------------------------------------------- class grid

ID_CLASSES = ["valid", "valid-unpadded", "unknown", "overpadded", "non-base64", "non-utf8", "non-ascii", "literal-like"]
PATH_CLASSES = ["valid", "unknown", "deep", "below-property", "bad-char", "empty-segment", "numeric", "too-long", "leading-underscore"]
BODY_CLASSES = ["ok", "malformed", "array", "absent", "badct", "wrong-class", "toodeep"]


def id_seg(rng: random.Random, cls: str, i: str) -> str:
    if cls == "valid":
        return c10.b64(i)
    if cls == "valid-unpadded":
        return c10.b64(i, False)
    if cls == "unknown":
        return c10.b64("zz" + i)
    if cls == "overpadded":
        return c10.b64(i) + "=="
    if cls == "non-base64":
        return "A"
    if cls == "non-utf8":
        return base64.urlsafe_b64encode(b"\xff\xfe").decode()
    if cls == "non-ascii":
        return "ä"
    return rng.choice(["$metadata", "$value", "a b"])


def path_seg(rng: random.Random, cls: str, existing: List[List[str]]) -> str:
    if cls == "valid" and existing:
        return ".".join(rng.choice(existing))
    if cls in ("valid", "unknown"):
        return ".".join(c10.rand_path(rng))
    if cls == "deep":
        return ".".join(rng.choice(c10.IDSHORTS) for _ in range(6))
    if cls == "below-property":
        return ".".join((rng.choice(existing) if existing else ["a"]) + ["a", "b"])
    return {"bad-char": "a-b", "empty-segment": "a..b", "numeric": "a.0", "too-long": "a." + "x" * 129, "leading-underscore": "_a"}[cls]


def grid_request(rng: random.Random, snapshot: List[Any], modelled_only: bool) -> Dict[str, Any]:
    """One request of the class grid: a route shape x method x identifier class x path class x body class x header/query variants."""
    sms = [o for o in snapshot if o.get("k") == "sm"]
    target = rng.choice(sms) if sms and rng.random() < 0.7 else None
    i = target["id"] if target else rng.choice(c10.IDS)
    existing = [p for p, _ in c10.all_paths(target["root"])] if target else []
    idc = rng.choice(ID_CLASSES) if rng.random() < 0.5 else "valid"
    pc = rng.choice(PATH_CLASSES) if rng.random() < 0.6 else "valid"
    bc = rng.choice(BODY_CLASSES[:6] * 2 + ["toodeep"])
    sid = id_seg(rng, idc, i)
    praw = path_seg(rng, pc, existing)
    qts = [q[0] for q in target["root"].get("q", [])] if target else []
    qraw = rng.choice(qts) if qts and rng.random() < 0.6 else rng.choice(c10.QTYPES)
    qt = c10.b64(qraw) if rng.random() < 0.85 else rng.choice(["A", "ä"])
    shapes = [["shells"], ["shells", sid], ["shells", sid, "submodel-refs"], ["shells", sid, "submodel-refs", c10.b64(rng.choice(c10.IDS))],
              ["submodels"], ["submodels", "$metadata"], ["submodels", sid], ["submodels", sid, "$metadata"],
              ["submodels", sid, "submodel-elements"], ["submodels", sid, "submodel-elements", "$metadata"],
              ["submodels", sid, "submodel-elements", praw], ["submodels", sid, "submodel-elements", praw, "$metadata"],
              ["submodels", sid, "qualifiers"], ["submodels", sid, "qualifiers", qt],
              ["submodels", sid, "submodel-elements", praw, "qualifiers"], ["submodels", sid, "submodel-elements", praw, "qualifiers", qt],
              ["concept-descriptions"], ["concept-descriptions", sid],
              ["serialization"], ["description"], ["submodels", "$value"], ["submodels", sid, "$value"], ["submodels", sid, "$path"],
              ["submodels", sid, "submodel-elements", praw, "invoke"], ["submodels", sid, "submodel-elements", praw, "$value"],
              ["shells", sid, "asset-information", "thumbnail"], ["nothing"], ["submodels", sid, "nothing"]]
    if not modelled_only:
        shapes += [["shells", sid, "asset-information"], ["shells", "$reference"], ["shells", sid, "$reference"], ["submodels", "$reference"],
                   ["submodels", sid, "$reference"], ["submodels", sid, "submodel-elements", "$reference"],
                   ["submodels", sid, "submodel-elements", praw, "$reference"], ["submodels", sid, "submodel-elements", praw, "attachment"],
                   ["shells", sid, "submodels", c10.b64(rng.choice(c10.IDS))], ["shells", sid, "submodels", c10.b64(rng.choice(c10.IDS)), "x", "y"]]
    segs = rng.choice(shapes)
    method = rng.choice(["GET", "GET", "POST", "PUT", "DELETE", "PATCH", "HEAD", "OPTIONS"])
    rename_onto = None
    if qts and len(qts) > 1 and rng.random() < 0.2:
        # a rename of a qualifier onto a type that exists already: must be rejected without touching the store
        segs, method, bc = ["submodels", c10.b64(i), "qualifiers", c10.b64(qraw)], "PUT", "ok"
        rename_onto = rng.choice([t for t in qts if t != qraw] or qts)
    acc = rng.randrange(len(c10.ACCEPTS))
    lim, cur = (rng.choice(c10.QVALS), rng.choice(c10.QVALS)) if rng.random() < 0.4 else (None, None)
    level = rng.choice([None, None, "core", "deep", ""])
    # a payload of the class the route expects (or, for wrong-class, of another one)
    top = segs[0]
    expect = "sm"
    if top == "shells":
        expect = "ref" if "submodel-refs" in segs else "shell"
    elif top == "concept-descriptions":
        expect = "cd"
    elif "qualifiers" in segs:
        expect = "qual"
    elif "submodel-elements" in segs:
        expect = "elem"
    kinds = ["sm", "shell", "cd", "elem", "qual", "ref"]
    k = expect if bc != "wrong-class" else rng.choice([x for x in kinds if x != expect])
    body_id = i if rng.random() < 0.8 else rng.choice(c10.IDS)
    if k in ("sm", "shell", "cd"):
        payload = c10.gen_obj(rng, k, body_id)
    elif k == "elem":
        last = praw.split(".")[-1] if praw.split(".")[-1] in c10.IDSHORTS else rng.choice(c10.IDSHORTS)
        payload = c10.gen_elem(rng, 1, rng.choice([last, last, rng.choice(c10.IDSHORTS), None]))
    elif k == "qual":
        payload = {"k": "qual", "t": rename_onto or (qraw if rng.random() < 0.5 else rng.choice(c10.QTYPES)), "v": rng.randrange(3)}
    else:
        payload = {"k": "ref", "id": rng.choice(c10.IDS)}
    if method in ("POST", "PUT", "PATCH") or rng.random() < 0.05:
        ct, ab, by = c10.body_for(rng, payload, "ok" if bc == "wrong-class" else bc)
        return c10.mk_req(method, segs, acc, ct, ab, by, limit=lim, cursor=cur, level=level)
    return c10.mk_req(method, segs, acc, limit=lim, cursor=cur, level=level)


# ------------------------------------------------------------------------------------------- the zoo (oracle only)
# Requests outside the request space of the Lean model: payloads over the whole metamodel (every submodel element class,
# references of both kinds in every position, asset information, ...), written as JSON documents by hand (not through the SDK),
# their XML form, structural mutations of both (well-formed JSON/XML that is odd: emptied lists, missing members, members of the
# wrong type, another modelType - in particular one in sub-/superclass relation with the stored element -, duplicated items,
# nesting beyond what the parsers follow), strings XML / HTTP headers / ASCII cannot carry, multipart uploads, further query
# parameters.  The oracle only demands what the statement demands of EVERY request: no exception, no 5xx, a 4xx leaves the
# store and the file container alone and carries the result structure.

ODD_STRINGS = ["", " ", "a\x0bb", "\x00", "a\r\nX-Injected: 1", "a\nb", "\x7f\x85", "ä€", "\U0001F600", "\ud800", "\udfff\ud800", "￾", "￿", " ",
               "x" * 3000, "<a>&amp;]]><!--", "%s%d{0}\\", "'\"", "/", "..", "null", "0"]
# (round 4) file names of uploads around the length limit of the File's value (a PathType: 2000); the first one is drawn often: a second
# upload under a name the container holds already is stored under the name with a counter appended
LONG_NAMES = ["/" + "n" * 1996 + ".b", "/" + "n" * 1990, "/" + "n" * 1999, "/" + "n" * 2000, "/" + "n" * 2100, "/d/" + "n" * 5000 + ".txt"]
HEADER_HOSTILE = ["a\r\nX-Injected: 1", "a\nb", "a\rb", "ä€", "x" * 3000, "a\x0bb", " "]
XML_HOSTILE = ["a\x0bb", "\x00", "\ud800", "\udfff\ud800", "\ufffe", "\uffff", "\x7f\x85", "<a>&amp;]]><!--", "\U0001F600", "a\r\nb"]


def odd(rng: random.Random, key: str = "") -> str:
    """an odd string, mostly one that is hostile to where an attribute of this name travels (HTTP header / XML text)"""
    if key == "contentType" and rng.random() < 0.7:
        return rng.choice(HEADER_HOSTILE)
    if key in ("value", "text", "min", "max", "category", "name") and rng.random() < 0.6:
        return rng.choice(XML_HOSTILE)
    return rng.choice(ODD_STRINGS)


def S(rng: random.Random, nice: str, key: str) -> str:
    """a string-valued attribute: the ordinary value mostly, now and then an odd one"""
    return nice if rng.random() < 0.93 else odd(rng, key)


# (round 4) lexical edge cases per value type - what a type's parser may take and its printer may not give back: zero / five-digit
# years, 24:00:00, leap seconds, zone extremes, NaN / INF spellings, huge integers and decimals, long durations, signs, spaces
TYPED_EDGE = {
    "xs:gYear": ["0000", "0000Z", "0000+01:00", "0001", "9999-14:00", "10000", "-0001", "2020+14:00", "2020-14:00", "2020+14:01", "2020Z"],
    "xs:gYearMonth": ["0000-01", "0000-01Z", "0000-12-05:00", "0001-01+14:00", "9999-12-14:00", "10000-01", "2020-13", "2020-00"],
    "xs:gMonth": ["--01", "--12Z", "--13", "--00", "--12+14:00", "--01--"],
    "xs:gDay": ["---01", "---31Z", "---32", "---00", "---31-14:00"],
    "xs:gMonthDay": ["--02-29", "--02-29Z", "--02-30", "--12-31+14:00", "--04-31"],
    "xs:date": ["0000-01-01", "0001-01-01", "0001-01-01+14:00", "9999-12-31-14:00", "10000-01-01", "-0001-01-01", "2020-02-30", "2020-01-01+14:00",
                "2020-01-01+14:01", "2020-01-01+24:00", "2020-01-01Z"],
    "xs:dateTime": ["0000-01-01T00:00:00", "0001-01-01T00:00:00+14:00", "9999-12-31T23:59:59-14:00", "9999-12-31T24:00:00", "2020-01-01T24:00:00",
                    "2020-12-31T24:00:00Z", "2020-01-01T23:59:60", "2020-01-01T12:00:00.1234567", "2020-01-01T12:00:00.123456789012", "10000-01-01T00:00:00",
                    "-0001-01-01T00:00:00", "2020-01-01T00:00:00+14:00", "2020-01-01T00:00:00+24:00", "2020-01-01T24:00:01"],
    "xs:time": ["24:00:00", "24:00:00Z", "23:59:60", "00:00:00+14:00", "00:00:00-14:00", "12:00:00.1234567", "24:00:00.0", "00:00:00+14:01", "25:00:00"],
    "xs:duration": ["P0D", "-P0D", "P999999999Y", "P99999999999999999999D", "PT0.000001S", "PT0.0000001S", "P1Y2M3DT4H5M6.7S", "-P1Y", "PT1e3S", "P", "PT",
                    "P1.5Y", "PT99999999999999999999999999S", "P99999999999Y99999999999M", "PT1000000000000000H", "P" + "9" * 400 + "D"],
    "xs:double": ["NaN", "INF", "-INF", "+INF", "1e400", "-1e400", "1e-400", "-0", "Infinity", "inf", "nan", "1_0", "0x10", " 1", ".5", "5.", "1E5"],
    "xs:float": ["NaN", "INF", "-INF", "1e400", "3.4028235e39", "inf", "1e39", "-0"],
    "xs:decimal": ["1e5", "NaN", "sNaN", "INF", "Infinity", "-Infinity", "1" + "0" * 400, "0." + "0" * 400 + "1", "-0", "+1.0", ".5", "5.", "1_0", "1E+400",
                   "9" * 4400, "0." + "9" * 5000],
    "xs:integer": ["1" + "0" * 4299, "1" + "0" * 4300, "1" + "0" * 5000, "-" + "9" * 4300, "-0", "+1", "1_0", " 1", "٣", "1.0", "1e3"],
    "xs:long": ["9223372036854775807", "9223372036854775808", "-9223372036854775808", "-9223372036854775809"],
    "xs:int": ["2147483647", "2147483648", "-2147483649"], "xs:short": ["32767", "32768"], "xs:byte": ["127", "128", "-128", "-129"],
    "xs:nonNegativeInteger": ["0", "-0", "-1", "+0", "9" * 4300], "xs:positiveInteger": ["0", "1", "+1"], "xs:nonPositiveInteger": ["0", "1", "-0", "+0"],
    "xs:negativeInteger": ["0", "-1", "-0", "-" + "9" * 4299],
    "xs:unsignedLong": ["18446744073709551615", "18446744073709551616", "-0", "-1"], "xs:unsignedInt": ["4294967295", "4294967296"],
    "xs:unsignedShort": ["65535", "65536"], "xs:unsignedByte": ["255", "256"],
    "xs:boolean": ["true", "false", "1", "0", "True", " true"],
    "xs:hexBinary": ["", "0", "0g", "AB", "ab", " AB", "A B"],
    "xs:base64Binary": ["", "A", "AA==", "AA=", "A A=", "!!!!", "AAAA\n", "=AAA", "AA==AA=="],
    "xs:anyURI": ["", " ", "a b", "ä", "http://["],
    "xs:string": ["", " ", "\t"],
}


def typed_lit(rng: random.Random, value_type: Optional[str] = None) -> tuple:
    """(valueType, lexical form) for a typed attribute: the plain string mostly, otherwise one of the forms C10 replaces by one another
    or an edge case of its type"""
    r = rng.random()
    if value_type is None and r < 0.55:
        return "xs:string", S(rng, rng.choice(["v", "", "1"]), "value")
    if value_type is None and r < 0.7:
        return c10.typed(rng)
    vt = value_type or rng.choice(sorted(TYPED_EDGE))
    return vt, rng.choice(TYPED_EDGE.get(vt) or ["1"])


ELEM_CLASSES = ["Property", "MultiLanguageProperty", "Range", "Blob", "File", "ReferenceElement", "RelationshipElement", "AnnotatedRelationshipElement",
                "Entity", "BasicEventElement", "Operation", "Capability", "SubmodelElementCollection", "SubmodelElementList"]
DEPTHS = [120, 200, 250, 260, 300, 400, 700, 1500, 100000]


def zoo_ref(rng: random.Random, model_ref: Optional[bool] = None, depth: int = 1) -> Dict[str, Any]:
    if model_ref is None:
        model_ref = rng.random() < 0.6
    if model_ref:
        keys = [{"type": "Submodel", "value": rng.choice(c10.IDS)}]
        if rng.random() < 0.4:
            keys += [{"type": "SubmodelElementCollection", "value": rng.choice(c10.IDSHORTS)}, {"type": "Property", "value": rng.choice(c10.IDSHORTS)}][: rng.randint(1, 2)]
        r = {"type": "ModelReference", "keys": keys}
    else:
        r = {"type": "ExternalReference", "keys": [{"type": "GlobalReference", "value": rng.choice(["urn:x", "https://sem/2"])}]}
    if depth > 0 and rng.random() < 0.25:
        r["referredSemanticId"] = zoo_ref(rng, rng.random() < 0.3, depth - 1)
    return r


def zoo_common(rng: random.Random, d: Dict[str, Any]) -> Dict[str, Any]:
    if rng.random() < 0.35:
        d["semanticId"] = zoo_ref(rng)
    if rng.random() < 0.15:
        d["supplementalSemanticIds"] = [zoo_ref(rng) for _ in range(rng.randint(1, 2))]
    if rng.random() < 0.3:
        d["qualifiers"] = [{"type": t, **dict(zip(("valueType", "value"), ("xs:string", S(rng, f"v{rng.randrange(3)}", "value")) if rng.random() < 0.6 else typed_lit(rng))),
                            **({"valueId": zoo_ref(rng)} if rng.random() < 0.3 else {})}
                           for t in c10.QTYPES if rng.random() < 0.6]
        if not d["qualifiers"]:
            del d["qualifiers"]
    if rng.random() < 0.4:
        d["description"] = [{"language": "en", "text": S(rng, f"t{rng.randrange(4)}", "text")}]
    if rng.random() < 0.15:
        d["displayName"] = [{"language": "de", "text": "n"}]
    if rng.random() < 0.15:
        d["category"] = S(rng, rng.choice(["PARAMETER", "x"]), "category")
    if rng.random() < 0.15:
        d["extensions"] = [{"name": "e1", **dict(zip(("valueType", "value"), ("xs:string", "x") if rng.random() < 0.5 else typed_lit(rng))),
                            **({"refersTo": [zoo_ref(rng, True)]} if rng.random() < 0.5 else {})}]
    return d


def zoo_elem(rng: random.Random, ids: Optional[str], depth: int = 2, cls: Optional[str] = None) -> Dict[str, Any]:
    # classes that take part in an inheritance relation among the concrete element classes are drawn more often
    cls = cls or rng.choice(ELEM_CLASSES + [c for c in ELEM_CLASSES if related_classes(c)] * 2)
    d: Dict[str, Any] = {"modelType": cls}
    if ids is not None:
        d["idShort"] = ids
    kids = lambda: [zoo_elem(rng, n, depth - 1) for n in rng.sample(c10.IDSHORTS, rng.randint(0, 2))] if depth > 0 else []
    data = lambda n: zoo_elem(rng, n, 0, rng.choice(["Property", "Range", "MultiLanguageProperty", "Blob", "File", "ReferenceElement"]))
    if cls == "Property":
        vt, v = typed_lit(rng)
        d.update(valueType=vt, value=v)
        if rng.random() < 0.2:
            d["valueId"] = zoo_ref(rng)
    elif cls == "MultiLanguageProperty":
        d["value"] = [{"language": "en", "text": S(rng, "x", "text")}]
    elif cls == "Range":
        if rng.random() < 0.5:
            d.update(valueType="xs:int", min="1", max="2")
        else:
            vt, lo = typed_lit(rng, rng.choice(sorted(TYPED_EDGE)))
            d.update(valueType=vt, min=lo, max=rng.choice([lo, typed_lit(rng, vt)[1]]))
    elif cls == "Blob":
        d.update(contentType=S(rng, rng.choice(c10.ATT_CTYPES), "contentType"))
        if rng.random() < 0.7:
            d["value"] = base64.b64encode(rng.choice(c10.FILE_BYTES)).decode("ascii")
    elif cls == "File":
        d.update(contentType=S(rng, rng.choice(c10.ATT_CTYPES), "contentType"))
        if rng.random() < 0.4:
            d["value"] = S(rng, rng.choice(c10.FILE_NAMES + ["http://x/y.txt", "file.txt"]), "value")
    elif cls == "ReferenceElement":
        if rng.random() < 0.8:
            d["value"] = zoo_ref(rng)
    elif cls in ("RelationshipElement", "AnnotatedRelationshipElement"):
        d.update(first=zoo_ref(rng), second=zoo_ref(rng))
        if cls == "AnnotatedRelationshipElement" and rng.random() < 0.6:
            d["annotations"] = [data(n) for n in rng.sample(c10.IDSHORTS, rng.randint(1, 2))]
    elif cls == "Entity":
        if rng.random() < 0.5:
            d.update(entityType="SelfManagedEntity", globalAssetId="urn:asset")
        else:
            d.update(entityType="CoManagedEntity")
        if rng.random() < 0.5:
            d["statements"] = kids()
    elif cls == "BasicEventElement":
        d.update(observed=zoo_ref(rng, True), direction=rng.choice(["input", "output"]), state=rng.choice(["on", "off"]))
    elif cls == "Operation":
        for k in ("inputVariables", "outputVariables", "inoutputVariables"):
            if rng.random() < 0.4:
                d[k] = [{"value": data(n)} for n in rng.sample(c10.IDSHORTS, rng.randint(1, 2))]
    elif cls == "SubmodelElementCollection":
        d["value"] = kids()
    elif cls == "SubmodelElementList":
        # (round 4) element class x value type x semanticIdListElement, with children that fit (c10.doc_list) - a replacement of a stored
        # list is then mostly a list of another type; now and then the type attributes do not fit the children
        d = c10.doc_list(rng, ids)
        x = rng.random()
        if x < 0.1:
            d["typeValueListElement"] = rng.choice(c10.LIST_TYPES + ["SubmodelElementList", "Operation"])
        elif x < 0.2:
            d["valueTypeListElement"] = rng.choice(sorted(TYPED_EDGE))
        elif x < 0.25:
            d.pop("valueTypeListElement", None)
        elif x < 0.3:
            d["semanticIdListElement"] = zoo_ref(rng)
        elif x < 0.4 and d.get("value"):
            d["value"].append(zoo_elem(rng, None, 1))
        return d
    return zoo_common(rng, d)


def zoo_doc(rng: random.Random, kind: str, i: str, ids: Optional[str] = None) -> Dict[str, Any]:
    """a JSON document of the class `kind` (sm | shell | cd | elem | qual | ref | ainfo)"""
    if kind == "sm":
        d = {"modelType": "Submodel", "id": i, "submodelElements": [zoo_elem(rng, n) for n in rng.sample(c10.IDSHORTS, rng.randint(0, 3))]}
        if rng.random() < 0.5:
            d["idShort"] = rng.choice(["x1", "sh"])
        if rng.random() < 0.3:
            d["kind"] = rng.choice(["Instance", "Template"])
        if rng.random() < 0.2:
            d["administration"] = {"version": "1", "revision": "0"}
        return zoo_common(rng, d)
    if kind == "shell":
        ai: Dict[str, Any] = {"assetKind": rng.choice(["Instance", "Type", "NotApplicable"]), "globalAssetId": "g"}
        if rng.random() < 0.4:
            ai["specificAssetIds"] = [{"name": "n", "value": "v", **({"externalSubjectId": zoo_ref(rng, False, 0)} if rng.random() < 0.5 else {})}]
        d = {"modelType": "AssetAdministrationShell", "id": i, "assetInformation": ai}
        if rng.random() < 0.7:
            d["submodels"] = [dict(zoo_ref(rng, True, 1), keys=[{"type": "Submodel", "value": x}]) for x in rng.sample(c10.IDS, rng.randint(1, 2))]
        if rng.random() < 0.3:
            d["derivedFrom"] = {"type": "ModelReference", "keys": [{"type": "AssetAdministrationShell", "value": rng.choice(c10.IDS)}]}
        if rng.random() < 0.5:
            d["idShort"] = rng.choice(["x1", "sh"])
        d = zoo_common(rng, d)
        d.pop("semanticId", None), d.pop("supplementalSemanticIds", None), d.pop("qualifiers", None)
        return d
    if kind == "cd":
        d = {"modelType": "ConceptDescription", "id": i}
        if rng.random() < 0.5:
            d["isCaseOf"] = [zoo_ref(rng, False, 0)]
        d = zoo_common(rng, d)
        d.pop("semanticId", None), d.pop("supplementalSemanticIds", None), d.pop("qualifiers", None)
        return d
    if kind == "elem":
        return zoo_elem(rng, ids)
    if kind == "qual":
        return {"type": rng.choice(c10.QTYPES), "valueType": "xs:string", "value": "v1", **({"valueId": zoo_ref(rng)} if rng.random() < 0.5 else {}),
                **({"semanticId": zoo_ref(rng)} if rng.random() < 0.3 else {})}
    if kind == "ref":
        keys = [{"type": "Submodel", "value": i}]
        if rng.random() < 0.35:
            # (round 5) a reference that goes on into the submodel: the XML reader takes it as it is
            keys += [{"type": rng.choice(["Property", "SubmodelElementCollection", "Blob", "File"]), "value": n}
                     for n in rng.sample(c10.IDSHORTS, rng.choice([1, 1, 2]))]
        return dict(zoo_ref(rng, True, 1), keys=keys)
    if kind == "ainfo":
        return {"assetKind": "Instance", "globalAssetId": "g2", "specificAssetIds": [{"name": "n", "value": "v"}]}
    raise ValueError(kind)


def _paths(doc: Any, pre=()) -> List[tuple]:
    out = [pre]
    if isinstance(doc, dict):
        for k, v in doc.items():
            out += _paths(v, pre + (k,))
    elif isinstance(doc, list):
        for k, v in enumerate(doc):
            out += _paths(v, pre + (k,))
    return out


def _get(doc, path):
    for k in path:
        doc = doc[k]
    return doc


def _set(doc, path, v):
    if not path:
        return v
    _get(doc, path[:-1])[path[-1]] = v
    return doc


def nest(shape: str, depth: int) -> bytes:
    """documents nested `depth` levels deep"""
    if shape == "array":
        return b"[" * depth + b"]" * depth
    if shape == "open-array":
        return b"[" * depth
    if shape == "object":
        return b'{"a":' * depth + b"1" + b"}" * depth
    if shape == "collection":     # a well-formed submodel element: collections within collections
        return (b'{"modelType":"SubmodelElementCollection","idShort":"c1","value":[' * depth + b'{"modelType":"Property","idShort":"a","valueType":"xs:string"}'
                + b"]}" * depth)
    if shape == "list":           # lists within lists
        return (b'{"modelType":"SubmodelElementList","idShort":"c1","typeValueListElement":"SubmodelElementList","value":['
                + b'{"modelType":"SubmodelElementList","typeValueListElement":"SubmodelElementList","value":[' * (depth - 1) + b"]}" * depth)
    if shape == "xml":
        return b'<a xmlns="https://admin-shell.io/aas/3/0">' + b"<a>" * depth + b"</a>" * depth + b"</a>"
    if shape == "xml-collection":     # (round 4) the XML form of "collection": well-formed elements the constructors recurse into
        o = b"<aas:submodelElementCollection><aas:idShort>c1</aas:idShort><aas:value>"
        c = b"</aas:value></aas:submodelElementCollection>"
        return (o.replace(b">", b' xmlns:aas="https://admin-shell.io/aas/3/0">', 1) + o * (depth - 1)
                + b"<aas:property><aas:idShort>a</aas:idShort><aas:valueType>xs:string</aas:valueType></aas:property>" + c * depth)
    if shape == "xml-list":
        o = b"<aas:submodelElementList><aas:typeValueListElement>SubmodelElementList</aas:typeValueListElement><aas:value>"
        c = b"</aas:value></aas:submodelElementList>"
        first = o.replace(b">", b' xmlns:aas="https://admin-shell.io/aas/3/0"><aas:idShort>c1</aas:idShort>', 1)
        return first + o * (depth - 1) + c * depth
    if shape == "xml-entity":
        o = b"<aas:entity><aas:idShort>c1</aas:idShort><aas:entityType>CoManagedEntity</aas:entityType><aas:statements>"
        c = b"</aas:statements></aas:entity>"
        return o.replace(b">", b' xmlns:aas="https://admin-shell.io/aas/3/0">', 1) + o * (depth - 1) + c * depth
    raise ValueError(shape)


def mutate_json(rng: random.Random, doc: Any) -> Any:
    """one structural mutation; the result is a well-formed JSON value"""
    import copy as _copy
    doc = _copy.deepcopy(doc)
    ps = _paths(doc)
    lists = [p for p in ps if isinstance(_get(doc, p), list)]
    dicts = [p for p in ps if isinstance(_get(doc, p), dict)]
    strs = [p for p in ps if isinstance(_get(doc, p), str)]
    inner = [p for p in ps if p]
    m = rng.choice(["empty-list", "empty-list", "drop-member", "drop-member", "wrong-type", "odd-string", "odd-string", "model-type", "duplicate-item",
                    "unknown-member", "ref-type", "wrap", "null-member", "deep-member", "key-type"])
    try:
        if m == "empty-list" and lists:
            p = rng.choice(lists)
            doc = _set(doc, p, [])
        elif m == "drop-member" and dicts:
            p = rng.choice(dicts)
            d = _get(doc, p)
            if d:
                del d[rng.choice(sorted(d))]
        elif m == "wrong-type" and inner:
            doc = _set(doc, rng.choice(inner), rng.choice([None, [], {}, 0, -1, 1.5, True, "x", [[]], [None], {"a": 1}, 10 ** 30]))
        elif m == "null-member" and inner:
            doc = _set(doc, rng.choice(inner), None)
        elif m == "odd-string" and strs:
            free = [p for p in strs if p[-1] in ("value", "text", "contentType", "min", "max", "category", "name", "globalAssetId", "version", "revision")]
            p = rng.choice(free if free and rng.random() < 0.6 else strs)
            doc = _set(doc, p, odd(rng, p[-1] if p and isinstance(p[-1], str) else ""))
        elif m == "model-type":
            ts = [p for p in strs if p and p[-1] == "modelType"]
            if ts:
                doc = _set(doc, rng.choice(ts), rng.choice(ELEM_CLASSES + ["Submodel", "AssetAdministrationShell", "ConceptDescription", "DataElement", "Nonsense"]))
        elif m == "duplicate-item" and lists:
            l = _get(doc, rng.choice(lists))
            if l:
                l.append(_copy.deepcopy(rng.choice(l)))
        elif m == "unknown-member" and dicts:
            _get(doc, rng.choice(dicts))[rng.choice(["x", "modelType", "keys", "value", "id"])] = rng.choice(["y", [], {}, None])
        elif m == "ref-type":
            ts = [p for p in strs if p and p[-1] == "type" and _get(doc, p) in ("ModelReference", "ExternalReference")]
            if ts:
                p = rng.choice(ts)
                doc = _set(doc, p, "ExternalReference" if _get(doc, p) == "ModelReference" else "ModelReference")
        elif m == "key-type":
            ts = [p for p in strs if len(p) >= 3 and p[-1] == "type" and p[-3] == "keys"]
            if ts:
                doc = _set(doc, rng.choice(ts), rng.choice(["Submodel", "Property", "GlobalReference", "FragmentReference", "AssetAdministrationShell", "Nonsense"]))
        elif m == "wrap":
            doc = rng.choice([[doc], [doc, doc], {"a": doc}, [[doc]]])
        elif m == "deep-member" and inner:
            doc = _set(doc, rng.choice(inner), f"@@DEEP{rng.choice([150, 400, 1100])}@@")      # expanded by json_bytes
    except (KeyError, IndexError, TypeError):
        pass
    return doc


def json_bytes(doc: Any) -> bytes:
    import re
    txt = json.dumps(doc)
    return re.sub(r'"@@DEEP(\d+)@@"', lambda m: "[" * int(m.group(1)) + '"x"' + "]" * int(m.group(1)), txt).encode("ascii")


def xml_of(kind: str, doc: Dict[str, Any]) -> Optional[bytes]:
    """the XML form of a JSON document (through the SDK: its JSON reader and its XML writer), None if the SDK does not take it"""
    from basyx.aas import model
    from basyx.aas.adapter.json import StrictAASFromJsonDecoder as D
    from basyx.aas.adapter.xml import xml_serialization
    from basyx.aas.adapter._generic import XML_NS_MAP
    from lxml import etree
    NS = "{" + XML_NS_MAP["aas"] + "}"
    try:
        if kind in ("sm", "shell", "cd", "elem"):
            o = json.loads(json.dumps(doc), cls=D)
            if not isinstance(o, model.Referable):
                return None
            return etree.tostring(xml_serialization.object_to_xml_element(o))
        if kind == "qual":
            return etree.tostring(xml_serialization.qualifier_to_xml(D._construct_qualifier(doc), NS + "qualifier"))
        if kind == "ref":
            return etree.tostring(xml_serialization.reference_to_xml(D._construct_model_reference(doc, model.Submodel), NS + "reference"))
        if kind == "ainfo":
            return etree.tostring(xml_serialization.asset_information_to_xml(D._construct_asset_information(doc, model.AssetInformation), NS + "assetInformation"))
    except Exception:
        return None
    return None


def mutate_xml(rng: random.Random, data: bytes) -> bytes:
    """one structural mutation of a well-formed XML document; the result is well-formed"""
    from lxml import etree
    import copy as _copy
    try:
        root = etree.fromstring(data)
    except Exception:
        return data
    els = list(root.iter())
    inner = [e for e in els if e is not root]
    leaves = [e for e in els if len(e) == 0]
    m = rng.choice(["clear", "clear", "remove", "remove", "text", "text", "duplicate", "rename", "swap", "root"])
    try:
        if m == "clear" and inner:
            e = rng.choice([e for e in inner if len(e)] or inner)
            for c in list(e):
                e.remove(c)
            e.text = None
        elif m == "remove" and inner:
            e = rng.choice(inner)
            e.getparent().remove(e)
        elif m == "text" and leaves:
            e = rng.choice(leaves)
            t = rng.choice([x for x in ODD_STRINGS if x and x.isprintable() and not any(0xD800 <= ord(c) <= 0xDFFF or ord(c) in (0xFFFE, 0xFFFF) for c in x)]
                           + ["ModelReference", "ExternalReference", "Submodel", "xs:int", "true", "-1"])
            e.text = t
        elif m == "duplicate" and inner:
            e = rng.choice(inner)
            e.addnext(_copy.deepcopy(e))
        elif m == "rename" and inner:
            e = rng.choice(inner)
            ns = e.tag.split("}")[0] + "}" if "}" in e.tag else ""
            e.tag = ns + rng.choice(["relationshipElement", "annotatedRelationshipElement", "property", "submodelElementCollection", "file", "blob", "submodel",
                                     "keys", "key", "value", "reference", "x"])
        elif m == "swap" and len(inner) > 1:
            a, b = rng.sample(inner, 2)
            a.tag, b.tag = b.tag, a.tag
        elif m == "root":
            ns = root.tag.split("}")[0] + "}" if "}" in root.tag else ""
            root.tag = rng.choice([ns, ""]) + rng.choice(["submodel", "assetAdministrationShell", "conceptDescription", "property", "reference", "qualifier", "x"])
    except Exception:
        return data
    return etree.tostring(root)


_RELATED: Dict[str, List[str]] = {}


def related_classes(cls: str) -> List[str]:
    """the concrete submodel element classes in sub-/superclass relation with `cls` (read off the SDK's class hierarchy)"""
    if not _RELATED:
        from basyx.aas import model
        def subs(c):
            for x in c.__subclasses__():
                yield x
                yield from subs(x)
        concrete = {c.__name__: c for c in subs(model.SubmodelElement) if c.__name__ in ELEM_CLASSES}
        for n, c in concrete.items():
            _RELATED[n] = sorted(m for m, d in concrete.items() if m != n and (issubclass(d, c) or issubclass(c, d)))
    return _RELATED.get(cls, [])


ABS_CLASS = {"prop": "Property", "coll": "SubmodelElementCollection", "file": "File", "blob": "Blob"}


def zoo_like(rng: random.Random, stored: Dict[str, Any], depth: int = 2) -> Dict[str, Any]:
    """(round 4) a document for the replacement of a stored element (as the snapshot shows it): its idShort, mostly its class (so that
    update_from works in place and meets, e.g., a list of another type), and below a collection mostly the stored children again"""
    cls = stored_class(stored)
    d = zoo_elem(rng, stored.get("ids"), depth, cls if cls in ELEM_CLASSES and rng.random() < 0.85 else None)
    if d.get("modelType") == "SubmodelElementCollection" and stored.get("ch") and depth > 0:
        kept = [zoo_like(rng, c, depth - 1) for c in stored["ch"] if rng.random() < 0.75]
        d["value"] = kept + [c for c in d.get("value", []) if all(c.get("idShort") != k.get("idShort") for k in kept)]
    return d


def stored_class(e: Optional[Dict[str, Any]]) -> Optional[str]:
    if e is None:
        return None
    k = e.get("k", "")
    return ABS_CLASS.get(k) or (k[6:] if k.startswith("other:") else None)


def zoo_request(rng: random.Random, snapshot: List[Any], setup: bool = False) -> Dict[str, Any]:
    """setup: a well-formed POST of a submodel (mostly) or a shell, as it is (something for the later requests to work on)"""
    by = lambda k: [o for o in snapshot if o.get("k") == k]
    sms, shells, cds = by("sm"), by("shell"), by("cd")
    if setup:
        kind = "sm" if not sms or rng.random() < 0.7 else "shell"
        i = rng.choice([x for x in c10.IDS if all(o.get("id") != x for o in snapshot)] or c10.IDS)
        doc = zoo_doc(rng, kind, i)
        if kind == "sm" and len(doc["submodelElements"]) < 2:
            doc["submodelElements"] = [zoo_elem(rng, n) for n in c10.IDSHORTS]
        if kind == "sm":
            # (round 4) something for the attachment requests to work on: a File that can take an upload, a File whose value names a
            # file the container does not hold (or an external one)
            if rng.random() < 0.75:
                doc["submodelElements"].append({"modelType": "File", "idShort": "f1", "contentType": rng.choice(c10.ATT_CTYPES)})
            if rng.random() < 0.5:
                doc["submodelElements"].append({"modelType": "File", "idShort": "f2", "contentType": rng.choice(c10.ATT_CTYPES),
                                                "value": rng.choice(c10.FILE_NAMES + ["/f/never-uploaded.bin", "http://x/y.txt"])})
        return c10.mk_req("POST", [c10.TOP[kind]], rng.choice([0, 1, 2]), 0, "raw", json_bytes(doc))
    acc = rng.choice([0, 1, 2, 2, 3, 4, 6, 7, rng.randrange(len(c10.ACCEPTS))])
    level = rng.choice([None, None, None, "core", "deep"])
    r = rng.random()
    tsm = rng.choice(sms) if sms and rng.random() < 0.85 else None
    smid = tsm["id"] if tsm else rng.choice(c10.IDS)
    paths = c10.all_paths(tsm["root"]) if tsm else []
    seg = lambda i: c10.b64(i, rng.random() < 0.7)
    kind = "sm"
    doc: Any = None
    method, segs = "GET", ["submodels"]
    xq = None
    form = None
    if r < 0.16 or not sms:
        i = rng.choice([x for x in c10.IDS if all(o.get("id") != x for o in snapshot)] or c10.IDS)
        method, segs, kind, doc = "POST", ["submodels"], "sm", zoo_doc(rng, "sm", i)
    elif r < 0.24:
        method, segs, kind, doc = "PUT", ["submodels", seg(smid)], "sm", zoo_doc(rng, "sm", smid if rng.random() < 0.9 else rng.choice(c10.IDS))
        if tsm and tsm["root"].get("ch") and rng.random() < 0.6:
            kept = [zoo_like(rng, c) for c in tsm["root"]["ch"] if rng.random() < 0.75]
            doc["submodelElements"] = kept + [c for c in doc["submodelElements"] if all(c.get("idShort") != k.get("idShort") for k in kept)]
    elif r < 0.36:
        colls = [p for p, e in paths if stored_class(e) in ("SubmodelElementCollection",)]
        p = rng.choice(colls) if colls and rng.random() < 0.4 else []
        method, segs, kind = "POST", ["submodels", seg(smid), "submodel-elements"] + ([".".join(p)] if p else []), "elem"
        doc = zoo_elem(rng, rng.choice(c10.IDSHORTS + [None]) if rng.random() < 0.9 else rng.choice(ODD_STRINGS))
    elif r < 0.54:
        # PUT of an element: mostly onto one that is stored, with its own class, a class related to it by inheritance, or any other
        if paths and rng.random() < 0.9:
            with_rel = [(p, e) for p, e in paths if related_classes(stored_class(e) or "")]
            lists = [(p, e) for p, e in paths if stored_class(e) == "SubmodelElementList" or "SubmodelElementList" in json.dumps(e)]
            p, e = rng.choice(lists if lists and rng.random() < 0.3 else with_rel if with_rel and rng.random() < 0.5 else paths)
            cls = stored_class(e)
            rel = related_classes(cls) if cls else []
            x = rng.random()
            body_cls = cls if (x < 0.4 or not rel and x < 0.75) and cls in ELEM_CLASSES else (rng.choice(rel) if rel and x < 0.8 else rng.choice(ELEM_CLASSES))
        else:
            p, body_cls, e = c10.rand_path(rng), rng.choice(ELEM_CLASSES), None
        method, segs, kind = "PUT", ["submodels", seg(smid), "submodel-elements", ".".join(p)], "elem"
        doc = zoo_elem(rng, p[-1] if rng.random() < 0.9 else rng.choice(c10.IDSHORTS), 2, body_cls)
        if e is not None and body_cls == "SubmodelElementCollection" and e.get("ch") and rng.random() < 0.7:
            doc = zoo_like(rng, e)
    elif r < 0.62:
        sh = rng.choice(shells)["id"] if shells and rng.random() < 0.8 else rng.choice(c10.IDS)
        x = rng.random()
        if x < 0.4 or not shells:
            method, segs, kind, doc = "POST", ["shells"], "shell", zoo_doc(rng, "shell", rng.choice(c10.IDS))
        elif x < 0.6:
            method, segs, kind, doc = "PUT", ["shells", seg(sh)], "shell", zoo_doc(rng, "shell", sh)
        elif x < 0.75:
            method, segs, kind, doc = "PUT", ["shells", seg(sh), "asset-information"], "ainfo", zoo_doc(rng, "ainfo", sh)
        elif x < 0.9:
            method, segs, kind, doc = "POST", ["shells", seg(sh), "submodel-refs"], "ref", zoo_doc(rng, "ref", smid)
        else:
            method, segs, kind, doc = "PUT", ["shells", seg(sh), "submodels", seg(smid)], "sm", zoo_doc(rng, "sm", smid)
    elif r < 0.67:
        i = rng.choice(cds)["id"] if cds and rng.random() < 0.6 else rng.choice(c10.IDS)
        if rng.random() < 0.5:
            method, segs, kind, doc = "POST", ["concept-descriptions"], "cd", zoo_doc(rng, "cd", i)
        else:
            method, segs, kind, doc = "PUT", ["concept-descriptions", seg(i)], "cd", zoo_doc(rng, "cd", i)
    elif r < 0.73:
        p = rng.choice(paths)[0] if paths and rng.random() < 0.5 else None
        base = ["submodels", seg(smid)] + (["submodel-elements", ".".join(p)] if p else []) + ["qualifiers"]
        doc, kind = zoo_doc(rng, "qual", ""), "qual"
        if rng.random() < 0.5:
            method, segs = "POST", base
        else:
            method, segs = "PUT", base + [seg(rng.choice(c10.QTYPES))]
    elif r < 0.85:
        # attachments: uploads (well-formed and not), downloads, deletions — mostly on Files / Blobs that exist
        atts = [p for p, e in paths if stored_class(e) in ("File", "Blob")]
        p = rng.choice(atts) if atts and rng.random() < 0.85 else (rng.choice(paths)[0] if paths else c10.rand_path(rng))
        method = rng.choice(["PUT", "PUT", "GET", "GET", "GET", "DELETE"])
        free = [(p2, e) for p2, e in paths if e.get("k") == "file" and not e.get("val")]
        stored_cty = None
        if method == "PUT" and free and rng.random() < 0.7:
            p, e = rng.choice(free)         # a File that can take an upload, mostly with the content type it asks for
            stored_cty = e.get("cty")
        segs = ["submodels", seg(smid), "submodel-elements", ".".join(p), "attachment"]
        if method == "PUT":
            fname = rng.choice(c10.FILE_NAMES * 4 + ["a.txt", None] + ODD_STRINGS[:8] + ["/" + x for x in ODD_STRINGS] + LONG_NAMES + LONG_NAMES[:1] * 5)
            mime = rng.choice(c10.ATT_CTYPES * 3 + ["", "text/plain; charset=x", ODD_STRINGS[4]])
            if stored_cty is not None and rng.random() < 0.8:
                mime = stored_cty
            form = {"fileName": fname, "file": rng.choice([[base64.b64encode(rng.choice(c10.FILE_BYTES)).decode("ascii"), rng.choice(["a.txt", "", "ä"]), mime]] * 6 + [None])}
    else:
        # reads with further query parameters: filters (well-formed and not), redirects, references, metadata
        sho = rng.choice(shells) if shells and rng.random() < 0.8 else None
        sh = sho["id"] if sho else rng.choice(c10.IDS)
        if sho and sho.get("refs") and rng.random() < 0.8:
            smid = rng.choice(sho["refs"])        # the routes through a shell's reference: mostly one that it holds
        p = rng.choice(paths)[0] if paths and rng.random() < 0.7 else c10.rand_path(rng)
        # the JSON documents that travel in query parameters: as they are, or mutated like the bodies
        qdoc = lambda d: c10.b64(json_bytes(d if rng.random() < 0.5 else mutate_json(rng, d)).decode("ascii"))
        ref_b64 = qdoc(zoo_ref(rng, None, 1))
        said = qdoc({"name": "n", "value": "v", **({"externalSubjectId": zoo_ref(rng, False, 0)} if rng.random() < 0.4 else {})})
        segs = rng.choice([["shells", seg(sh), "submodels", seg(smid)], ["shells", seg(sh), "submodels", seg(smid), "submodel-elements", ".".join(p)],
                           ["shells", seg(sh), "submodels", seg(smid)], ["submodels"], ["shells"], ["shells", "$reference"], ["submodels", "$reference"],
                           ["submodels", "$metadata"], ["submodels", seg(smid), "$reference"], ["submodels", seg(smid), "submodel-elements", "$reference"],
                           ["submodels", seg(smid), "submodel-elements", ".".join(p), "$reference"], ["submodels", seg(smid), "submodel-elements", ".".join(p), "$metadata"],
                           ["shells", seg(sh), "asset-information"], ["shells", seg(sh), "$reference"], ["concept-descriptions"]])
        if segs[:1] == ["shells"] and len(segs) == 4 and segs[2] == "submodels" and rng.random() < 0.25:
            method = "DELETE"             # (round 5) removal of a submodel through the reference a shell holds
        xq = rng.choice([None, "x=ä", "x=%FF", "ä", "level=cor\xe9", "idShort=x1", "idShort=" + urllib.parse.quote(rng.choice(ODD_STRINGS[:9]), errors="surrogatepass"),
                         "semanticId=" + ref_b64, "semanticId=" + ref_b64, "semanticId=" + ref_b64, "semanticId=A", "semanticId=" + c10.b64("[]"),
                         "assetIds=" + said, "assetIds=" + said, "assetIds=" + said + "&assetIds=" + c10.b64("5"), "assetIds=%FF", "limit=1&limit=x",
                         "cursor=1&x=" + "y" * 3000, "a=1&a=2&b[]=3;c", "=", "&&", "%", "%00", "x=\x00y"])
    # the body: the document as JSON or XML, as it is or mutated
    if doc is None:
        return c10.mk_req(method, segs, acc, level=level, xq=xq, form=form)
    fmt_xml = rng.random() < 0.35
    x = rng.random()
    ct = rng.choice([1, 2, 3]) if fmt_xml else rng.choice([0, 0, 4])
    if x < 0.07:
        d = rng.choice(DEPTHS)
        shape = rng.choice(["xml", "xml-collection", "xml-collection", "xml-list", "xml-entity"]) if fmt_xml else \
            rng.choice(["array", "open-array", "object", "collection", "collection", "list"])
        data = nest(shape, min(d, 3000) if shape in ("collection", "list") or shape.startswith("xml-") else d)
        if shape in ("collection", "list") and kind == "sm":
            data = b'{"modelType":"Submodel","id":' + json.dumps(doc.get("id", "s")).encode() + b',"submodelElements":[' + data + b"]}"
        elif shape.startswith("xml-") and kind == "sm":
            from xml.sax.saxutils import escape
            data = (b'<aas:submodel xmlns:aas="https://admin-shell.io/aas/3/0"><aas:id>' + escape(str(doc.get("id", "s"))).encode("utf-8")
                    + b"</aas:id><aas:submodelElements>" + data + b"</aas:submodelElements></aas:submodel>")
    elif fmt_xml:
        # the XML form: through the SDK (its JSON reader and XML writer), or - what the SDK does not take or cannot write (round 4: a value
        # its printer refuses) and now and then anyway - through the hand-written correspondence of the two formats
        data = None if kind in ("sm", "elem", "shell", "cd") and rng.random() < 0.3 else xml_of(kind, doc)
        if data is None and isinstance(doc, dict) and isinstance(doc.get("modelType"), str) and doc["modelType"]:
            try:
                data = c10.xml_of_doc(doc)
            except Exception:       # a document that has no XML form (a string XML cannot carry, a member that is no string ...)
                data = None
        if data is None:
            ct, data = 0, json_bytes(doc)
        elif x < 0.5:
            for _ in range(rng.choice([1, 1, 2])):
                data = mutate_xml(rng, data)
    else:
        if x < 0.5:
            for _ in range(rng.choice([1, 1, 2])):
                doc = mutate_json(rng, doc)
        data = json_bytes(doc)
    if rng.random() < 0.03:
        ct = rng.choice([5, 6])
    return c10.mk_req(method, segs, acc, ct, "raw", data, level=level, xq=xq)


def read_back(rng: random.Random, R: Dict[str, Any], out: Any, snap: List[Any]) -> List[Dict[str, Any]]:
    """after an accepted write: the written resource read in the other representation(s), the attachments of its Files / Blobs"""
    if R["m"] not in ("POST", "PUT") or out[0] != "resp" or not 200 <= out[1] < 300:
        return []
    segs = R["segs"]
    top = segs[0] if segs else ""
    kind = {"submodels": "sm", "shells": "shell", "concept-descriptions": "cd"}.get(top)
    if kind is None:
        return []
    i = None
    if len(segs) >= 2:
        d = c10.b64_outcome(segs[1])
        i = d[1] if isinstance(d, list) else None
    elif isinstance(out[2], list) and len(out[2]) == 2:
        i = out[2][1]
    o = next((x for x in snap if x.get("k") == kind and x.get("id") == i), None)
    if o is None:
        return []
    # in both representations: what a body got into the store must come out of it again as JSON and as XML
    rs = [c10.mk_req("GET", [top, c10.b64(i)], acc, level=rng.choice([None, None, "core"])) for acc in (rng.choice([2, 3]), rng.choice([0, 1]))]
    if kind == "sm":
        atts = [p for p, e in c10.all_paths(o["root"]) if stored_class(e) in ("File", "Blob")]
        for p in rng.sample(atts, min(len(atts), 3)):
            rs.append(c10.mk_req("GET", [top, c10.b64(i), "submodel-elements", ".".join(p), "attachment"], rng.choice([0, 2])))
        if len(segs) >= 4 and segs[2] == "submodel-elements" and segs[3] not in LITERALS:
            rs += [c10.mk_req("GET", segs[:4], acc) for acc in (rng.choice([2, 3]), 1)]
        if rng.random() < 0.3:
            rs.append(c10.mk_req("GET", [top, c10.b64(i), "submodel-elements"], rng.choice([1, 2, 3]), limit="100"))
    return rs


class GridHistory(c10.Lazy):
    def __init__(self, seed: str, length: int, modelled_only: bool):
        self.rng = random.Random(seed)
        self.length = length
        self.modelled_only = modelled_only
        self.last: Any = None        # (request, outcome) of the request yielded last, if the caller reports it (oracle)

    def feedback(self, R, out):
        self.last = (R, out)

    def requests(self, snapshot_fn):
        for k in range(self.length):
            snap = snapshot_fn()
            if self.last is not None and not self.modelled_only and self.rng.random() < 0.6:
                R0, out0 = self.last
                self.last = None
                for R in read_back(self.rng, R0, out0, snap):
                    yield R
                self.last = None
                snap = snapshot_fn()
            # keep some state around so that rejected requests have something they could damage
            if not self.modelled_only and (k < 2 or not snap):
                yield zoo_request(self.rng, snap, setup=True)
            elif k < 3 or (not snap and self.rng.random() < 0.5):
                yield c10.gen_request(self.rng, 0.0, snap)
            elif not self.modelled_only and self.rng.random() < 0.62:
                yield zoo_request(self.rng, snap)
            else:
                yield grid_request(self.rng, snap, self.modelled_only)


def correspond(ctx: C.Ctx, cov: C.Coverage) -> List[C.Disagreement]:
    rng = random.Random(f"C11:{ctx.seed}")
    cov.rule = ("request class grid: 28 route shapes (all modelled routes, the declared-unimplemented ones, unknown routes) x 8 methods x 8 identifier "
                "classes (valid, unpadded, unknown, over-padded, non-base64, non-UTF-8, non-ASCII, literal-like) x 9 idShort-path classes x 7 body "
                "classes (ok, malformed from a pool of 17, nested too deep for the parser, array, absent, unsupported content type, wrong class) in JSON and XML x 8 Accept x 7 "
                "Content-Type variants x 15 limit/cursor values x level, against stores built up by well-formed requests; status, Location, "
                "payload and the complete store snapshot compared with the model after every request. non-trivial = the request is rejected "
                "for a reason other than unknown route; distinct = (method, route shape, status)")
    hs = [GridHistory(f"g:{ctx.seed}:{k}", rng.randint(8, 16), True) for k in range(ctx.budget(140, 1100))]
    dis: List[C.Disagreement] = []
    lines, impl, index, kept = c10.run_histories(hs, False, None, "dict")
    for h in kept:
        cov.evaluations += len(h)
    for k, l in enumerate(lines):
        if l[0] == "req":
            out = impl[k]
            st = out[1] if out[0] == "resp" else "crash"
            R = kept[index[k][0]][index[k][1]]
            shape = route_shape(R)
            cov.hit(f"{R['m']}:{st}")
            if st == "crash" or (isinstance(st, int) and st >= 400 and not (st == 404 and shape in ("/nothing", "/submodels/{id}/nothing"))):
                cov.nontrivial.add(C.sha([R["m"], shape, st]))
    dis += c10.compare("C11", lines, impl, index, kept, False, "dict store")
    hf = [GridHistory(f"gf:{ctx.seed}:{k}", rng.randint(6, 12), True) for k in range(ctx.budget(12, 120))]
    lines, impl, index, kept2 = c10.run_histories(hf, True, None, "file")
    for h in kept2:
        cov.evaluations += len(h)
    dis += c10.compare("C11", lines, impl, index, kept2, True, "file store")
    cov.samples = [[(R["m"], c10.url_of(R), c10.CTYPES[R["ct"]][0], R["body"] if isinstance(R["body"], str) else "object") for R in kept[0][:8]]]
    cov.extra["neutral_zones"] = ["int() spellings of limit/cursor accepted by Python ('+1', ' 2', '1_0', non-ASCII digits) are answered 200",
                                  "over-padded base64url identifiers are accepted (the decoder appends '==' itself)",
                                  "non-alphabet characters inside a base64url segment are skipped by the standard decoder"]
    return dis


def oracle(ctx: C.Ctx, cov: C.Coverage) -> List[C.Failing]:
    """The property over the implementation alone, on the full grid incl. the handlers outside the Lean model."""
    rng = random.Random(f"C11-oracle:{ctx.seed}")
    out: List[C.Failing] = []
    sigs = set()
    cov.extra["oracle"] = ("request histories on the implementation alone (dict- and file-backed), every request judged by the statement: the class grid "
                           "of the tie extended by the unmodelled routes, plus the zoo: JSON documents over the whole metamodel (14 submodel element "
                           "classes, both reference kinds in every position, asset information, qualifiers, extensions), their XML form, structural "
                           "mutations of both (emptied lists, dropped / null / wrong-typed members, other modelType, duplicates, reference and key "
                           "types, renamed / removed / emptied XML elements), bodies nested 120..100000 deep, strings hostile to XML text and HTTP "
                           "headers, PUT bodies of the stored class / a class related to it by inheritance / any class, multipart uploads "
                           "(well-formed and not), raw query strings (non-ASCII, idShort / semanticId / assetIds filters carrying JSON, mutated), "
                           "read-back of every accepted write in JSON and XML and of its attachments; (round 4) lists of 10 element types x value "
                           "types x semanticIdListElement (fitting and not), replacements that keep the stored classes under the stored idShorts (a "
                           "list meets a list of another type, also inside a replaced ancestor), XML bodies of nested collections / lists / entities "
                           "120..3000 deep, lexical edge cases of 30 value types in Property / Range / Qualifier / Extension values, uploads under file "
                           "names around and beyond the PathType limit and with characters AASd-130 excludes; the snapshot compared around a 4xx "
                           "holds every stored object in full and the file container")
    for k in range(ctx.budget(400, 3000)):
        fb = k % 6 == 5
        chk = Checker(fb, reclass=(k % 7 == 3))
        try:
            h = GridHistory(f"o:{ctx.seed}:{k}", rng.randint(8, 16), False)
            for R in h.requests(chk.srv.snapshot):
                o = chk.step(R)
                h.feedback(R, o)
                cov.hit(f"oracle:{'zoo' if R['body'] == 'raw' or R.get('form') or R.get('xq') else 'grid'}:{R['m']}:{o[1] if o[0] == 'resp' else 'crash'}")
            # special inputs the grid cannot draw by chance
            if k % 10 == 0:
                for R in special_requests(rng):
                    chk.step(R)
            if k in (1, 5):
                malformed_sweep(chk)
                cov.hit("oracle:malformed-sweep")
        finally:
            chk.close()
        cov.hit("oracle-histories")
        for f in chk.fails:
            if f.sig not in sigs:
                sigs.add(f.sig)
                if not f.case.get("minimal"):
                    f.case["reqs"] = C.ddmin(f.case["reqs"], lambda rs, f=f, fb=chk.mode: (lambda g: g is not None and g.sig == f.sig)(check_history(rs, fb)), 60)
                out.append(f)
    return out


def malformed_sweep(chk: "Checker") -> None:
    """(round 5) "Malformed ... client input always yields a 4xx": EVERY document of the malformed pool (c10.MALFORMED: not well-formed,
    empty, of no class, violating a constraint, or malformed in an optional nested position only) x every route that takes a body x
    level absent / core x the content types of its format, against a store that holds the addressed resources.  Exhaustive, not drawn."""
    i, shid, cdid = c10.IDS[0], c10.IDS[2], c10.IDS[3]
    sm = c10.mk_sm(i, None, 1, [[c10.QTYPES[0], 1]], [c10.mk_elem("prop", "a", 1, [[c10.QTYPES[0], 1]]), c10.mk_elem("coll", "b", 1, [], [])])
    sh = c10.mk_shell(shid, None, 1, [i])
    cd = c10.gen_obj(random.Random(5), "cd", cdid)
    P = lambda segs, o, p: c10.mk_req("POST", segs, 1, 0, {"p": p, "o" if p == "obj" else "e": o}, c10.serialise(o, "json"))
    setup = [P(["submodels"], sm, "obj"), P(["shells"], sh, "obj"), P(["concept-descriptions"], cd, "obj")]
    for R in setup:
        chk.step(R)
    b = c10.b64
    q0 = b(c10.QTYPES[0])
    routes = [("POST", ["submodels"]), ("PUT", ["submodels", b(i)]), ("POST", ["shells"]), ("PUT", ["shells", b(shid)]),
              ("POST", ["concept-descriptions"]), ("PUT", ["concept-descriptions", b(cdid)]),
              ("PUT", ["shells", b(shid), "submodels", b(i)]), ("POST", ["shells", b(shid), "submodel-refs"]),
              ("POST", ["submodels", b(i), "submodel-elements"]), ("PUT", ["submodels", b(i), "submodel-elements", "a"]),
              ("POST", ["submodels", b(i), "submodel-elements", "b"]),
              ("POST", ["submodels", b(i), "qualifiers"]), ("PUT", ["submodels", b(i), "qualifiers", q0]),
              ("POST", ["submodels", b(i), "submodel-elements", "a", "qualifiers"]), ("PUT", ["submodels", b(i), "submodel-elements", "a", "qualifiers", q0]),
              ("PUT", ["shells", b(shid), "asset-information"])]
    for fmt, cts in (("json", [0, 4]), ("xml", [1, 2, 3])):
        for n, doc in enumerate(c10.MALFORMED[fmt]):
            for r, (m, segs) in enumerate(routes):
                for level in (None, "core"):
                    R = c10.mk_req(m, segs, (n + r) % 4, cts[(n + r) % len(cts)], "raw", doc, level=level)
                    R["expect4xx"] = True
                    nf = len(chk.fails)
                    chk.step(R)
                    for f in chk.fails[nf:]:
                        # the three requests that fill the store + this one reproduce it (what the sweep accepted before is not needed)
                        f.case["reqs"] = setup + [R]
                        f.case["minimal"] = True


def special_requests(rng: random.Random) -> List[Dict[str, Any]]:
    i = c10.IDS[0]
    sm = c10.mk_sm(i, None, 1, [], [c10.mk_elem("prop", "a", 1)])
    sh = c10.mk_shell(c10.IDS[2], None, 1, [i])
    P = lambda segs, o, p: c10.mk_req("POST", segs, 1, 0, {"p": p, "o" if p == "obj" else "e": o}, c10.serialise(o, "json"))
    return [P(["submodels"], sm, "obj"), P(["shells"], sh, "obj"),
            c10.mk_req("GET", ["submodels"], 1, limit="99999999999999999999"),
            c10.mk_req("GET", ["submodels"], 1, limit="1", cursor="9223372036854775807"),
            c10.mk_req("GET", ["submodels", "ä"], 1),
            P(["submodels", c10.b64(i), "submodel-elements"], c10.mk_elem("prop", None, 1), "elem"),
            c10.mk_req("DELETE", ["submodels", c10.b64(i)], 1),
            c10.mk_req("PUT", ["shells", c10.b64(c10.IDS[2]), "submodels", c10.b64(i)], 1, 0, {"p": "obj", "o": sm}, c10.serialise(sm, "json")),
            c10.mk_req("DELETE", ["shells", c10.b64(c10.IDS[2]), "submodels", c10.b64(i)], 1)] + deep_reference_requests(rng) \
        + hostile_identifier_requests(rng)


def hostile_identifier_requests(rng: random.Random) -> List[Dict[str, Any]]:
    """(round 7) identifiers, idShort paths and qualifier types made of strings XML cannot carry, addressed with an XML Accept: the
    4xx result quotes what the client sent"""
    out = []
    for sidx, s_ in enumerate(XML_HOSTILE + ["\ufffe\uffff", "a\ufffeb"]):
        try:
            seg = base64.urlsafe_b64encode(s_.encode("utf-8", "surrogatepass")).decode("ascii")
        except Exception:
            continue
        acc = 2 + sidx % 2                      # application/xml, text/xml
        for top in ("shells", "submodels", "concept-descriptions"):
            out.append(c10.mk_req(rng.choice(["GET", "DELETE"]), [top, seg], acc))
        out.append(c10.mk_req("GET", ["submodels", c10.b64(c10.IDS[0]), "qualifiers", seg], acc))
        out.append(c10.mk_req("DELETE", ["shells", c10.b64(c10.IDS[2]), "submodel-refs", seg], acc))
    return out


def deep_reference_requests(rng: random.Random) -> List[Dict[str, Any]]:
    """(round 5) a shell's submodel reference that goes on INTO the submodel (posted as XML, where the reader takes the keys as
    they are), then every route that follows the reference"""
    i, shid = c10.IDS[1], c10.IDS[3]
    sm = c10.mk_sm(i, None, 1, [], [c10.mk_elem("prop", "a", 1), c10.mk_elem("prop", "b", 2)])
    sh = c10.mk_shell(shid, None, 1, [])
    P = lambda segs, o, p: c10.mk_req("POST", segs, 1, 0, {"p": p, "o" if p == "obj" else "e": o}, c10.serialise(o, "json"))
    ref = ('<aas:reference xmlns:aas="https://admin-shell.io/aas/3/0"><aas:type>ModelReference</aas:type><aas:keys><aas:key><aas:type>Submodel'
           '</aas:type><aas:value>%s</aas:value></aas:key><aas:key><aas:type>Property</aas:type><aas:value>%s</aas:value></aas:key></aas:keys>'
           '</aas:reference>' % (i, rng.choice(["a", "b", "nope"]))).encode()
    via = ["shells", c10.b64(shid), "submodels", c10.b64(i)]
    out = [P(["submodels"], sm, "obj"), P(["shells"], sh, "obj"),
           c10.mk_req("POST", ["shells", c10.b64(shid), "submodel-refs"], 1, 1, "raw", ref),
           c10.mk_req("GET", via, 1), c10.mk_req("GET", via + ["submodel-elements", "a"], 1),
           c10.mk_req("PUT", via, 1, 0, {"p": "obj", "o": sm}, c10.serialise(sm, "json")),
           c10.mk_req("DELETE", via, 1),
           c10.mk_req("DELETE", ["shells", c10.b64(shid), "submodel-refs", c10.b64(i)], 1)]
    # (round 6) ... and a reference whose keys are well-formed (AASd-128 is about the key TYPES) but run through a LIST under a
    # segment that is no index: resolving it raises ValueError, not KeyError
    i2, sh2 = c10.IDS[0], c10.IDS[2]
    sm2 = json.dumps({"modelType": "Submodel", "id": i2, "submodelElements": [
        {"modelType": "SubmodelElementList", "idShort": "b", "typeValueListElement": "Property", "valueTypeListElement": "xs:int",
         "value": [{"modelType": "Property", "valueType": "xs:int", "value": "1"}]}]}).encode()
    ref2 = ('<aas:reference xmlns:aas="https://admin-shell.io/aas/3/0"><aas:type>ModelReference</aas:type><aas:keys><aas:key><aas:type>Submodel'
            '</aas:type><aas:value>%s</aas:value></aas:key><aas:key><aas:type>SubmodelElementCollection</aas:type><aas:value>b</aas:value></aas:key>'
            '<aas:key><aas:type>Property</aas:type><aas:value>%s</aas:value></aas:key></aas:keys></aas:reference>'
            % (i2, rng.choice(["abc", "0", "7", "-1"]))).encode()
    # (round 7) ... or through an element that cannot have children (Submodel / Property a / Property q): TypeError
    ref3 = ('<aas:reference xmlns:aas="https://admin-shell.io/aas/3/0"><aas:type>ModelReference</aas:type><aas:keys><aas:key><aas:type>Submodel'
            '</aas:type><aas:value>%s</aas:value></aas:key><aas:key><aas:type>Property</aas:type><aas:value>a</aas:value></aas:key>'
            '<aas:key><aas:type>Property</aas:type><aas:value>q</aas:value></aas:key></aas:keys></aas:reference>' % i).encode()
    sh3 = c10.IDS[4]
    via3 = ["shells", c10.b64(sh3), "submodels", c10.b64(i)]
    out += [P(["submodels"], sm, "obj"), P(["shells"], c10.mk_shell(sh3, None, 1, []), "obj"),
            c10.mk_req("POST", ["shells", c10.b64(sh3), "submodel-refs"], 1, 1, "raw", ref3),
            c10.mk_req("GET", via3, 1), c10.mk_req("PUT", via3, 1, 0, {"p": "obj", "o": sm}, c10.serialise(sm, "json")),
            c10.mk_req("DELETE", via3, 1)]
    via2 = ["shells", c10.b64(sh2), "submodels", c10.b64(i2)]
    out += [c10.mk_req("POST", ["submodels"], 1, 0, "raw", sm2), P(["shells"], c10.mk_shell(sh2, None, 1, []), "obj"),
            c10.mk_req("POST", ["shells", c10.b64(sh2), "submodel-refs"], 1, 1, "raw", ref2),
            c10.mk_req("GET", via2, 1), c10.mk_req("GET", via2 + ["submodel-elements", "b"], 2),
            c10.mk_req("PUT", via2, 1, 0, "raw", sm2), c10.mk_req("DELETE", via2, 1),
            c10.mk_req("DELETE", ["shells", c10.b64(sh2), "submodel-refs", c10.b64(i2)], 1)]
    return out


def search(ctx: C.Ctx, disagreements, broken) -> List[C.Failing]:
    out: List[C.Failing] = []
    for d in disagreements:
        if isinstance(d.case, dict) and "reqs" in d.case:
            f = check_history(d.case["reqs"], d.case.get("mode", "dict"))
            if f:
                out.append(f)
    if out:
        return out
    big = C.Ctx(ctx.prop, "thorough", ctx.seed + 1, random.Random(), ctx.t0, ctx.jobs)
    out = oracle(big, C.Coverage())
    own_known = {k["sig"] for k in C.load_known("C11") if k.get("status", "open") == "open"}
    out = [f for f in out if f.sig not in own_known]
    if not out:
        # the sister property's oracle may see what broke; its own recorded findings are not C11's business
        known = {k["sig"] for k in C.load_known("C10") if k.get("status", "open") == "open"}
        out = [f for f in c10.oracle(big, C.Coverage()) if f.sig not in known]
    return out


def replay(case) -> Optional[C.Failing]:
    if case.get("kind") == "semantic":
        return c10.replay(case)
    return check_history(case["reqs"], case.get("mode", "dict"))


def translate(ctx) -> List[str]:
    return c10_translate.translate(ctx)
